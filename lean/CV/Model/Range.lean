import CV.Model.Machine
/-!
# Impl model of `RangeEncoder<Word, State, Vec<Word>>` and `RangeDecoder<Word, State, Cursor<..>>`
(src/stream/queue.rs)

`bulk` / `data` are kept in Rust order (head of the list = first word written / read).
The encoder backend is a `Vec<Word>` (writes never fail); the decoder backend is a `Cursor`
over a word buffer (`data`, `pos`; reads never fail, reading past the end yields `None`).

Counters of type `usize` are `usizeBits`-bit machine integers like everything else:
`bulk.pos() + num_inverted` (`pos`), `count += num_inverted` (`num_seal_words`),
`remaining() + num_seal_words()` (`num_words`), `Word::BITS * num_words()` (`num_bits`) are
checked operations, and `num_inverted.wrapping_add(1)` followed by
`NonZeroUsize::new(..).expect(..)` panics when it wraps to zero.  Only the length of a `Vec`
(a list here) carries no explicit bound.

Every plain `*`, `+`, `<<`, `>>`, `/` of the Rust code is a checked operation returning a
`Fault`; `wrapping_add`/`wrapping_sub` are `wadd`/`wsub`; `as_()` is `narrow`.
-/
namespace CV.Range

/-- `EncoderSituation<Word>` -/
inductive Situation where
  | normal
  | inverted (numInverted : Nat) (first : Nat)
  deriving Repr, DecidableEq, Inhabited

/-- `usize::BITS` on the targets the harness runs on -/
def usizeBits : Nat := 64

/-- `num_inverted`, or 0 in the normal situation -/
def Situation.held : Situation → Nat
  | .normal => 0
  | .inverted n _ => n

/-- `RangeEncoder { bulk, state: RangeCoderState { lower, range }, situation }` -/
structure Encoder where
  bulk : List Nat
  lower : Nat
  range : Nat
  situation : Situation
  deriving Repr, DecidableEq, Inhabited

inductive EncErr where
  | impossible
  | fault (f : Fault)
  deriving Repr, DecidableEq

/-- `State::max_value()` -/
def maxState (c : Cfg) : Nat := 2^c.S - 1
/-- `Word::max_value()` -/
def maxWord (c : Cfg) : Nat := 2^c.W - 1

/-- `RangeEncoder::new()` / `RangeCoderState::default()` -/
def Encoder.empty (c : Cfg) : Encoder :=
  { bulk := [], lower := 0, range := maxState c, situation := .normal }

/-- `RangeEncoder::with_backend(vec)` -/
def Encoder.withBackend (c : Cfg) (ws : List Nat) : Encoder :=
  { bulk := ws, lower := 0, range := maxState c, situation := .normal }

/-- `RangeCoderState::new(lower, range)`: `None` = `Err(())` -/
def stateNew (c : Cfg) (lower range : Nat) : M (Option (Nat × Nat)) :=
  match shr "range.state.new" c.S range (c.S - c.W) with
  | .error f => .error f
  | .ok top => if top = 0 then .ok none else .ok (some (lower, range))

/-- The held-back words once it is known whether the carry happened:
    `(first + 1, 0, 0, …)` or `(first, max, max, …)`; `n` words in total.
    `first_inverted_lower_word + Word::one()` is a plain (checked) addition. -/
def heldWords (c : Cfg) (n first : Nat) (carry : Bool) : M (List Nat) :=
  if carry then
    match cadd "range.first+1" c.W first 1 with
    | .error f => .error f
    | .ok fw => .ok (fw :: List.replicate (n - 1) 0)
  else .ok (first :: List.replicate (n - 1) (maxWord c))

/-- first part of `encode_symbol` after the new interval is known: an inverted situation is
    resolved if the new interval no longer wraps -/
def resolve (c : Cfg) (e : Encoder) (newLower range1 : Nat) : M (List Nat × Situation) :=
  match e.situation with
  | .normal => .ok (e.bulk, .normal)
  | .inverted n first =>
    if wadd c.S newLower range1 > newLower then
      match heldWords c n first (decide (newLower < e.lower)) with
      | .error f => .error f
      | .ok ws => .ok (e.bulk ++ ws, .normal)
    else .ok (e.bulk, .inverted n first)

/-- second part of `encode_symbol`: renormalisation -/
def renorm (c : Cfg) (bulk : List Nat) (sit : Situation) (lower range : Nat) : M Encoder :=
  match shl "range.enc.thr" c.S 1 (c.S - c.W) with
  | .error f => .error f
  | .ok thr =>
    if range < thr then
      match shl "range.enc.range<<W" c.S range c.W with
      | .error f => .error f
      | .ok range2 =>
        -- `into_nonzero_unchecked`
        if range2 = 0 then .error (.ub "range.enc.nonzero") else
        match shr "range.enc.lower>>" c.S lower (c.S - c.W) with
        | .error f => .error f
        | .ok top =>
          let lowerWord := narrow c.W top
          match shl "range.enc.lower<<W" c.S lower c.W with
          | .error f => .error f
          | .ok lower2 =>
            match sit with
            | .inverted n first =>
              -- `NonZeroUsize::new(num_inverted.get().wrapping_add(1)).expect(..)`
              let n' := wadd usizeBits n 1
              if n' = 0 then .error (.panic "range.enc.num_inverted") else
              .ok { bulk := bulk, lower := lower2, range := range2,
                    situation := .inverted n' first }
            | .normal =>
              if wadd c.S lower2 range2 > lower2 then
                .ok { bulk := bulk ++ [lowerWord], lower := lower2, range := range2,
                      situation := .normal }
              else
                .ok { bulk := bulk, lower := lower2, range := range2,
                      situation := .inverted 1 lowerWord }
    else .ok { bulk := bulk, lower := lower, range := range, situation := sit }

/-- `encode_symbol` after the model lookup returned `(cum, p)` (at precision `c.P`). -/
def encodeCP (c : Cfg) (e : Encoder) (cum p : Nat) : Except EncErr Encoder :=
  match shr "range.enc.scale" c.S e.range c.P with
  | .error f => .error (.fault f)
  | .ok scale =>
    match cmul "range.enc.scale*p" c.S scale p with
    | .error f => .error (.fault f)
    | .ok range1 =>
      -- `.into_nonzero().ok_or_else(ImpossibleSymbol)`
      if range1 = 0 then .error .impossible else
      match cmul "range.enc.scale*cum" c.S scale cum with
      | .error f => .error (.fault f)
      | .ok off =>
        let newLower := wadd c.S e.lower off
        match resolve c e newLower range1 with
        | .error f => .error (.fault f)
        | .ok (bulk1, sit1) =>
          match renorm c bulk1 sit1 newLower range1 with
          | .error f => .error (.fault f)
          | .ok e' => .ok e'

def encode {Sym : Type} (c : Cfg) (m : Model Sym) (s : Sym) (e : Encoder) :
    Except EncErr Encoder :=
  match m.enc s with
  | none => .error .impossible
  | some (cum, p) => encodeCP c e cum p

/-- `point = lower.wrapping_add((1 << (S - W)) - 1)` -/
def sealPoint (c : Cfg) (e : Encoder) : M Nat :=
  match shl "range.seal.one" c.S 1 (c.S - c.W) with
  | .error f => .error f
  | .ok one =>
    match csub "range.seal.one-1" one 1 with
    | .error f => .error f
    | .ok d => .ok (wadd c.S e.lower d)

/-- the held-back words as `seal` flushes them -/
def sealHeldM (c : Cfg) (e : Encoder) (point : Nat) : M (List Nat) :=
  match e.situation with
  | .normal => .ok []
  | .inverted n first => heldWords c n first (decide (point < e.lower))

/-- the words `seal` appends to the backend -/
def sealWords (c : Cfg) (e : Encoder) : M (List Nat) :=
  if e.range = maxState c then .ok [] else
  match sealPoint c e with
  | .error f => .error f
  | .ok point =>
    match sealHeldM c e point with
    | .error f => .error f
    | .ok hw =>
      match shr "range.seal.point>>" c.S point (c.S - c.W) with
      | .error f => .error f
      | .ok pt =>
        let pointWord := narrow c.W pt
        match shr "range.seal.upper>>" c.S (wadd c.S e.lower e.range) (c.S - c.W) with
        | .error f => .error f
        | .ok ut =>
          let upperWord := narrow c.W ut
          .ok (hw ++ [pointWord] ++ (if upperWord = pointWord then [0] else []))

/-- `seal`: only the backend changes -/
def sealEnc (c : Cfg) (e : Encoder) : M Encoder :=
  match sealWords c e with
  | .error f => .error f
  | .ok ws => .ok { e with bulk := e.bulk ++ ws }

/-- `into_compressed` -/
def intoCompressed (c : Cfg) (e : Encoder) : M (List Nat) :=
  match sealEnc c e with
  | .error f => .error f
  | .ok e' => .ok e'.bulk

/-- `num_seal_words` -/
def numSealWords (c : Cfg) (e : Encoder) : M Nat :=
  if e.range = maxState c then .ok 0 else
  match sealPoint c e with
  | .error f => .error f
  | .ok point =>
    match shr "range.nsw.point>>" c.S point (c.S - c.W) with
    | .error f => .error f
    | .ok pt =>
      let pointWord := narrow c.W pt
      match shr "range.nsw.upper>>" c.S (wadd c.S e.lower e.range) (c.S - c.W) with
      | .error f => .error f
      | .ok ut =>
        let upperWord := narrow c.W ut
        let count := if upperWord = pointWord then 2 else 1
        -- `count += num_inverted.get()`
        cadd "range.nsw.count+n" usizeBits count e.situation.held

/-- `num_words` for a `Vec` backend -/
def numWords (c : Cfg) (e : Encoder) : M Nat :=
  match numSealWords c e with
  | .error f => .error f
  | .ok k => cadd "range.nw.remaining+seal" usizeBits e.bulk.length k

/-- `num_bits = Word::BITS * num_words()` (`usize` arithmetic) -/
def numBits (c : Cfg) (e : Encoder) : M Nat :=
  match numWords c e with
  | .error f => .error f
  | .ok k => cmul "range.nb.W*nw" usizeBits c.W k

/-- `is_empty` -/
def isEmpty (c : Cfg) (e : Encoder) : Bool :=
  e.range == maxState c && e.bulk.isEmpty

/-- `unseal`: pops `num_seal_words()` words; `debug_assert!(word.is_some())` -/
def unsealEnc (c : Cfg) (e : Encoder) : M Encoder :=
  match numSealWords c e with
  | .error f => .error f
  | .ok k =>
    if k ≤ e.bulk.length then .ok { e with bulk := e.bulk.take (e.bulk.length - k) }
    else .error (.panic "range.unseal.debug_assert")

/-- `EncoderGuard::new`: seals unless `is_empty()` -/
def guardNew (c : Cfg) (e : Encoder) : M Encoder :=
  if isEmpty c e then .ok e else sealEnc c e

/-- `get_compressed()` followed by dropping the guard: the view and the encoder afterwards -/
def getCompressed (c : Cfg) (e : Encoder) : M (List Nat × Encoder) :=
  match guardNew c e with
  | .error f => .error f
  | .ok g =>
    match unsealEnc c g with
    | .error f => .error f
    | .ok e' => .ok (g.bulk, e')

/-- `clear()`: `bulk.clear()`, `state = RangeCoderState::default()`,
    `situation = EncoderSituation::Normal` — the state of `new()` -/
def clear (c : Cfg) (_e : Encoder) : Encoder :=
  { bulk := [], lower := 0, range := maxState c, situation := .normal }

/-- `Pos::pos` for a `Vec` backend: `(bulk.len() + num_inverted, (lower, range))` -/
def Encoder.pos (e : Encoder) : M (Nat × Nat × Nat) :=
  match cadd "range.pos.len+n" usizeBits e.bulk.length e.situation.held with
  | .error f => .error f
  | .ok n => .ok (n, e.lower, e.range)

/-! ## Decoder -/

/-- `RangeDecoder { bulk: Cursor { buf = data, pos }, state: { lower, range }, point }` -/
structure Decoder where
  data : List Nat
  pos : Nat
  lower : Nat
  range : Nat
  point : Nat
  deriving Repr, DecidableEq, Inhabited

inductive DecErr where
  | invalidData
  | fault (f : Fault)
  deriving Repr, DecidableEq

/-- the `while let Some(word) = bulk.read()?` loop of `read_point`; the argument list is the
    unread rest of the buffer; returns `(num_read, point)` -/
def readPointLoop (c : Cfg) : List Nat → Nat → Nat → M (Nat × Nat)
  | [], numRead, point => .ok (numRead, point)
  | w :: rest, numRead, point =>
    match shl "range.readpoint.shl" c.S point c.W with
    | .error f => .error f
    | .ok sh =>
      let point' := sh ||| w
      let numRead' := numRead + 1
      if numRead' = c.S / c.W then .ok (numRead', point')
      else readPointLoop c rest numRead' point'

/-- `read_point`: returns `(point, new cursor position)` -/
def readPoint (c : Cfg) (data : List Nat) (pos : Nat) : M (Nat × Nat) :=
  match readPointLoop c (data.drop pos) 0 0 with
  | .error f => .error f
  | .ok (numRead, point) =>
    if numRead < c.S / c.W then
      if numRead ≠ 0 then
        -- `State::BITS - num_read * Word::BITS` in `usize`
        match csub "range.readpoint.sub" c.S (numRead * c.W) with
        | .error f => .error f
        | .ok k =>
          match shl "range.readpoint.pad" c.S point k with
          | .error f => .error f
          | .ok point' => .ok (point', pos + numRead)
      else .ok (point, pos + numRead)
    else .ok (point, pos + numRead)

/-- `RangeDecoder::from_compressed(vec)` -/
def Decoder.fromCompressed (c : Cfg) (ws : List Nat) : M Decoder :=
  match readPoint c ws 0 with
  | .error f => .error f
  | .ok (point, pos) =>
    .ok { data := ws, pos := pos, lower := 0, range := maxState c, point := point }

/-- `RangeDecoder::from_raw_parts(cursor, state, point)`; `none` = `Err(bulk)` -/
def Decoder.fromRawParts (c : Cfg) (data : List Nat) (pos lower range point : Nat) :
    Option Decoder :=
  if wsub c.S point lower ≥ range then none
  else some { data := data, pos := pos, lower := lower, range := range, point := point }

/-- the part of `decode_symbol` after `model.quantile_function` returned `(s, cum, p)` -/
def decodeStep {Sym : Type} (c : Cfg) (d : Decoder) (scale : Nat) (s : Sym) (cum p : Nat) :
    Except DecErr (Sym × Decoder) :=
  match cmul "range.dec.scale*cum" c.S scale cum with
  | .error f => .error (.fault f)
  | .ok off =>
    let lower1 := wadd c.S d.lower off
    match cmul "range.dec.scale*p" c.S scale p with
    | .error f => .error (.fault f)
    | .ok range1 =>
      -- `.into_nonzero().expect("TODO")`
      if range1 = 0 then .error (.fault (.panic "range.dec.expect")) else
      match shl "range.dec.thr" c.S 1 (c.S - c.W) with
      | .error f => .error (.fault f)
      | .ok thr =>
        if range1 < thr then
          match shl "range.dec.lower<<W" c.S lower1 c.W with
          | .error f => .error (.fault f)
          | .ok lower2 =>
            match shl "range.dec.range<<W" c.S range1 c.W with
            | .error f => .error (.fault f)
            | .ok range2 =>
              if range2 = 0 then .error (.fault (.ub "range.dec.nonzero")) else
              match shl "range.dec.point<<W" c.S d.point c.W with
              | .error f => .error (.fault f)
              | .ok point2 =>
                match d.data[d.pos]? with
                | some w =>
                  .ok (s, { d with pos := d.pos + 1, lower := lower2, range := range2,
                                   point := point2 ||| w })
                | none =>
                  .ok (s, { d with lower := lower2, range := range2, point := point2 })
        else .ok (s, { d with lower := lower1, range := range1 })

/-- `decode_symbol` -/
def decode {Sym : Type} (c : Cfg) (m : Model Sym) (d : Decoder) :
    Except DecErr (Sym × Decoder) :=
  match shr "range.dec.scale" c.S d.range c.P with
  | .error f => .error (.fault f)
  | .ok scale =>
    match cdiv "range.dec.div" (wsub c.S d.point d.lower) scale with
    | .error f => .error (.fault f)
    | .ok quantile =>
      match shl "range.dec.one<<P" c.S 1 c.P with
      | .error f => .error (.fault f)
      | .ok total =>
        if quantile ≥ total then .error .invalidData else
        let t := m.dec (narrow c.B (narrow c.W quantile))
        decodeStep c d scale t.1 t.2.1 t.2.2

/-- `maybe_exhausted` -/
def Decoder.maybeExhausted (c : Cfg) (d : Decoder) : M Bool :=
  match shl "range.exh.one" c.S 1 (c.S - c.W) with
  | .error f => .error f
  | .ok one =>
    match shl "range.exh.<<1" c.S one 1 with
    | .error f => .error f
    | .ok two =>
      let maxDifference := wsub c.S two 1
      .ok (decide (d.data.length ≤ d.pos) &&
            (d.range == maxState c || decide (wsub c.S d.point d.lower < maxDifference)))

inductive SeekErr where
  | rejected
  | fault (f : Fault)
  deriving Repr, DecidableEq

/-- `Seek::seek((pos, state))` on a `Cursor` backend; the state is an already validated
    `RangeCoderState`. -/
def Decoder.seek (c : Cfg) (d : Decoder) (pos lower range : Nat) : Except SeekErr Decoder :=
  if pos > d.data.length then .error .rejected else
  match readPoint c d.data pos with
  | .error f => .error (.fault f)
  | .ok (point, pos') =>
    .ok { d with pos := pos', lower := lower, range := range, point := point }

/-- `decoder()`: a temporary decoder over the guard's view, and the encoder after the guard
    has been dropped -/
def tempDecoder (c : Cfg) (e : Encoder) : M (Decoder × Encoder) :=
  match getCompressed c e with
  | .error f => .error f
  | .ok (view, e') =>
    match Decoder.fromCompressed c view with
    | .error f => .error f
    | .ok d => .ok (d, e')

/-- `into_decoder()` -/
def intoDecoder (c : Cfg) (e : Encoder) : M Decoder :=
  match intoCompressed c e with
  | .error f => .error f
  | .ok ws => Decoder.fromCompressed c ws

/-! ## Batch forms (default methods of `Encode` / `Decode` in src/stream/mod.rs)

`encode_symbols`, `try_encode_symbols` (an `Err` item of the iterator is `none`) and
`encode_iid_symbols` are the loop `for item in items { self.encode_symbol(..)? }`; the decoding
iterators `decode_symbols`, `try_decode_symbols`, `decode_iid_symbols` call `decode_symbol` once
per `next()`.  After a failure part-way the coder is what the successful prefix left. -/

inductive BatchErr where
  | model
  | coding (e : EncErr)
  deriving Repr, DecidableEq

/-- `encode_symbols` / `try_encode_symbols`: the encoder afterwards and the result -/
def encodeSymbols {Sym : Type} (c : Cfg) : Encoder → List (Option (Sym × Model Sym)) →
    Encoder × Except BatchErr Unit
  | e, [] => (e, .ok ())
  | e, none :: _ => (e, .error .model)
  | e, some (s, m) :: rest =>
    match encode c m s e with
    | .ok e' => encodeSymbols c e' rest
    | .error err => (e, .error (.coding err))

/-- `encode_iid_symbols(symbols, model)` = `encode_symbols(symbols.map(|s| (s, model)))` -/
def encodeIidSymbols {Sym : Type} (c : Cfg) (e : Encoder) (m : Model Sym) (syms : List Sym) :
    Encoder × Except BatchErr Unit :=
  encodeSymbols c e (syms.map (fun s => some (s, m)))

inductive DecBatchErr where
  | model
  | coding (e : DecErr)
  deriving Repr, DecidableEq

/-- `decode_symbols(models).collect()` / `try_decode_symbols` up to the first `Err`: the decoder
    afterwards, the symbols obtained, the result -/
def decodeSymbols {Sym : Type} (c : Cfg) : Decoder → List (Option (Model Sym)) → List Sym →
    Decoder × List Sym × Except DecBatchErr Unit
  | d, [], acc => (d, acc.reverse, .ok ())
  | d, none :: _, acc => (d, acc.reverse, .error .model)
  | d, some m :: rest, acc =>
    match decode c m d with
    | .ok (s, d') => decodeSymbols c d' rest (s :: acc)
    | .error err => (d, acc.reverse, .error (.coding err))

/-- `decode_iid_symbols(n, model)` -/
def decodeIidSymbols {Sym : Type} (c : Cfg) (d : Decoder) (m : Model Sym) (n : Nat) :
    Decoder × List Sym × Except DecBatchErr Unit :=
  decodeSymbols c d (List.replicate n (some m)) []

/-- `Encode::maybe_full` / `Code::encoder_maybe_full` for a `Vec` backend -/
def maybeFull (_e : Encoder) : Bool := false

end CV.Range
