import CV.Model.Machine
/-!
# Float-derived entropy models: integer layer (import-free, executable)

Transcription of the *integer* part of

* `fast_quantized_cdf` (`src/stream/model/categorical.rs`) and the eager contiguous model built
  from it (`from_floating_point_probabilities_fast` → `from_fixed_point_cdf`),
* `LazyContiguousCategoricalEntropyModel` (`categorical/lazy_contiguous.rs`),
* `LeakyQuantizer` / `LeakilyQuantizedDistribution` (`quantize.rs`): `new`, `slack`,
  `left_cumulative_and_probability`, `quantile_function` (the search), the symbol-table iterator,

all **after** the repairs D1, D4, D10, D14, D16, D25, D27 (see DESIGN §7 and the final report of component
`quant`).  IEEE arithmetic is an external call here: the float pipeline enters only through the
integer sequences it produces,

* `h i  = toInt (c_i * scale)`            (`c_i` = left-to-right float sum of the first `i` weights),
* `gl s = toInt (free * cdf (s - 0.5))`,  `gr s = toInt (free * cdf (s + 0.5))`,

which are parameters.  `CV.Model.QuantFloatReplica` instantiates them with native
`Float`/`Float32` computations (bit-exact correspondence); the theorems instantiate them with
arbitrary sequences satisfying explicit decidable hypotheses (`Mono`, bounded by `free`).
-/
namespace CV.Quant

/-! ## Shared: constructor guards of the `…_fast` constructors -/

/-- `wrapping_pow2::<Probability>(PRECISION).wrapping_sub(&len.as_())` -/
def freeWeight (B P n : Nat) : Nat := wsub B (wrappingPow2 B P) (narrow B n)

/-- `!(len < 2 || len >= wrapping_pow2::<usize>(PRECISION).wrapping_sub(1))`, `usize` = 64 bit -/
def lenOk (P n : Nat) : Bool :=
  !(decide (n < 2) || decide (n ≥ wsub 64 (wrappingPow2 64 P) 1))

/-! ## `fast_quantized_cdf` and the eager contiguous model -/

/-- item `i` of the iterator returned by `fast_quantized_cdf`:
    `non_leaky.min(free_weight) + accumulated_slack` (plain `+`; the slack counter wraps) -/
def fastEntry (B free : Nat) (h : Nat → Nat) (i : Nat) : M Nat :=
  cadd "fast.left_cumulative" B (min (h i) free) (narrow B i)

/-- items `i, i+1, …, i+k-1` in order (the first panic wins) -/
def fastEntries (B free : Nat) (h : Nat → Nat) : (k i : Nat) → M (List Nat)
  | 0, _ => .ok []
  | k + 1, i =>
    match fastEntry B free h i with
    | .error f => .error f
    | .ok c =>
      match fastEntries B free h k (i + 1) with
      | .error f => .error f
      | .ok cs => .ok (c :: cs)

/-- `from_fixed_point_cdf(fast_quantized_cdf(..))`: the `n` items followed by `wrapping_pow2(P)` -/
def fastCdf (B P n free : Nat) (h : Nat → Nat) : M (List Nat) :=
  match fastEntries B free h n 0 with
  | .error f => .error f
  | .ok cs => .ok (cs ++ [wrappingPow2 B P])

/-- `ContiguousCategoricalEntropyModel::left_cumulative_and_probability` on a cdf table
    (`get_unchecked` is in bounds by the index test; the probability is `into_nonzero_unchecked`) -/
def eagerEnc (B : Nat) (cdf : List Nat) (s : Nat) : M (Option (Nat × Nat)) :=
  if s ≥ cdf.length - 1 then .ok none
  else
    match cdf[s]?, cdf[s + 1]? with
    | some l, some r =>
      let p := wsub B r l
      if p = 0 then .error (.ub "contiguous.enc.nonzero") else .ok (some (l, p))
    | _, _ => .error (.ub "contiguous.enc.index")

/-- `symbol_table()` of the eager model (`iter_extended_cdf`): `expect("quantization is leaky")` -/
def tableOfCdf (B : Nat) : (s : Nat) → List Nat → M (List (Nat × Nat × Nat))
  | s, l :: r :: rest =>
    let p := wsub B r l
    if p = 0 then .error (.panic "iter_extended_cdf.expect")
    else match tableOfCdf B (s + 1) (r :: rest) with
      | .error f => .error f
      | .ok t => .ok ((s, l, p) :: t)
  | _, _ => .ok []

/-! ## `LazyContiguousCategoricalEntropyModel` -/

/-- `EncoderModel::left_cumulative_and_probability` of the lazy model; `n = pmf.len()`,
    `h i = toInt (sum(pmf[..i]) * scale)` -/
def lazyEnc (B P n free : Nat) (h : Nat → Nat) (s : Nat) : M (Option (Nat × Nat)) :=
  if s ≥ n then .ok none
  else
    match cadd "lazy.enc.left" B (min (h s) free) (narrow B s) with
    | .error f => .error f
    | .ok left =>
      let rightM : M Nat :=
        if s = n - 1 then .ok (wrappingPow2 B P)
        else
          match cadd "lazy.enc.right" B (min (h (s + 1)) free) (narrow B s) with
          | .error f => .error f
          | .ok r => cadd "lazy.enc.right1" B r 1
      match rightM with
      | .error f => .error f
      | .ok right =>
        let p := wsub B right left
        if p = 0 then .error (.panic "lazy.enc.expect") else .ok (some (left, p))

/-- `next_symbol.wrapping_sub(1)` on `usize` (64 bit) -/
def usizePred (j : Nat) : Nat := if j = 0 then 2 ^ 64 - 1 else j - 1

/-- second loop of `quantile_function`: `j` = `next_symbol`, `left` = `left_cumulative`;
    `fuel` = number of items left in the iterator (`n - j`) -/
def lazyDecLoop (B P n free : Nat) (h : Nat → Nat) (q : Nat) :
    (fuel j left : Nat) → M (Nat × Nat × Nat)
  | 0, j, left =>
    -- iterator exhausted: the last symbol gets the remaining mass
    let p := wsub B (wrappingPow2 B P) left
    if p = 0 then .error (.panic "lazy.dec.expect_last")
    else .ok (usizePred j, left, p)
  | fuel + 1, j, left =>
    match cadd "lazy.dec.right" B (min (h j) free) (narrow B j) with
    | .error f => .error f
    | .ok right =>
      if right > q then
        let p := wsub B right left
        if p = 0 then .error (.panic "lazy.dec.expect") else .ok (usizePred j, left, p)
      else lazyDecLoop B P n free h q fuel (j + 1) right

/-- `DecoderModel::quantile_function` of the lazy model after its float-only skip phase, which
    consumed `k0` items (`1 ≤ k0 ≤ n`; `k0` is computed by the float replica, and is a parameter
    subject to the soundness hypothesis TB-F2 in the theorems) -/
def lazyDec (B P n free : Nat) (h : Nat → Nat) (k0 q : Nat) : M (Nat × Nat × Nat) :=
  match cadd "lazy.dec.left" B (min (h (k0 - 1)) free) (narrow B (usizePred k0)) with
  | .error f => .error f
  | .ok left => lazyDecLoop B P n free h q (n - k0) k0 left

/-! ## `LeakyQuantizer` -/

/-- an integer `Symbol` type: `u8 … u64`, `i8 … i64` -/
structure SymTy where
  bits : Nat
  signed : Bool
  deriving Repr, DecidableEq

def SymTy.lo (t : SymTy) : Int := if t.signed then -(2 ^ (t.bits - 1) : Nat) else 0
def SymTy.hi (t : SymTy) : Int :=
  if t.signed then (2 ^ (t.bits - 1) : Nat) - 1 else (2 ^ t.bits : Nat) - 1
def SymTy.inRange (t : SymTy) (x : Int) : Prop := t.lo ≤ x ∧ x ≤ t.hi
instance (t : SymTy) (x : Int) : Decidable (t.inRange x) := by
  unfold SymTy.inRange; exact inferInstance

/-- two's complement wrap into the type (`wrapping_*`, `<<`, `as`) -/
def SymTy.wrap (t : SymTy) (x : Int) : Int :=
  if t.signed then (x + (2 ^ (t.bits - 1) : Nat)) % (2 ^ t.bits : Nat) - (2 ^ (t.bits - 1) : Nat)
  else x % (2 ^ t.bits : Nat)

/-- plain `a + b` / `a - b` on `Symbol` in a checked build -/
def SymTy.cadd (t : SymTy) (site : String) (a b : Int) : M Int :=
  if t.inRange (a + b) then .ok (a + b) else .error (.overflow site)
def SymTy.csub (t : SymTy) (site : String) (a b : Int) : M Int :=
  if t.inRange (a - b) then .ok (a - b) else .error (.overflow site)

/-- `symbol.as_()` : `Symbol → Probability` (sign extension, then truncation to `B` bits) -/
def symToProb (B : Nat) (x : Int) : Nat := (x % (2 ^ B : Nat)).toNat

/-- `slack(symbol, min_symbol_inclusive)` -/
def slack (t : SymTy) (B : Nat) (symbol min : Int) : Nat :=
  let mask := wsub B (wrappingPow2 B t.bits) 1
  symToProb B (t.wrap (symbol - min)) &&& mask

/-- the quantizer / quantized distribution: types, support, `free_weight` -/
structure LQ where
  t : SymTy
  B : Nat
  P : Nat
  min : Int
  max : Int
  free : Nat
  deriving Repr

/-- `LeakyQuantizer::new(min..=max)` (after D10: size computed in a wide type) -/
def LQ.new (t : SymTy) (B P : Nat) (min max : Int) : M LQ :=
  if ¬ (max > min) then .error (.panic "quantizer.new.assert")
  else
    let sizeMinusOne := (max - min).toNat
    let maxProb := (2 ^ B - 1) >>> (B - P)
    if sizeMinusOne ≤ maxProb then
      .ok { t := t, B := B, P := P, min := min, max := max, free := maxProb - sizeMinusOne }
    else .error (.panic "quantizer.new.expect")

/-- result of evaluating the underlying distribution: `none` = the recorded external call is
    missing (only the float replica can produce it) -/
abbrev Ext := Int → Option Nat

inductive SErr where
  | fault (f : Fault)
  | missing
  | fuel
  deriving Repr, DecidableEq

abbrev SM := Except SErr

def liftM {α : Type} : M α → SM α
  | .ok a => .ok a
  | .error f => .error (.fault f)

/-- `(free_weight * distribution(symbol - 0.5)).as_() + slack(symbol, min)` -/
def LQ.leaky (m : LQ) (g : Ext) (site : String) (symbol : Int) : SM Nat :=
  match g symbol with
  | none => .error .missing
  | some nl => liftM (cadd site m.B nl (slack m.t m.B symbol m.min))

/-- `EncoderModel::left_cumulative_and_probability` -/
def LQ.enc (m : LQ) (gl gr : Ext) (symbol : Int) : SM (Option (Nat × Nat)) :=
  if symbol < m.min ∨ symbol > m.max then .ok none
  else
    let leftM : SM Nat :=
      if symbol = m.min then .ok 0 else m.leaky gl "quant.enc.left" symbol
    match leftM with
    | .error e => .error e
    | .ok left =>
      let rightM : SM Nat :=
        if symbol = m.max then .ok (wrappingPow2 m.B m.P)
        else match m.leaky gr "quant.enc.right" symbol with
          | .error e => .error e
          | .ok r => liftM (cadd "quant.enc.right1" m.B r 1)
      match rightM with
      | .error e => .error e
      | .ok right =>
        let p := wsub m.B right left
        if p = 0 then .error (.fault (.panic "quant.enc.expect")) else .ok (some (left, p))

/-- `(non_leaky + slack).wrapping_add(1)` resp. `wrapping_pow2(PRECISION)` for `max` -/
def LQ.rightOf (m : LQ) (gr : Ext) (site : String) (symbol : Int) : SM Nat :=
  if symbol = m.max then .ok (wrappingPow2 m.B m.P)
  else match m.leaky gr site symbol with
    | .error e => .error e
    | .ok r => .ok (wadd m.B r 1)

/-- `if step << 1 > 0 { step = step << 1 }` (D16: was `!= 0`) -/
def LQ.dbl (m : LQ) (step : Int) : Int :=
  if m.t.wrap (step * 2) > 0 then m.t.wrap (step * 2) else step

/-- inner loop of the downward exponential phase:
    `loop { let n = symbol.wrapping_sub(&step); if n >= min && n <= symbol { break n } step >>= 1 }` -/
def LQ.stepDown (m : LQ) (symbol : Int) : (fuel : Nat) → (step : Int) → SM (Int × Int)
  | 0, _ => .error .fuel
  | fuel + 1, step =>
    let n := m.t.wrap (symbol - step)
    if n ≥ m.min ∧ n ≤ symbol then .ok (n, step) else m.stepDown symbol fuel (step / 2)

/-- inner loop of the upward exponential phase -/
def LQ.stepUp (m : LQ) (symbol : Int) : (fuel : Nat) → (step : Int) → SM (Int × Int)
  | 0, _ => .error .fuel
  | fuel + 1, step =>
    let n := m.t.wrap (symbol + step)
    if n ≤ m.max ∧ n ≥ symbol then .ok (n, step) else m.stepUp symbol fuel (step / 2)

/-- downward search loop; state at the loop head.  Returns `(symbol, left, right)`.
    One unit of `fuel` = one probe of the distribution. -/
def LQ.down (m : LQ) (gl gr : Ext) (q : Nat) :
    (fuel : Nat) → (symbol step : Int) → (left : Nat) → (found : Bool) → SM (Int × Nat × Nat)
  | 0, _, _, _, _ => .error .fuel
  | fuel + 1, symbol, step, left, found =>
    let oldLeft := left
    if symbol = m.min ∧ step ≤ 1 then .ok (symbol, 0, oldLeft)
    else
      let leftM : SM Nat :=
        if symbol = m.min then .ok 0 else m.leaky gl "quant.dec.down.left" symbol
      match leftM with
      | .error e => .error e
      | .ok left =>
        if left ≤ q then
          if step ≤ 1 then
            match m.rightOf gr "quant.dec.down.right" symbol with
            | .error e => .error e
            | .ok right => .ok (symbol, left, right)
          else
            let step := step / 2
            match liftM (m.t.cadd "quant.dec.down.add" symbol step) with
            | .error e => .error e
            | .ok symbol => m.down gl gr q fuel symbol step left true
        else if found then
          let step := if step > 1 then step / 2 else step
          match liftM (m.t.csub "quant.dec.down.sub" symbol step) with
          | .error e => .error e
          | .ok symbol => m.down gl gr q fuel symbol step left true
        else
          let step := m.dbl step
          match m.stepDown symbol (m.t.bits + 1) step with
          | .error e => .error e
          | .ok (symbol, step) => m.down gl gr q fuel symbol step left false

/-- upward search loop -/
def LQ.up (m : LQ) (gl gr : Ext) (q : Nat) :
    (fuel : Nat) → (symbol step : Int) → (left : Nat) → (found : Bool) → SM (Int × Nat × Nat)
  | 0, _, _, _, _ => .error .fuel
  | fuel + 1, symbol, step, left, found =>
    if symbol = m.max ∧ step ≤ 1 then
      match m.leaky gl "quant.dec.up.leftmax" symbol with
      | .error e => .error e
      | .ok left =>
        let right := wrappingPow2 m.B m.P
        if right = left then .error (.fault (.panic "quant.dec.up.invalid")) else .ok (symbol, left, right)
    else
      match m.rightOf gr "quant.dec.up.right" symbol with
      | .error e => .error e
      | .ok right =>
        if right > q ∨ right = 0 then
          if step ≤ 1 then
            let leftM : SM Nat :=
              if symbol = m.min then .ok 0 else m.leaky gl "quant.dec.up.left" symbol
            match leftM with
            | .error e => .error e
            | .ok left =>
              if left ≤ q ∨ symbol = m.min then .ok (symbol, left, right)
              else
                match liftM (m.t.csub "quant.dec.up.sub" symbol step) with
                | .error e => .error e
                | .ok symbol => m.up gl gr q fuel symbol step left true
          else
            let step := step / 2
            match liftM (m.t.csub "quant.dec.up.sub" symbol step) with
            | .error e => .error e
            | .ok symbol => m.up gl gr q fuel symbol step left true
        else if found then
          let step := if step > 1 then step / 2 else step
          match liftM (m.t.cadd "quant.dec.up.add" symbol step) with
          | .error e => .error e
          | .ok symbol => m.up gl gr q fuel symbol step left true
        else
          let step := m.dbl step
          match m.stepUp symbol (m.t.bits + 1) step with
          | .error e => .error e
          | .ok (symbol, step) => m.up gl gr q fuel symbol step left false

/-- `DecoderModel::quantile_function`; `hint` = `inner.inverse(..).as_()` (already a `Symbol`).
    Returns `(symbol, left_cumulative, probability)`.  After D27 the final conversion is the
    checked `into_nonzero().expect(..)`: no unsafe precondition is left in `quantize.rs`. -/
def LQ.dec (m : LQ) (gl gr : Ext) (fuel : Nat) (hint : Int) (q : Nat) : SM (Int × Nat × Nat) :=
  let maxProb := (2 ^ m.B - 1) >>> (m.B - m.P)
  if ¬ (q ≤ maxProb) then .error (.fault (.panic "quant.dec.assert"))
  else
    let symbol := if hint ≤ m.min then m.min else if hint > m.max then m.max else hint
    let leftM : SM Nat :=
      if hint ≤ m.min then .ok 0 else m.leaky gl "quant.dec.left" symbol
    match leftM with
    | .error e => .error e
    | .ok left =>
      let r : SM (Int × Nat × Nat) :=
        if left > q then
          match liftM (m.t.csub "quant.dec.sub1" symbol 1) with
          | .error e => .error e
          | .ok symbol => m.down gl gr q fuel symbol 1 left false
        else m.up gl gr q fuel symbol 1 left false
      match r with
      | .error e => .error e
      | .ok (s, l, right) =>
        let p := wsub m.B right l
        if p = 0 then .error (.fault (.panic "quant.dec.expect")) else .ok (s, l, p)

/-- the symbol-table iterator (after D1: the CDF is evaluated at `next_symbol - 0.5`; after D25:
    the probability is converted with the checked `into_nonzero().expect(..)`);
    `fuel` bounds the number of symbols -/
def LQ.table (m : LQ) (gl : Ext) : (fuel : Nat) → (symbol : Int) → (left : Nat) →
    SM (List (Int × Nat × Nat))
  | 0, _, _ => .error .fuel
  | fuel + 1, symbol, left =>
    if symbol = m.max then
      let right := wrappingPow2 m.B m.P
      let p := wsub m.B right left
      if p = 0 then .error (.fault (.panic "quant.table.expect")) else .ok [(symbol, left, p)]
    else
      match liftM (m.t.cadd "quant.table.next" symbol 1) with
      | .error e => .error e
      | .ok next =>
        match m.leaky gl "quant.table.right" next with
        | .error e => .error e
        | .ok right =>
          let p := wsub m.B right left
          if p = 0 then .error (.fault (.panic "quant.table.expect"))
          else match m.table gl fuel next right with
            | .error e => .error e
            | .ok rest => .ok ((symbol, left, p) :: rest)

/-- number of probes that always suffices (see `CV.Proofs.QuantSearch`): linear in the bit width -/
def searchFuel (t : SymTy) : Nat := 4 * t.bits + 8

end CV.Quant
