import CV.Model.CatValidate
/-!
# Impl model of `UniformModel<Probability, PRECISION>` (src/stream/model/uniform.rs)

after the D9 repair (`left_cumulative_and_probability` uses the checked `num_traits::cast`
instead of the truncating `as_()`).  Symbols are `usize` (`< 2^U`).
-/
namespace CV.Cat

structure Uniform where
  /-- `probability_per_bin` -/
  ppb : Nat
  /-- `last_symbol` (a `Probability`) -/
  last : Nat
  deriving Repr, DecidableEq

namespace Uniform

/-- `UniformModel::<Probability, PRECISION>::new(range)` -/
def new (B P range : Nat) : M Uniform :=
  if ¬ (range > 1) then .error (.panic "uniform.new.assert_range") else
  -- `range.into_nonzero_unchecked()`
  if range = 0 then .error (.ub "uniform.new.range_nonzero") else
  let lastU := range - 1
  let last := narrow B lastU
  if ¬ (last ≤ wsub B (wrappingPow2 B P) 1 ∧ narrow U last = lastU) then
    .error (.panic "uniform.new.assert_fits")
  else if P = B then
    let x := narrow B (wsub U (wrappingPow2 U P) range / range)
    match cadd "uniform.new.ppb_plus_one" B x 1 with
    | .error f => .error f
    | .ok ppb =>
      if ppb = 0 then .error (.ub "uniform.new.ppb_nonzero") else .ok { ppb := ppb, last := last }
  else
    match shl "uniform.new.one_shl_precision" B 1 P with
    | .error f => .error f
    | .ok one =>
      match cdiv "uniform.new.div" one (narrow B range) with
      | .error f => .error f
      | .ok ppb =>
        -- `.into_nonzero().expect("range <= (1 << PRECISION)")`
        if ppb = 0 then .error (.panic "uniform.new.expect_nonzero") else .ok { ppb := ppb, last := last }

/-- `left_cumulative_and_probability(symbol)` -/
def enc (B P : Nat) (m : Uniform) (s : Nat) : M (Option (Nat × Nat)) :=
  -- `num_traits::cast::<usize, Probability>(symbol)?`
  if ¬ (s < 2^B) then .ok none else
  let left := wmul B s m.ppb
  if s < m.last then .ok (some (left, m.ppb))
  else if s = m.last then
    let p := wsub B (wrappingPow2 B P) left
    if p = 0 then .error (.ub "uniform.enc.into_nonzero_unchecked") else .ok (some (left, p))
  else .ok none

/-- `quantile_function(quantile)` -/
def dec (B P : Nat) (m : Uniform) (q : Nat) : M (Nat × Nat × Nat) :=
  -- `probability_per_bin` is a `NonZero`
  if m.ppb = 0 then .error (.ub "uniform.ppb_nonzero") else
  let guess := q / m.ppb
  let rem := q % m.ppb
  if guess < m.last then
    match csub "uniform.dec.sub" q rem with
    | .error f => .error f
    | .ok left => .ok (narrow U guess, left, m.ppb)
  else
    match cmul "uniform.dec.mul" B m.last m.ppb with
    | .error f => .error f
    | .ok left =>
      let p := wsub B (wrappingPow2 B P) left
      if p = 0 then .error (.ub "uniform.dec.into_nonzero_unchecked")
      else .ok (narrow U m.last, left, p)

/-- body of the `map` closure of `symbol_table` -/
def tableEntry (B P : Nat) (m : Uniform) (lastU symbol : Nat) : M (Nat × Nat × Nat) :=
  match cmul "uniform.table.mul" B (narrow B symbol) m.ppb with
  | .error f => .error f
  | .ok left =>
    if symbol ≠ lastU then .ok (symbol, left, m.ppb)
    else
      let p := wsub B (wrappingPow2 B P) left
      if p = 0 then .error (.ub "uniform.table.into_nonzero_unchecked") else .ok (symbol, left, p)

def tableGo (B P : Nat) (m : Uniform) (lastU : Nat) : List Nat → M (List (Nat × Nat × Nat))
  | [] => .ok []
  | s :: rest =>
    match tableEntry B P m lastU s with
    | .error f => .error f
    | .ok e =>
      match tableGo B P m lastU rest with
      | .error f => .error f
      | .ok l => .ok (e :: l)

/-- `symbol_table().collect()` -/
def table (B P : Nat) (m : Uniform) : M (List (Nat × Nat × Nat)) :=
  let lastU := narrow U m.last
  match cadd "uniform.table.range" U lastU 1 with
  | .error f => .error f
  | .ok range => tableGo B P m lastU (List.range range)

end Uniform
end CV.Cat
