import CV.Driver.Loop
import CV.Driver.Quant

def main : IO Unit :=
  CV.Driver.runLoop (fun line => CV.Driver.Quant.handle (CV.Driver.segments line))
