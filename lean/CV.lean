import CV.Model.Machine
import CV.Model.TableModel
import CV.Model.Ans
import CV.Driver.Util
import CV.Driver.Ans
