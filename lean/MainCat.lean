import CV.Driver.Loop
import CV.Driver.Cat

def main : IO Unit :=
  CV.Driver.runLoop (fun line => CV.Driver.Cat.handle (CV.Driver.segments line))
