import CV.Driver.Loop
import CV.Driver.Chain

def main : IO Unit :=
  CV.Driver.runLoop (fun line => CV.Driver.Chain.handle (CV.Driver.segments line))
