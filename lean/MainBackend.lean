import CV.Driver.Loop
import CV.Driver.Backend

def main : IO Unit :=
  CV.Driver.runLoop (fun line => CV.Driver.Backend.handle (CV.Driver.segments line))
