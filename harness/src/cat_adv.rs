// ---------------------------------------------------------------------------------------
// adversarial safe-trait parameters (included into cat.rs): lying `IterableEntropyModel`s,
// unstable `Borrow` impls, lying `size_hint`s; the harness-only op `audit`; the C20 campaign
// that runs every case in a child process so that a std UB-check abort is attributed to its
// line instead of killing the oracle.

use constriction::stream::model::EntropyModel;

/// an `IterableEntropyModel` (a *safe* trait) that claims an arbitrary symbol table
pub struct LyingModel<Pr: BitArray, const P: usize> {
    table: Vec<(usize, Pr, Pr::NonZero)>,
}

impl<Pr: BitArray, const P: usize> EntropyModel<P> for LyingModel<Pr, P> {
    type Symbol = usize;
    type Probability = Pr;
}

impl<'m, Pr: BitArray, const P: usize> IterableEntropyModel<'m, P> for LyingModel<Pr, P> {
    fn symbol_table(&'m self) -> impl Iterator<Item = (usize, Pr, Pr::NonZero)> {
        self.table.iter().cloned()
    }
}

fn adv_from_table<Pr: Prob, const P: usize>(target: &str, table: &[(usize, u128, u128)]) -> Built
where
    usize: AsPrimitive<Pr>,
{
    let mut t = Vec::new();
    for &(s, c, p) in table {
        match from_u128::<Pr>(p).into_nonzero() {
            Some(nz) => t.push((s, from_u128::<Pr>(c), nz)),
            None => return Built::Unsupported, // a `NonZero` cannot hold 0: not expressible
        }
    }
    let lying = LyingModel::<Pr, P> { table: t };
    match target {
        "dec" => Built::Ok(Box::new(NcDecW::<Pr, P> {
            m: NonContiguousCategoricalDecoderModel::<usize, Pr, Vec<(Pr, usize)>, P>::from_iterable_entropy_model(&lying),
            view: false,
        })),
        "enc" => Built::Ok(Box::new(NcEncW::<Pr, P> {
            m: NonContiguousCategoricalEncoderModel::<usize, Pr, P>::from_iterable_entropy_model(&lying),
        })),
        "gdec" => Built::Ok(Box::new(NcDecW::<Pr, P> { m: lying.to_generic_decoder_model(), view: false })),
        "genc" => Built::Ok(Box::new(NcEncW::<Pr, P> { m: lying.to_generic_encoder_model() })),
        "lookup" => match Pr::generic_lookup::<_, P>(&lying) {
            Conv::Ok(m) => Built::Ok(m),
            _ => Built::Unsupported,
        },
        _ => Built::Unsupported,
    }
}

fn parse_triples(s: &str) -> Option<Vec<(usize, u128, u128)>> {
    if s == "-" {
        return Some(vec![]);
    }
    s.split(',')
        .map(|e| {
            let mut it = e.split(':');
            let a = parse_hex(it.next()?)? as usize;
            let c = parse_hex(it.next()?)?;
            let p = parse_hex(it.next()?)?;
            if it.next().is_some() {
                return None;
            }
            Some((a, c, p))
        })
        .collect()
}

fn parse_adv(seg: &[&str]) -> Option<(u32, u32, Ctor)> {
    match seg {
        ["cat.fromtable", target, b, p, tbl] => {
            if !["dec", "enc", "lookup", "gdec", "genc"].contains(target) {
                return None;
            }
            let (b, p) = (parse_hex(b)? as u32, parse_hex(p)? as u32);
            let table = parse_triples(tbl)?;
            // only what the types can express
            if table.iter().any(|e| e.2 == 0 || e.2 >= pow2(b) || e.1 >= pow2(b)) {
                return None;
            }
            Some((b, p, Ctor::FromTable { target: target.to_string(), table }))
        }
        ["cat.adv.borrow", kind, b, p, syms, first, later, infer] => {
            let (first, later) = (parse_list(first)?, parse_list(later)?);
            if first.len() != later.len() {
                return None;
            }
            Some((
                parse_hex(b)? as u32,
                parse_hex(p)? as u32,
                Ctor::AdvBorrow { kind: kind.to_string(), syms: usizes(parse_list(syms)?), first, later, infer: parse_bool(infer)? },
            ))
        }
        ["cat.adv.hint", kind, b, p, syms, probs, infer, lo, hi] => Some((
            parse_hex(b)? as u32,
            parse_hex(p)? as u32,
            Ctor::AdvHint {
                kind: kind.to_string(),
                syms: usizes(parse_list(syms)?),
                probs: parse_list(probs)?,
                infer: parse_bool(infer)?,
                lo: parse_hex(lo)? as usize,
                hi: if *hi == "-" { None } else { Some(parse_hex(hi)? as usize) },
            },
        )),
        _ => None,
    }
}

/// harness-only op `audit <syms|->`: cheap structural checks first, then every quantile /
/// every symbol.  `audit:ok`, `audit:single` (one symbol of probability one),
/// `audit:broken:<where>:<reason>`.  May abort the process on a broken tree -- that is the point
/// (the caller runs it in a child process).
fn audit(m: &dyn DynModel, _b: u32, p: u32, syms: &[usize]) -> String {
    let total = pow2(p);
    let table = match guarded(|| m.table()) {
        Ok(t) => t,
        Err(class) => return format!("audit:broken:table:{}", class),
    };
    if let Some(t) = &table {
        if t.len() == 1 && t[0].1 == 0 && t[0].2 == total {
            return "audit:single".into();
        }
        if let Some(d) = tiling_defect_adv(p, t) {
            return format!("audit:broken:table:{}", d.replace(' ', "_"));
        }
    }
    // decoder: every quantile (sampled above 2^16)
    if guarded(|| m.dec(0).is_some()).unwrap_or(true) {
        let qs: Vec<u128> = if total <= 65536 {
            (0..total).collect()
        } else {
            let mut v: Vec<u128> = (0..4096u128).map(|i| i.wrapping_mul(0x9e37_79b9_7f4a_7c15) % total).collect();
            v.extend([0, 1, total / 2, total - 2, total - 1]);
            if let Some(t) = &table {
                for e in t {
                    v.push(e.1);
                    v.push(e.1 + e.2 - 1);
                }
            }
            v
        };
        for q in qs {
            match guarded(|| m.dec(q)) {
                Err(class) => return format!("audit:broken:dec:{:x}:{}", q, class),
                Ok(None) => break,
                Ok(Some(r)) => {
                    if let Some(t) = &table {
                        let want = t.iter().find(|e| e.1 <= q && q < e.1 + e.2).copied();
                        if Some(r) != want {
                            return format!("audit:broken:dec:{:x}:got_{}", q, show_triple(&r));
                        }
                    } else if !(r.1 <= q && q < r.1.saturating_add(r.2)) {
                        return format!("audit:broken:dec:{:x}:got_{}", q, show_triple(&r));
                    }
                }
            }
        }
    }
    // encoder: every listed symbol
    if guarded(|| m.enc(0).is_some()).unwrap_or(true) {
        let mut keys: Vec<usize> = syms.to_vec();
        if let Some(t) = &table {
            keys.extend(t.iter().map(|e| e.0));
        }
        keys.sort();
        keys.dedup();
        let mut bins: Vec<(u128, u128)> = Vec::new();
        for s in keys {
            match guarded(|| m.enc(s)) {
                Err(class) => return format!("audit:broken:enc:{:x}:{}", s, class),
                Ok(Some(Some(cp))) => bins.push(cp),
                _ => {}
            }
        }
        if table.is_none() {
            bins.sort();
            let t: Vec<Triple> = bins.iter().map(|&(c, q)| (0, c, q)).collect();
            if let Some(d) = tiling_defect_adv(p, &t) {
                return format!("audit:broken:enc:{}", d.replace(' ', "_"));
            }
        }
    }
    "audit:ok".into()
}

/// like `tiling_defect`, usable from `run` (no `Report`)
fn tiling_defect_adv(p: u32, t: &[Triple]) -> Option<String> {
    tiling_defect(p, t)
}

// ---- the campaign ------------------------------------------------------------------------

/// run protocol lines in child processes (`cvharness run`); `None` = the child died on that line
fn run_in_child(lines: &[String]) -> Vec<Option<String>> {
    use std::io::Write;
    let exe = match std::env::current_exe() {
        Ok(e) => e,
        Err(_) => return lines.iter().map(|_| Some("no-child".to_string())).collect(),
    };
    let mut outs: Vec<Option<String>> = Vec::new();
    let mut i = 0;
    while i < lines.len() {
        let mut child = match std::process::Command::new(&exe)
            .arg("run")
            .stdin(std::process::Stdio::piped())
            .stdout(std::process::Stdio::piped())
            .stderr(std::process::Stdio::null())
            .spawn()
        {
            Ok(c) => c,
            Err(_) => {
                outs.extend(lines[i..].iter().map(|_| Some("no-child".to_string())));
                break;
            }
        };
        let data = lines[i..].join("\n") + "\n";
        let mut stdin = child.stdin.take().unwrap();
        let writer = std::thread::spawn(move || {
            let _ = stdin.write_all(data.as_bytes());
        });
        let out = child.wait_with_output();
        let _ = writer.join();
        let text = out.map(|o| String::from_utf8_lossy(&o.stdout).to_string()).unwrap_or_default();
        let got: Vec<&str> = text.lines().collect();
        let n = got.len().min(lines.len() - i);
        outs.extend(got[..n].iter().map(|s| Some(s.to_string())));
        i += n;
        if i < lines.len() {
            // the child died while executing line i
            outs.push(None);
            i += 1;
        }
    }
    outs
}

fn show_triples(t: &[(usize, u128, u128)]) -> String {
    if t.is_empty() {
        "-".into()
    } else {
        t.iter().map(|e| format!("{:x}:{:x}:{:x}", e.0, e.1, e.2)).collect::<Vec<_>>().join(",")
    }
}

/// lying symbol tables for one `(B, P)`
fn lying_tables(rng: &mut Rng, b: u32, p: u32) -> Vec<(&'static str, Vec<(usize, u128, u128)>)> {
    let t = pow2(p);
    let maxv = pow2(b) - 1;
    let n = (2 + rng.below(t.min(6) - 1)) as usize;
    let probs = random_table(rng, p, n);
    let labels: Vec<usize> = (0..n).map(|i| 3 * i + 1).collect();
    let valid: Vec<(usize, u128, u128)> = expected_table(&labels, &probs);
    let mut out: Vec<(&'static str, Vec<(usize, u128, u128)>)> = vec![("valid", valid.clone())];
    let shift = |v: &Vec<(usize, u128, u128)>, from: usize, d: i128| -> Vec<(usize, u128, u128)> {
        v.iter().enumerate().map(|(i, e)| if i >= from { (e.0, ((e.1 as i128 + d).max(0) as u128).min(maxv), e.2) } else { *e }).collect()
    };
    out.push(("first_nonzero", shift(&valid, 0, 1)));
    out.push(("first_nonzero_big", shift(&valid, 0, (t / 2) as i128)));
    out.push(("gap", shift(&valid, 1, 1)));
    out.push(("overlap", shift(&valid, 1, -1)));
    out.push(("equal_cumulatives", valid.iter().map(|e| (e.0, 0, e.2)).collect()));
    // too little / too much mass, cumulatives consistent with the lengths (passes the debug assert)
    let mut short = valid.clone();
    short.pop();
    out.push(("short", short));
    let mut tiny = vec![(1usize, 0u128, 5u128.min(t - 1).max(1)), (4, 5u128.min(t - 1).max(1), 7u128.min(maxv).max(1))];
    if t <= 12 {
        tiny = vec![(1, 0, 1)];
    }
    out.push(("short_tiny", tiny));
    let mut long = valid.clone();
    long.push((99, t.min(maxv), 3.min(maxv)));
    out.push(("beyond", long));
    let mut longer = valid.clone();
    let last = *longer.last().unwrap();
    longer.last_mut().unwrap().2 = (last.2 + 1).min(maxv);
    out.push(("last_too_long", longer));
    out.push(("empty", vec![]));
    out.push(("single_all", vec![(7, 0, t.min(maxv))]));
    let mut dup = valid.clone();
    if dup.len() >= 2 {
        dup[1].0 = dup[0].0;
    }
    out.push(("repeated_symbol", dup));
    let rev: Vec<(usize, u128, u128)> = valid.iter().rev().cloned().collect();
    out.push(("reversed", rev));
    if p == b {
        // one full extra lap: the wrapped cumulatives look contiguous
        let mut wrap = valid.clone();
        let extra: Vec<(usize, u128, u128)> = valid.iter().map(|e| (e.0 + 100, e.1, e.2)).collect();
        wrap.extend(extra);
        out.push(("wrap_twice", wrap));
        out.push(("wrap_big_entries", vec![(1, 0, maxv), (2, maxv, maxv), (3, maxv - 1, 2)]));
    }
    out.retain(|(_, v)| v.iter().all(|e| e.2 >= 1 && e.2 <= maxv && e.1 <= maxv));
    out
}

pub fn adversarial_lines(rng: &mut Rng, thorough: bool) -> Vec<(String, String)> {
    let mut lines: Vec<(String, String)> = Vec::new(); // (class, line)
    let bps: Vec<(u32, u32)> = if thorough {
        BPS.iter().flat_map(|&(b, ps)| ps.iter().map(move |&p| (b, p))).collect()
    } else {
        vec![(8, 3), (8, 8), (16, 12), (16, 16), (32, 24), (32, 32), (64, 64)]
    };
    for &(b, p) in &bps {
        let t = pow2(p);
        let maxv = pow2(b) - 1;
        // (b) lying IterableEntropyModel impls
        for (class, tbl) in lying_tables(rng, b, p) {
            for target in ["dec", "gdec", "lookup", "enc", "genc"] {
                if b >= 32 && target == "lookup" {
                    continue;
                }
                let syms: Vec<u128> = tbl.iter().map(|e| e.0 as u128).collect();
                lines.push((format!("iterable.{}.{}", target, class), format!("cat.fromtable {} {:x} {:x} {} | audit {}", target, b, p, show_triples(&tbl), show_list(syms))));
            }
        }
        // (a) unstable Borrow: (validated value, value seen by the closure) and vice versa
        let half = t / 2;
        let mut cases: Vec<(&'static str, Vec<u128>, Vec<u128>, bool)> = vec![
            ("valid_then_small", vec![half, t - half], vec![5.min(maxv), 7.min(maxv)], false),
            ("small_then_valid", vec![5.min(maxv), 7.min(maxv)], vec![half, t - half], false),
            ("valid_then_zero", vec![half, t - half], vec![0, 0], false),
            ("valid_then_huge", vec![half, t - half], vec![maxv, maxv], false),
            ("valid_then_swapped", vec![1, t - 1], vec![t - 1, 1], false),
            ("stable", vec![half, t - half], vec![half, t - half], false),
            ("infer_valid_then_small", vec![half.max(1)], vec![1], true),
            ("infer_valid_then_huge", vec![1], vec![maxv], true),
        ];
        cases.retain(|c| c.1.iter().chain(c.2.iter()).all(|&x| x <= maxv) && t >= 2);
        for (class, first, later, infer) in cases {
            for kind in KINDS {
                if b >= 32 && kind.contains("lookup") {
                    continue;
                }
                let n = first.len() + infer as usize;
                let syms: Vec<u128> = (0..n as u128).map(|i| 2 * i + 1).collect();
                lines.push((
                    format!("borrow.{}.{}", kind, class),
                    format!("cat.adv.borrow {} {:x} {:x} {} {} {} {} | audit {}", kind, b, p, show_list(syms.clone()), show_list(first.clone()), show_list(later.clone()), infer as u8, show_list(syms)),
                ));
            }
        }
        // (c) symbol iterators shorter / longer than the probabilities, lying size_hint
        let n = (2 + rng.below(t.min(5) - 1)) as usize;
        let probs = random_table(rng, p, n);
        for kind in ["ncdec", "ncenc", "nclookup"] {
            if b >= 32 && kind == "nclookup" {
                continue;
            }
            for (dn, dclass) in [(0i64, "match"), (-1, "short"), (1, "long")] {
                let ns = (n as i64 + dn) as usize;
                let syms: Vec<u128> = (0..ns as u128).map(|i| 5 * i + 2).collect();
                for (lo, hi, hclass) in [
                    (ns, Some(ns), "exact"),
                    (0, Some(0), "zero"),
                    (ns + 3, Some(ns + 3), "more"),
                    (1000, None, "thousand"),
                    (usize::MAX, None, "max"),
                    (5, Some(1), "inverted"),
                ] {
                    let hi = match hi {
                        Some(h) => format!("{:x}", h),
                        None => "-".to_string(),
                    };
                    lines.push((
                        format!("hint.{}.{}.{}", kind, dclass, hclass),
                        format!("cat.adv.hint {} {:x} {:x} {} {} 0 {:x} {} | audit {}", kind, b, p, show_list(syms.clone()), show_list(probs.clone()), lo, hi, show_list(syms.clone())),
                    ));
                }
            }
        }
    }
    lines
}

/// C20 (and C19) campaign over the adversarial safe-trait classes
pub fn oracle_adversarial(rng: &mut Rng, rep: &mut Report, thorough: bool) {
    let lines = adversarial_lines(rng, thorough);
    let only: Vec<String> = lines.iter().map(|l| l.1.clone()).collect();
    for l in &only {
        set_case(l); // (the calls themselves happen in the child; kept for in-process replays)
    }
    set_case("");
    let outs = run_in_child(&only);
    // failures are emitted round-robin over (family, kind of failure) so that the first few
    // reported lines cover every defect class instead of many instances of one
    let mut buckets: BTreeMap<String, Vec<(&'static str, String)>> = BTreeMap::new();
    for ((class, line), out) in lines.iter().zip(outs.iter()) {
        rep.eval("C20");
        let family = class.split('.').next().unwrap_or("");
        let target = class.split('.').nth(1).unwrap_or("");
        match out {
            None => {
                rep.count(&format!("C20.adv.{}.ABORTED", class));
                rep.count(&format!("C20.adv_family.{}.ABORTED", family));
                // one representative of each distinct site first (D30: constructors; D31: lookup
                // from a symbol table), then the rest
                let prio = match (family, target) {
                    ("borrow", "lookup") => "0",
                    ("iterable", "lookup") => "1",
                    _ => "4",
                };
                buckets.entry(format!("{}abort.{}.{}", prio, family, target)).or_default().push((
                    "C20",
                    format!("{} => process abort (unsafe precondition violated / UB check) in a program that uses only safe code: {}", line, class),
                ));
            }
            Some(o) => {
                let verdict = if o.contains("audit:ok") {
                    "ok"
                } else if o.contains("audit:single") {
                    "single"
                } else if o.contains("audit:broken") {
                    "broken"
                } else if o.starts_with("rejected") {
                    "rejected"
                } else if o.starts_with("panic") || o.contains("| panic") {
                    "panicked"
                } else if o.starts_with("unsupported") {
                    "unsupported"
                } else {
                    "other"
                };
                rep.count(&format!("C20.adv.{}.{}", class, verdict));
                rep.count(&format!("C20.adv_family.{}.{}", family, verdict));
                // an accepted model that is not a valid tiling / answers inconsistently:
                //  * constructors (borrow, hint): always a C19 failure
                //  * from_iterable of a lying source: the decoder targets validate, so they must
                //    not return a broken model either; the hash-table encoder copies the table
                //    (no unsafe code depends on it) -- not judged
                let judged = family != "iterable" || !(class.starts_with("iterable.enc") || class.starts_with("iterable.genc"));
                if verdict == "broken" && judged {
                    rep.eval("C19");
                    let prio = if (family, target) == ("iterable", "dec") { "2" } else { "5" };
                    let b = buckets.entry(format!("{}broken.{}.{}", prio, family, target)).or_default();
                    b.push(("C20", format!("{} => {} (accepted broken model: its unchecked indexing / NonZero construction relies on what was not validated: {})", line, o, class)));
                    b.push(("C19", format!("{} => {} (accepted model is not a valid tiling / answers inconsistently: {})", line, o, class)));
                }
                if verdict == "single" && family != "iterable" {
                    rep.eval("C19");
                    buckets.entry(format!("6single.{}.{}", family, target)).or_default().push((
                        "C19",
                        format!("{} => {} (a constructor accepted a single symbol of probability one)", line, o),
                    ));
                }
            }
        }
    }
    let mut round = 0;
    loop {
        let mut any = false;
        for v in buckets.values() {
            if let Some((prop, text)) = v.get(round) {
                any = true;
                cat_fail(rep, prop, text.clone());
            }
        }
        if !any || round > 40 {
            break;
        }
        round += 1;
    }
}
