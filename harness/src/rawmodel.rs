//! User-defined entropy models handed to the real coders, so that coder checks are
//! independent of the crate's own model zoo.  `TableModel` mirrors `CV.tableModel` in Lean.
use constriction::stream::model::{DecoderModel, EncoderModel, EntropyModel};
use constriction::BitArray;
use std::borrow::Borrow;

use crate::util::{from_u128, to_u128};

/// encoder-only model returning a fixed `(cum, p)` (or `None`) for every symbol
#[derive(Clone, Copy)]
pub struct RawEnc<Pr, const P: usize> {
    pub cp: Option<(Pr, Pr)>,
}

impl<Pr: BitArray, const P: usize> EntropyModel<P> for RawEnc<Pr, P> {
    type Symbol = usize;
    type Probability = Pr;
}

impl<Pr: BitArray, const P: usize> EncoderModel<P> for RawEnc<Pr, P> {
    fn left_cumulative_and_probability(
        &self,
        _symbol: impl Borrow<usize>,
    ) -> Option<(Pr, Pr::NonZero)> {
        self.cp
            .map(|(c, p)| (c, p.into_nonzero().expect("harness: zero probability")))
    }
}

/// model given by cumulative boundaries `[0, c1, …, 2^P]` (as `u128`, not wrapped)
#[derive(Clone)]
pub struct TableModel<Pr, const P: usize> {
    pub cdf: Vec<u128>,
    pub phantom: std::marker::PhantomData<Pr>,
}

impl<Pr, const P: usize> TableModel<Pr, P> {
    pub fn new(cdf: Vec<u128>) -> Self {
        Self { cdf, phantom: std::marker::PhantomData }
    }
    pub fn find(&self, q: u128) -> usize {
        self.cdf.iter().skip(1).take_while(|&&c| c <= q).count()
    }
}

impl<Pr: BitArray, const P: usize> EntropyModel<P> for TableModel<Pr, P> {
    type Symbol = usize;
    type Probability = Pr;
}

impl<Pr: BitArray, const P: usize> EncoderModel<P> for TableModel<Pr, P> {
    fn left_cumulative_and_probability(
        &self,
        symbol: impl Borrow<usize>,
    ) -> Option<(Pr, Pr::NonZero)> {
        let s = *symbol.borrow();
        if s.checked_add(1)? < self.cdf.len() {
            let c = self.cdf[s];
            let d = self.cdf[s + 1];
            if c < d {
                return Some((from_u128(c), from_u128::<Pr>(d - c).into_nonzero().unwrap()));
            }
        }
        None
    }
}

impl<Pr: BitArray, const P: usize> DecoderModel<P> for TableModel<Pr, P> {
    fn quantile_function(&self, quantile: Pr) -> (usize, Pr, Pr::NonZero) {
        let q = to_u128(quantile);
        let i = self.find(q);
        let c = self.cdf.get(i).copied().unwrap_or(0);
        let d = self.cdf.get(i + 1).copied().unwrap_or(0);
        (
            i,
            from_u128(c),
            from_u128::<Pr>(d.saturating_sub(c))
                .into_nonzero()
                .expect("harness: zero probability"),
        )
    }
}
