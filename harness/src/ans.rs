//! ANS coder: protocol runner (real code), case generator and implementation-level oracles.
use constriction::stream::stack::AnsCoder;
use constriction::stream::{Code, Decode, Encode};
use constriction::backends::{Cursor, ReadWords, Reverse, WriteWords};
use constriction::{BitArray, CoderError, Pos, Seek, Stack};
use num_traits::AsPrimitive;

use crate::rawmodel::{RawEnc, TableModel};
use crate::util::*;

pub trait AnsCombo {
    type W: BitArray + Into<Self::S>;
    type S: BitArray + AsPrimitive<Self::W> + From<Self::W>;
    /// `None` = this (B, P) is not compiled in
    fn enc<Bk: WriteWords<Self::W>>(c: &mut AnsCoder<Self::W, Self::S, Bk>, b: u32, p: u32, cp: Option<(u128, u128)>) -> Option<String>;
    fn dec<Bk: ReadWords<Self::W, Stack>>(c: &mut AnsCoder<Self::W, Self::S, Bk>, b: u32, p: u32, cdf: &[u128]) -> Option<String>;
    /// encode symbol `s` with the table model (oracle use)
    fn enc_sym(c: &mut AnsCoder<Self::W, Self::S>, b: u32, p: u32, cdf: &[u128], s: usize) -> Option<String>;
    /// batch forms: 0 = encode_symbols, 1 = encode_symbols_reverse, 2 = try_encode_symbols
    /// (with `Err` injected at index `err_at`), 3 = try_encode_symbols_reverse,
    /// 4 = encode_iid_symbols, 5 = encode_iid_symbols_reverse
    fn enc_batch(c: &mut AnsCoder<Self::W, Self::S>, b: u32, p: u32, form: u32, cdf: &[u128], syms: &[usize], err_at: Option<usize>) -> Option<String>;
    /// 0 = decode_symbols, 1 = try_decode_symbols (Err injected at err_at), 2 = decode_iid_symbols
    fn dec_batch(c: &mut AnsCoder<Self::W, Self::S>, b: u32, p: u32, form: u32, cdf: &[u128], n: usize, err_at: Option<usize>) -> Option<String>;
    /// an `Iterator` adaptor method (`nth`, `skip`, `step_by`, …) applied to one of the lazy decode iterators
    fn dec_iter(c: &mut AnsCoder<Self::W, Self::S>, b: u32, p: u32, form: u32, cdf: &[u128], amt: usize, k: usize) -> Option<String>;
}

fn enc_result<E>(r: Result<(), CoderError<constriction::DefaultEncoderFrontendError, E>>) -> String
where
{
    match r {
        Ok(()) => "ok".into(),
        Err(CoderError::Frontend(_)) => "impossible".into(),
        Err(CoderError::Backend(_)) => "full".into(),
    }
}

fn enc_impl<W, S, Pr, Bk, const P: usize>(c: &mut AnsCoder<W, S, Bk>, cp: Option<(u128, u128)>) -> String
where
    W: BitArray + Into<S> + AsPrimitive<Pr>,
    S: BitArray + AsPrimitive<W>,
    Pr: BitArray + Into<W>,
    Bk: WriteWords<W>,
{
    let m = RawEnc::<Pr, P> { cp: cp.map(|(c, p)| (from_u128(c), from_u128(p))) };
    enc_result(c.encode_symbol(0usize, m))
}

fn dec_impl<W, S, Pr, Bk, const P: usize>(c: &mut AnsCoder<W, S, Bk>, cdf: &[u128]) -> String
where
    W: BitArray + Into<S> + AsPrimitive<Pr>,
    S: BitArray + AsPrimitive<W>,
    Pr: BitArray + Into<W>,
    Bk: ReadWords<W, Stack>,
{
    let m = TableModel::<Pr, P>::new(cdf.to_vec());
    match c.decode_symbol(&m) {
        Ok(s) => hex(s as u128),
        Err(_) => "readerr".into(),
    }
}

fn enc_sym_impl<W, S, Pr, const P: usize>(c: &mut AnsCoder<W, S>, cdf: &[u128], s: usize) -> String
where
    W: BitArray + Into<S> + AsPrimitive<Pr>,
    S: BitArray + AsPrimitive<W>,
    Pr: BitArray + Into<W>,
{
    let m = TableModel::<Pr, P>::new(cdf.to_vec());
    enc_result(c.encode_symbol(s, &m))
}

fn enc_batch_impl<W, S, Pr, const P: usize>(
    c: &mut AnsCoder<W, S>,
    form: u32,
    cdf: &[u128],
    syms: &[usize],
    err_at: Option<usize>,
) -> String
where
    W: BitArray + Into<S> + AsPrimitive<Pr>,
    S: BitArray + AsPrimitive<W>,
    Pr: BitArray + Into<W>,
{
    use constriction::stream::TryCodingError;
    let m = TableModel::<Pr, P>::new(cdf.to_vec());
    let pairs = || syms.iter().map(|&s| (s, &m));
    let tries = || {
        syms.iter().enumerate().map(|(i, &s)| {
            if Some(i) == err_at {
                Err(())
            } else {
                Ok((s, &m))
            }
        })
    };
    let tr = |r: Result<(), TryCodingError<_, ()>>| match r {
        Ok(()) => "ok".to_string(),
        Err(TryCodingError::InvalidEntropyModel(())) => "modelerr".to_string(),
        Err(TryCodingError::CodingError(e)) => enc_result(Err(e)),
    };
    match form {
        0 => enc_result(c.encode_symbols(pairs())),
        1 => enc_result(c.encode_symbols_reverse(pairs())),
        2 => tr(c.try_encode_symbols(tries())),
        3 => tr(c.try_encode_symbols_reverse(tries())),
        4 => enc_result(c.encode_iid_symbols(syms.iter().copied(), &m)),
        5 => enc_result(c.encode_iid_symbols_reverse(syms.iter().copied(), &m)),
        _ => "bad-op".into(),
    }
}

fn dec_batch_impl<W, S, Pr, const P: usize>(
    c: &mut AnsCoder<W, S>,
    form: u32,
    cdf: &[u128],
    n: usize,
    err_at: Option<usize>,
) -> String
where
    W: BitArray + Into<S> + AsPrimitive<Pr>,
    S: BitArray + AsPrimitive<W>,
    Pr: BitArray + Into<W>,
{
    use constriction::stream::TryCodingError;
    let m = TableModel::<Pr, P>::new(cdf.to_vec());
    let mut out = Vec::new();
    match form {
        0 => {
            for r in c.decode_symbols((0..n).map(|_| &m)) {
                match r {
                    Ok(s) => out.push(s as u128),
                    Err(_) => return "readerr".into(),
                }
            }
        }
        1 => {
            let it = (0..n).map(|i| if Some(i) == err_at { Err(()) } else { Ok(&m) });
            for r in c.try_decode_symbols(it) {
                match r {
                    Ok(s) => out.push(s as u128),
                    Err(TryCodingError::InvalidEntropyModel(())) => {
                        return format!("{} modelerr", show_list(out));
                    }
                    Err(_) => return "readerr".into(),
                }
            }
        }
        2 => {
            for r in c.decode_iid_symbols(n, &m) {
                match r {
                    Ok(s) => out.push(s as u128),
                    Err(_) => return "readerr".into(),
                }
            }
        }
        _ => return "bad-op".into(),
    }
    show_list(out)
}

fn dec_iter_impl<W, S, Pr, const P: usize>(c: &mut AnsCoder<W, S>, form: u32, cdf: &[u128], amt: usize, k: usize) -> String
where
    W: BitArray + Into<S> + AsPrimitive<Pr>,
    S: BitArray + AsPrimitive<W>,
    Pr: BitArray + Into<W>,
{
    let m = TableModel::<Pr, P>::new(cdf.to_vec());
    fn sh<E>(r: Option<Result<usize, E>>) -> String {
        match r {
            None => "none".into(),
            Some(Ok(s)) => hex(s as u128),
            Some(Err(_)) => "err".into(),
        }
    }
    match form {
        0 => sh(c.decode_iid_symbols(amt, &m).nth(k)),
        1 => sh(c.decode_iid_symbols(amt, &m).skip(k).next()),
        2 => c.decode_iid_symbols(amt, &m).step_by(k + 1).map(|r| sh(Some(r))).collect::<Vec<_>>().join(","),
        3 => sh(c.decode_symbols((0..amt).map(|_| &m)).nth(k)),
        4 => sh(c.try_decode_symbols((0..amt).map(|_| Ok::<_, ()>(&m))).nth(k).map(|r| r.map_err(|_| ()))),
        5 => {
            let mut it = c.decode_iid_symbols(amt, &m);
            let mut v = vec![sh(it.nth(k))];
            v.extend(it.map(|r| sh(Some(r))));
            v.join(",")
        }
        6 => {
            let it = c.decode_iid_symbols(amt, &m);
            let (lo, hi) = it.size_hint();
            let len = it.len();
            drop(it);
            format!("hint {} {:?} len {}", lo, hi, len)
        }
        _ => "bad-op".into(),
    }
}

macro_rules! impl_ans_combo {
    ($name:ident, $W:ty, $S:ty; $($B:ty => [$($P:literal),*]);*) => {
        impl AnsCombo for $name {
            type W = $W;
            type S = $S;
            fn enc<Bk: WriteWords<$W>>(c: &mut AnsCoder<$W, $S, Bk>, b: u32, p: u32, cp: Option<(u128, u128)>) -> Option<String> {
                match (b, p) {
                    $($( (bb, $P) if bb == <$B>::BITS => Some(enc_impl::<$W, $S, $B, Bk, $P>(c, cp)), )*)*
                    _ => None,
                }
            }
            fn dec<Bk: ReadWords<$W, Stack>>(c: &mut AnsCoder<$W, $S, Bk>, b: u32, p: u32, cdf: &[u128]) -> Option<String> {
                match (b, p) {
                    $($( (bb, $P) if bb == <$B>::BITS => Some(dec_impl::<$W, $S, $B, Bk, $P>(c, cdf)), )*)*
                    _ => None,
                }
            }
            fn enc_sym(c: &mut AnsCoder<$W, $S>, b: u32, p: u32, cdf: &[u128], s: usize) -> Option<String> {
                match (b, p) {
                    $($( (bb, $P) if bb == <$B>::BITS => Some(enc_sym_impl::<$W, $S, $B, $P>(c, cdf, s)), )*)*
                    _ => None,
                }
            }
            fn enc_batch(c: &mut AnsCoder<$W, $S>, b: u32, p: u32, form: u32, cdf: &[u128], syms: &[usize], err_at: Option<usize>) -> Option<String> {
                match (b, p) {
                    $($( (bb, $P) if bb == <$B>::BITS => Some(enc_batch_impl::<$W, $S, $B, $P>(c, form, cdf, syms, err_at)), )*)*
                    _ => None,
                }
            }
            fn dec_batch(c: &mut AnsCoder<$W, $S>, b: u32, p: u32, form: u32, cdf: &[u128], n: usize, err_at: Option<usize>) -> Option<String> {
                match (b, p) {
                    $($( (bb, $P) if bb == <$B>::BITS => Some(dec_batch_impl::<$W, $S, $B, $P>(c, form, cdf, n, err_at)), )*)*
                    _ => None,
                }
            }
            fn dec_iter(c: &mut AnsCoder<$W, $S>, b: u32, p: u32, form: u32, cdf: &[u128], amt: usize, k: usize) -> Option<String> {
                match (b, p) {
                    $($( (bb, $P) if bb == <$B>::BITS => Some(dec_iter_impl::<$W, $S, $B, $P>(c, form, cdf, amt, k)), )*)*
                    _ => None,
                }
            }
        }
    };
}
crate::for_each_combo!(impl_ans_combo);

fn show_raw<W: BitArray + Into<S>, S: BitArray + AsPrimitive<W>>(c: &AnsCoder<W, S>) -> String {
    format!(
        "{} {}",
        show_list(c.bulk().iter().map(|&w| to_u128(w))),
        hex(to_u128(c.state()))
    )
}

fn words<W: BitArray>(l: &[u128]) -> Vec<W> {
    l.iter().map(|&w| from_u128(w)).collect()
}

/// protocol values must fit the type they are converted to (no silent truncation)
fn fits(x: u128, bits: u32) -> bool {
    bits >= 128 || x < (1u128 << bits)
}
fn all_fit(l: &[u128], bits: u32) -> bool {
    l.iter().all(|&x| fits(x, bits))
}

fn run_hist<C: AnsCombo>(segs: &[Vec<&str>]) -> String {
    type Coder<C> = AnsCoder<<C as AnsCombo>::W, <C as AnsCombo>::S>;
    let wbits = 8 * std::mem::size_of::<C::W>() as u32;
    let sbits = 8 * std::mem::size_of::<C::S>() as u32;
    let init = &segs[1];
    // reject values that do not fit the word / state type
    match init.as_slice() {
        ["compressed", ws] | ["binary", ws] => {
            if !parse_list(ws).map(|l| all_fit(&l, wbits)).unwrap_or(false) { return "bad-op".into(); }
        }
        ["raw", ws, st] => {
            if !parse_list(ws).map(|l| all_fit(&l, wbits)).unwrap_or(false) || !parse_hex(st).map(|x| fits(x, sbits)).unwrap_or(false) { return "bad-op".into(); }
        }
        _ => {}
    }
    let mut outs: Vec<String> = Vec::new();
    let mut coder: Coder<C> = match init.as_slice() {
        // `new()` and `Default::default()` must be the same coder: alternate between them by the
        // length of the line, so that both are exercised on every run
        ["new"] => if segs.iter().map(|x| x.len()).sum::<usize>() % 2 == 0 { AnsCoder::new() } else { Default::default() },
        ["compressed", ws] => {
            let l = match parse_list(ws) { Some(l) => l, None => return "bad-op".into() };
            match AnsCoder::from_compressed(words::<C::W>(&l)) {
                Ok(c) => c,
                Err(_) => return "err".into(),
            }
        }
        ["binary", ws] => {
            let l = match parse_list(ws) { Some(l) => l, None => return "bad-op".into() };
            AnsCoder::from_binary(words::<C::W>(&l)).unwrap()
        }
        ["raw", ws, st] => {
            let l = match parse_list(ws) { Some(l) => l, None => return "bad-op".into() };
            let s = match parse_hex(st) { Some(s) => s, None => return "bad-op".into() };
            AnsCoder::from_raw_parts(words::<C::W>(&l), from_u128(s))
        }
        _ => return "bad-op".into(),
    };
    outs.push("ok".into());
    for seg in &segs[2..] {
        let r = guarded(|| -> Option<String> {
            Some(match seg.as_slice() {
                ["enc", b, p, cum, pr] => {
                    let bb = parse_hex(b)? as u32;
                    if !fits(parse_hex(cum)?, bb) || !fits(parse_hex(pr)?, bb) || parse_hex(pr)? == 0 { return None; }
                    C::enc(&mut coder, bb, parse_hex(p)? as u32, Some((parse_hex(cum)?, parse_hex(pr)?)))
                        .unwrap_or("unsupported".into())
                }
                ["encnone", b, p] => {
                    C::enc(&mut coder, parse_hex(b)? as u32, parse_hex(p)? as u32, None)
                        .unwrap_or("unsupported".into())
                }
                ["dec", b, p, cdf] => C::dec(
                    &mut coder,
                    parse_hex(b)? as u32,
                    parse_hex(p)? as u32,
                    &parse_list(cdf)?,
                )
                .unwrap_or("unsupported".into()),
                ["encs", b, p, form, cdf, syms, err_at] => {
                    let syms: Vec<usize> = parse_list(syms)?.iter().map(|&s| s as usize).collect();
                    let err_at = if *err_at == "-" { None } else { Some(parse_hex(err_at)? as usize) };
                    C::enc_batch(&mut coder, parse_hex(b)? as u32, parse_hex(p)? as u32, parse_hex(form)? as u32, &parse_list(cdf)?, &syms, err_at)
                        .unwrap_or("unsupported".into())
                }
                ["decs", b, p, form, cdf, n, err_at] => {
                    let err_at = if *err_at == "-" { None } else { Some(parse_hex(err_at)? as usize) };
                    C::dec_batch(&mut coder, parse_hex(b)? as u32, parse_hex(p)? as u32, parse_hex(form)? as u32, &parse_list(cdf)?, parse_hex(n)? as usize, err_at)
                        .unwrap_or("unsupported".into())
                }
                ["raw"] => show_raw(&coder),
                ["export"] => match coder.clone().into_compressed() {
                    Ok(v) => show_list(v.iter().map(|&w| to_u128(w))),
                    Err(_) => "full".into(),
                },
                ["reload"] => {
                    let v = coder.clone().into_compressed().unwrap();
                    match AnsCoder::from_compressed(v) {
                        Ok(c) => {
                            coder = c;
                            "ok".into()
                        }
                        Err(_) => "err".into(),
                    }
                }
                ["intob"] => match coder.clone().into_binary() {
                    Ok(v) => show_list(v.iter().map(|&w| to_u128(w))),
                    Err(_) => "err".into(),
                },
                ["getc"] => {
                    let g = coder.get_compressed().unwrap();
                    show_list(g.iter().map(|&w| to_u128(w)))
                }
                ["getb"] => match coder.get_binary() {
                    Ok(g) => show_list(g.iter().map(|&w| to_u128(w))),
                    Err(_) => "err".into(),
                },
                ["iter"] => show_list(coder.iter_compressed().map(to_u128)),
                ["nw"] => hex(coder.num_words() as u128),
                ["nb"] => hex(coder.num_bits() as u128),
                ["nvb"] => hex(coder.num_valid_bits() as u128),
                ["empty"] => format!("{}", coder.is_empty()),
                ["clone"] => {
                    // both forms of `Clone` (a type may override `clone_from`): `clone()`, then
                    // `clone_from` into a coder whose bulk *and* state differ from the source's
                    let copy = coder.clone();
                    let mut other: Coder<C> = AnsCoder::from_binary(words::<C::W>(&vec![3, 1, 4, 1, 5])).unwrap();
                    other.clone_from(&copy);
                    coder = other;
                    "ok".into()
                }
                ["clear"] => {
                    coder.clear();
                    "ok".into()
                }
                ["intovec"] => {
                    let v: Vec<C::W> = coder.clone().into();
                    show_list(v.iter().map(|&w| to_u128(w)))
                }
                ["maybefull"] => format!("{}", <Coder<C> as Code>::encoder_maybe_full::<1>(&coder)),
                ["mexh"] => format!("{}", <Coder<C> as Code>::decoder_maybe_exhausted::<1>(&coder)),
                ["asdec", b, p, cdf, n] => {
                    // a temporary decoder view: decodes on the view, the original stays as it is
                    let mut view = coder.as_decoder();
                    let mut outv = Vec::new();
                    for _ in 0..parse_hex(n)? {
                        outv.push(C::dec(&mut view, parse_hex(b)? as u32, parse_hex(p)? as u32, &parse_list(cdf)?).unwrap_or("unsupported".into()));
                    }
                    if outv.is_empty() { "-".into() } else { outv.join(",") }
                }
                ["intodec", b, p, cdf, n] => {
                    let mut d = coder.clone().into_decoder();
                    let mut outv = Vec::new();
                    for _ in 0..parse_hex(n)? {
                        outv.push(C::dec(&mut d, parse_hex(b)? as u32, parse_hex(p)? as u32, &parse_list(cdf)?).unwrap_or("unsupported".into()));
                    }
                    if outv.is_empty() { "-".into() } else { outv.join(",") }
                }
                ["pos"] => {
                    let (l, s) = coder.pos();
                    format!("{} {}", hex(l as u128), hex(to_u128(s)))
                }
                // `Seek` on the coder's own `Vec` backend: to the current position (`pos == len`, nothing is
                // truncated) and to a position `k` words below it
                ["seekself"] => {
                    let p = coder.pos();
                    match coder.seek(p) {
                        Ok(()) => "ok".into(),
                        Err(()) => "err".into(),
                    }
                }
                ["seekrel", k, s] => {
                    if !fits(parse_hex(s)?, sbits) { return None; }
                    let (l, _) = coder.pos();
                    let k = parse_hex(k)?;
                    if k > l as u128 {
                        "unsupported".into()
                    } else {
                        match coder.seek((l - k as usize, from_u128(parse_hex(s)?))) {
                            Ok(()) => "ok".into(),
                            Err(()) => "err".into(),
                        }
                    }
                }
                ["seek", l, s] => {
                    if !fits(parse_hex(s)?, sbits) || parse_hex(l)? > usize::MAX as u128 { return None; }
                    match coder.seek((parse_hex(l)? as usize, from_u128(parse_hex(s)?))) {
                        Ok(()) => "ok".into(),
                        Err(()) => "err".into(),
                    }
                }
                _ => return None,
            })
        });
        match r {
            Ok(Some(s)) => outs.push(s),
            Ok(None) => {
                outs.push("bad-op".into());
                break;
            }
            Err(class) => {
                outs.push(class.into());
                break;
            }
        }
    }
    outs.join(" | ")
}


/// `ansc W S cap | op …`: an encoder on a bounded `Cursor` backend of `cap` words (write
/// failures, C09); `ansd W S | data | op …`: a seekable decoder over finished data (C07).
fn run_cursor<C: AnsCombo>(segs: &[Vec<&str>], decoder: bool) -> String {
    let mut outs: Vec<String> = Vec::new();
    let mut coder: AnsCoder<C::W, C::S, Cursor<C::W, Vec<C::W>>> = if decoder {
        let l = match segs.get(1).and_then(|s| s.first()).and_then(|s| parse_list(s)) { Some(l) => l, None => return "bad-op".into() };
        match AnsCoder::from_compressed(Cursor::new_at_write_end(words::<C::W>(&l))) {
            Ok(c) => c,
            Err(_) => return "err".into(),
        }
    } else {
        let cap = match segs[0].get(3).and_then(|s| parse_hex(s)) { Some(c) => c as usize, None => return "bad-op".into() };
        AnsCoder::from_raw_parts(Cursor::new_at_write_beginning(vec![from_u128::<C::W>(0); cap]), from_u128::<C::S>(0))
    };
    outs.push("ok".into());
    let start = if decoder { 2 } else { 1 };
    // `rev`: `AnsCoder::into_reversed` (Cursor -> Reverse<Cursor> and back); while reversed the coder lives in `rcoder`
    let mut rcoder: Option<AnsCoder<C::W, C::S, Reverse<Cursor<C::W, Vec<C::W>>>>> = None;
    for seg in &segs[start..] {
        if seg.as_slice() == ["rev"] {
            let r = guarded(|| {
                if let Some(rc) = rcoder.take() {
                    coder = rc.into_reversed();
                } else {
                    let c = std::mem::replace(&mut coder, AnsCoder::from_raw_parts(Cursor::new_at_write_beginning(Vec::new()), from_u128::<C::S>(0)));
                    rcoder = Some(c.into_reversed());
                }
            });
            match r {
                Ok(()) => { outs.push("ok".into()); continue; }
                Err(class) => { outs.push(class.into()); break; }
            }
        }
        if let Some(rc) = rcoder.as_mut() {
            let r = guarded(|| -> Option<String> {
                Some(match seg.as_slice() {
                    ["enc", b, p, cum, pr] => C::enc(rc, parse_hex(b)? as u32, parse_hex(p)? as u32, Some((parse_hex(cum)?, parse_hex(pr)?))).unwrap_or("unsupported".into()),
                    ["encnone", b, p] => C::enc(rc, parse_hex(b)? as u32, parse_hex(p)? as u32, None).unwrap_or("unsupported".into()),
                    ["dec", b, p, cdf] => C::dec(rc, parse_hex(b)? as u32, parse_hex(p)? as u32, &parse_list(cdf)?).unwrap_or("unsupported".into()),
                    ["raw"] => {
                        // canonical view: the words on the stack, bottom first
                        let cur = &rc.bulk().0;
                        let l = cur.pos();
                        format!("{} {}", show_list(cur.buf()[l..].iter().rev().map(|&w| to_u128(w))), hex(to_u128(rc.state())))
                    }
                    ["empty"] => format!("{}", rc.is_empty()),
                    ["nw"] => hex(rc.num_words() as u128),
                    _ => "unsupported".into(),
                })
            });
            match r {
                Ok(Some(s)) => outs.push(s),
                Ok(None) => { outs.push("bad-op".into()); break; }
                Err(class) => { outs.push(class.into()); break; }
            }
            continue;
        }
        let r = guarded(|| -> Option<String> {
            Some(match seg.as_slice() {
                ["enc", b, p, cum, pr] => C::enc(&mut coder, parse_hex(b)? as u32, parse_hex(p)? as u32, Some((parse_hex(cum)?, parse_hex(pr)?))).unwrap_or("unsupported".into()),
                ["encnone", b, p] => C::enc(&mut coder, parse_hex(b)? as u32, parse_hex(p)? as u32, None).unwrap_or("unsupported".into()),
                ["dec", b, p, cdf] => C::dec(&mut coder, parse_hex(b)? as u32, parse_hex(p)? as u32, &parse_list(cdf)?).unwrap_or("unsupported".into()),
                ["raw"] => {
                    let (l, _) = coder.pos();
                    format!("{} {}", show_list(coder.bulk().buf()[..l].iter().map(|&w| to_u128(w))), hex(to_u128(coder.state())))
                }
                ["pos"] => {
                    let (l, s) = coder.pos();
                    format!("{} {}", hex(l as u128), hex(to_u128(s)))
                }
                ["seek", l, s] => match coder.seek((parse_hex(l)? as usize, from_u128(parse_hex(s)?))) {
                    Ok(()) => "ok".into(),
                    Err(()) => "err".into(),
                },
                ["empty"] => format!("{}", coder.is_empty()),
                ["getc"] => match coder.get_compressed() {
                    Ok(g) => {
                        let l = g.pos();
                        show_list(g.buf()[..l].iter().map(|&w| to_u128(w)))
                    }
                    Err(_) => "full".into(),
                },
                ["getb"] => match coder.get_binary() {
                    Ok(g) => {
                        let l = g.pos();
                        show_list(g.buf()[..l].iter().map(|&w| to_u128(w)))
                    }
                    Err(CoderError::Backend(_)) => "full".into(),
                    Err(CoderError::Frontend(())) => "err".into(),
                },
                ["nw"] => hex(coder.num_words() as u128),
                ["export"] => match coder.clone().into_compressed() {
                    Ok(c) => {
                        let l = c.pos();
                        show_list(c.buf()[..l].iter().map(|&w| to_u128(w)))
                    }
                    Err(_) => "full".into(),
                },
                ["intob"] => match coder.clone().into_binary() {
                    Ok(c) => {
                        let l = c.pos();
                        show_list(c.buf()[..l].iter().map(|&w| to_u128(w)))
                    }
                    Err(Some(_)) => "full".into(),
                    Err(None) => "err".into(),
                },
                _ => return None,
            })
        });
        match r {
            Ok(Some(s)) => outs.push(s),
            Ok(None) => { outs.push("bad-op".into()); break; }
            Err(class) => { outs.push(class.into()); break; }
        }
    }
    outs.join(" | ")
}

/// `ansspec W S | enc B P cum p | … [| expect words]`: encode onto an empty coder and export;
/// the Lean side answers with the *reference specification* `RansSpec.words` (C06).
fn run_spec<C: AnsCombo>(segs: &[Vec<&str>]) -> String {
    let mut coder: AnsCoder<C::W, C::S> = AnsCoder::new();
    let mut expect: Option<Vec<u128>> = None;
    for seg in &segs[1..] {
        match seg.as_slice() {
            ["enc", b, p, cum, pr] => {
                let (b, p, cum, pr) = match (parse_hex(b), parse_hex(p), parse_hex(cum), parse_hex(pr)) {
                    (Some(b), Some(p), Some(c), Some(r)) => (b as u32, p as u32, c, r),
                    _ => return "bad-op".into(),
                };
                match C::enc(&mut coder, b, p, Some((cum, pr))) {
                    Some(o) if o == "ok" => {}
                    Some(o) => return o,
                    None => return "unsupported".into(),
                }
            }
            ["expect", ws] => expect = parse_list(ws),
            _ => return "bad-op".into(),
        }
    }
    let out: Vec<u128> = coder.into_compressed().unwrap().iter().map(|&w| to_u128(w)).collect();
    let verdict = match &expect {
        None => "-",
        Some(e) if *e == out => "match",
        Some(_) => "MISMATCH",
    };
    format!("{} {}", show_list(out), verdict)
}

/// `anssweep W S B P lo hi`: complete single-step space.  For every state in `lo..hi` (with a
/// one-word bulk whenever the invariant demands one), every `(cum, p)` with `cum + p <= 2^P`,
/// `0 < p < 2^P`: one `encode_symbol` and one `decode_symbol` (table `[0, cum, cum+p, 2^P]`);
/// all results are folded into a digest.  Output: `count digest`.
fn run_sweep<C: AnsCombo>(head: &[&str], w: u32, s: u32) -> String {
    let (b, p, lo, hi) = match (parse_hex(head[3]), parse_hex(head[4]), parse_hex(head[5]), parse_hex(head[6])) {
        (Some(b), Some(p), Some(lo), Some(hi)) => (b as u32, p as u32, lo, hi),
        _ => return "bad-op".into(),
    };
    let total = pow2(p);
    let mut h = DIGEST_INIT;
    let mut count: u128 = 0;
    for st in lo..hi {
        let bulk: Vec<u128> = if st >= pow2(s - w) { vec![0xab & (pow2(w) - 1)] } else { vec![] };
        for pr in 1..total {
            for cum in 0..=(total - pr) {
                let mut c: AnsCoder<C::W, C::S> = AnsCoder::from_raw_parts(words::<C::W>(&bulk), from_u128(st));
                match C::enc(&mut c, b, p, Some((cum, pr))) {
                    Some(o) if o == "ok" => {}
                    Some(o) => return format!("{:x} {:x} {:x} => {}", st, cum, pr, o),
                    None => return "unsupported".into(),
                }
                h = digest_step(h, to_u128(c.state()));
                h = digest_step(h, c.bulk().len() as u128);
                h = digest_step(h, c.bulk().last().map(|&x| to_u128(x)).unwrap_or(0));
                let mut cdf = vec![0u128];
                if cum > 0 {
                    cdf.push(cum);
                }
                cdf.push(cum + pr);
                if cum + pr < total {
                    cdf.push(total);
                }
                let mut d: AnsCoder<C::W, C::S> = AnsCoder::from_raw_parts(words::<C::W>(&bulk), from_u128(st));
                let sym = match C::dec(&mut d, b, p, &cdf) {
                    Some(o) => parse_hex(&o).unwrap_or(0xffff),
                    None => return "unsupported".into(),
                };
                h = digest_step(h, sym);
                h = digest_step(h, to_u128(d.state()));
                h = digest_step(h, d.bulk().len() as u128);
                count += 2;
            }
        }
    }
    format!("{:x} {:x}", count, h)
}

/// `ansr W S | data | op …`: `from_reversed_compressed` (data is read front to back; a
/// `Reverse<Cursor>` backend); `ansi W S | data | op …`: `from_reversed_compressed_iter`;
/// `ansb W S | data | op …`: `from_binary_slice` (borrowed slice).
fn run_glue<C: AnsCombo>(kind: &str, segs: &[Vec<&str>]) -> String {
    use constriction::backends::Reverse;
    let l = match segs.get(1).and_then(|s| s.first()).and_then(|s| parse_list(s)) { Some(l) => l, None => return "bad-op".into() };
    if !all_fit(&l, 8 * std::mem::size_of::<C::W>() as u32) { return "bad-op".into(); }
    let data = words::<C::W>(&l);
    let mut outs: Vec<String> = vec!["ok".into()];
    macro_rules! ops {
        ($coder:ident, $seekable:expr) => {
            for seg in &segs[2..] {
                let r = guarded(|| -> Option<String> {
                    Some(match seg.as_slice() {
                        ["dec", b, p, cdf] => C::dec(&mut $coder, parse_hex(b)? as u32, parse_hex(p)? as u32, &parse_list(cdf)?).unwrap_or("unsupported".into()),
                        ["state"] => hex(to_u128($coder.state())),
                        ["empty"] => format!("{}", $coder.is_empty()),
                        _ => return None,
                    })
                });
                match r {
                    Ok(Some(s)) => outs.push(s),
                    Ok(None) => { outs.push("bad-op".into()); break; }
                    Err(class) => { outs.push(class.into()); break; }
                }
            }
        };
    }
    match kind {
        "ansr" => {
            let mut coder: AnsCoder<C::W, C::S, Reverse<Cursor<C::W, Vec<C::W>>>> = match AnsCoder::from_reversed_compressed(data) {
                Ok(c) => c,
                Err(_) => return "err".into(),
            };
            for seg in &segs[2..] {
                let r = guarded(|| -> Option<String> {
                    Some(match seg.as_slice() {
                        ["dec", b, p, cdf] => C::dec(&mut coder, parse_hex(b)? as u32, parse_hex(p)? as u32, &parse_list(cdf)?).unwrap_or("unsupported".into()),
                        ["state"] => hex(to_u128(coder.state())),
                        ["empty"] => format!("{}", coder.is_empty()),
                        ["pos"] => {
                            let (l, s) = coder.pos();
                            format!("{} {}", hex(l as u128), hex(to_u128(s)))
                        }
                        ["seek", l, s] => match coder.seek((parse_hex(l)? as usize, from_u128(parse_hex(s)?))) {
                            Ok(()) => "ok".into(),
                            Err(()) => "err".into(),
                        },
                        _ => return None,
                    })
                });
                match r {
                    Ok(Some(s)) => outs.push(s),
                    Ok(None) => { outs.push("bad-op".into()); break; }
                    Err(class) => { outs.push(class.into()); break; }
                }
            }
        }
        "ansi" => {
            let it = data.into_iter().map(Ok::<C::W, std::convert::Infallible>);
            let mut coder = match AnsCoder::<C::W, C::S, _>::from_reversed_compressed_iter(it) {
                Ok(c) => c,
                Err(_) => return "err".into(),
            };
            ops!(coder, false);
        }
        "ansb" => {
            let mut coder = AnsCoder::<C::W, C::S, _>::from_binary_slice(&data);
            ops!(coder, false);
        }
        "anss" => {
            let mut coder = match AnsCoder::<C::W, C::S, _>::from_compressed_slice(&data) {
                Ok(c) => c,
                Err(()) => return "err".into(),
            };
            ops!(coder, false);
        }
        "ansrb" => {
            let mut coder: AnsCoder<C::W, C::S, Reverse<Cursor<C::W, Vec<C::W>>>> = AnsCoder::from_reversed_binary(data);
            ops!(coder, false);
        }
        "ansib" => {
            let it = data.into_iter().map(Ok::<C::W, std::convert::Infallible>);
            let mut coder = match AnsCoder::<C::W, C::S, _>::from_reversed_binary_iter(it) {
                Ok(c) => c,
                Err(_) => return "err".into(),
            };
            ops!(coder, false);
        }
        _ => return "bad-op".into(),
    }
    outs.join(" | ")
}

pub fn run(segs: &[Vec<&str>]) -> String {
    let head = &segs[0];
    if head.len() < 3 {
        return "bad-op".into();
    }
    let kind = head[0];
    let (w, s) = match (parse_hex(head[1]), parse_hex(head[2])) {
        (Some(w), Some(s)) => (w, s),
        _ => return "bad-op".into(),
    };
    macro_rules! go {
        ($C:ty) => {
            match kind {
                "ans" if head.len() == 3 && segs.len() >= 2 => run_hist::<$C>(segs),
                "ansc" if head.len() == 4 => run_cursor::<$C>(segs, false),
                "ansd" if head.len() == 3 && segs.len() >= 2 => run_cursor::<$C>(segs, true),
                "ansspec" if head.len() == 3 => run_spec::<$C>(segs),
                "ansr" | "ansi" | "ansb" | "anss" | "ansrb" | "ansib" if head.len() == 3 && segs.len() >= 2 => run_glue::<$C>(kind, segs),
                "anssweep" if head.len() == 7 => run_sweep::<$C>(head, w as u32, s as u32),
                _ => "bad-op".into(),
            }
        };
    }
    match (w, s) {
        (8, 16) => go!(C8x16),
        (8, 32) => go!(C8x32),
        (8, 64) => go!(C8x64),
        (16, 32) => go!(C16x32),
        (16, 64) => go!(C16x64),
        (32, 64) => go!(C32x64),
        (32, 128) => go!(C32x128),
        (64, 128) => go!(C64x128),
        _ => "unsupported".into(),
    }
}

// ---------------------------------------------------------------------------------------
// generation

/// random strictly increasing cdf `[0, …, 2^P]` with `n` symbols (n ≥ 2, n ≤ 2^P),
/// biased towards extreme probabilities (1 quantum, 2^P - (n-1) quanta)
pub fn gen_cdf(rng: &mut Rng, p: u32) -> Vec<u128> {
    let total = pow2(p);
    let max_n = total.min(6);
    if max_n < 2 {
        // P = 0 does not occur
        return vec![0, total];
    }
    let n = rng.range(2, max_n);
    // choose n-1 distinct interior boundaries in 1..total-1
    let mut inner: Vec<u128> = Vec::new();
    let style = rng.next() % 4;
    while (inner.len() as u128) < n - 1 {
        let c = match style {
            0 => 1 + rng.below(total - 1),
            1 => 1 + rng.below((n + 1).min(total - 1)),                 // small cumulatives: p = 1 quanta
            2 => total - 1 - rng.below((n + 1).min(total - 1)),         // boundaries near the top
            _ => if rng.chance(1, 2) { 1 + rng.below(total - 1) } else { rng.bits_biased(p).clamp(1, total - 1) },
        };
        if !inner.contains(&c) {
            inner.push(c);
        }
    }
    inner.sort();
    let mut cdf = vec![0];
    cdf.extend(inner);
    cdf.push(total);
    cdf
}

fn gen_cp(rng: &mut Rng, p: u32) -> (u128, u128) {
    let total = pow2(p);
    // p in 1..total-1 ; cum in 0..=total-p
    let pr = match rng.next() % 5 {
        0 => 1,
        1 => total - 1,
        2 => (total / 2).max(1),
        _ => 1 + rng.below(total - 1),
    };
    let pr = pr.clamp(1, (total - 1).max(1));
    let cum = match rng.next() % 4 {
        0 => 0,
        1 => total - pr,
        _ => rng.below(total - pr + 1),
    };
    (cum, pr)
}

fn pick_bp(rng: &mut Rng, bps: &[(u32, Vec<u32>)]) -> (u32, u32) {
    let (b, ps) = rng.pick(bps);
    (*b, *rng.pick(ps))
}

fn gen_words(rng: &mut Rng, w: u32, n: usize) -> Vec<u128> {
    (0..n).map(|_| rng.bits_biased(w)).collect()
}

fn gen_init(rng: &mut Rng, w: u32, s: u32, bps: &[(u32, Vec<u32>)]) -> String {
    match rng.next() % 6 {
        0 => "new".into(),
        1 => {
            let n = (rng.next() % 6) as usize;
            let mut ws = gen_words(rng, w, n);
            if let Some(l) = ws.last_mut() {
                if *l == 0 && rng.chance(3, 4) {
                    *l = 1 + rng.below(pow2(w) - 1);
                }
            }
            format!("compressed {}", show_list(ws))
        }
        2 => {
            let n = (rng.next() % 6) as usize;
            format!("binary {}", show_list(gen_words(rng, w, n)))
        }
        _ => {
            // raw parts satisfying the invariant, state near an encode threshold
            let (_, p) = pick_bp(rng, bps);
            let n = (rng.next() % 4) as usize;
            let bulk = gen_words(rng, w, n);
            let lo = if n == 0 { 0 } else { pow2(s - w) };
            let hi = pow2(s).wrapping_sub(1); // s=128 -> u128::MAX
            let (_, pr) = gen_cp(rng, p);
            let thr = pr << (s - p);
            let st = match rng.next() % 6 {
                0 => thr.wrapping_sub(1),
                1 => thr,
                2 => thr.wrapping_add(1),
                3 => lo,
                4 => hi,
                _ => rng.bits_biased(s),
            };
            let st = if s < 128 { st & (pow2(s) - 1) } else { st };
            let st = st.max(lo);
            format!("raw {} {}", show_list(bulk), hex(st))
        }
    }
}

pub fn gen_history(rng: &mut Rng, w: u32, s: u32, bps: &[(u32, Vec<u32>)], maxlen: usize) -> String {
    let mut line = format!("ans {:x} {:x} | {}", w, s, gen_init(rng, w, s, bps));
    let n = rng.next() as usize % (maxlen + 1);
    // a history keeps a small set of (b, p, cdf) models so that decode often follows encode
    let mut models: Vec<(u32, u32, Vec<u128>)> = Vec::new();
    for _ in 0..3 {
        let (b, p) = pick_bp(rng, bps);
        models.push((b, p, gen_cdf(rng, p)));
    }
    for _ in 0..n {
        let (b, p, cdf) = rng.pick(&models).clone();
        let op = match rng.next() % 32 {
            0..=9 => {
                // encode a table symbol, expressed numerically
                let i = rng.below(cdf.len() as u128 - 1) as usize;
                format!("enc {:x} {:x} {:x} {:x}", b, p, cdf[i], cdf[i + 1] - cdf[i])
            }
            10..=11 => {
                let (cum, pr) = gen_cp(rng, p);
                format!("enc {:x} {:x} {:x} {:x}", b, p, cum, pr)
            }
            12..=18 => format!("dec {:x} {:x} {}", b, p, show_list(cdf.clone())),
            19 => format!("encnone {:x} {:x}", b, p),
            20 => {
                let k = rng.next() as usize % 5;
                let syms: Vec<u128> = (0..k).map(|_| { let extra = if rng.chance(1, 12) { 1 } else { 0 }; rng.below(cdf.len() as u128 - 1 + extra) }).collect();
                let form = rng.next() % 6;
                let err_at = if (form == 2 || form == 3) && k > 0 && rng.chance(1, 2) { hex(rng.below(k as u128)) } else { "-".into() };
                format!("encs {:x} {:x} {:x} {} {} {}", b, p, form, show_list(cdf.clone()), show_list(syms), err_at)
            }
            21 => {
                let k = rng.next() as usize % 5;
                let form = rng.next() % 3;
                let err_at = if form == 1 && k > 0 && rng.chance(1, 2) { hex(rng.below(k as u128)) } else { "-".into() };
                format!("decs {:x} {:x} {:x} {} {:x} {}", b, p, form, show_list(cdf.clone()), k, err_at)
            }
            22 => "export".into(),
            23 => "reload".into(),
            24 => "intob".into(),
            25 => "getc".into(),
            26 => "getb".into(),
            27 => "iter".into(),
            28 => (*rng.pick(&["nw", "nb", "nvb", "empty"])).into(),
            29 => (*rng.pick(&["clone", "clone", "intovec", "maybefull", "mexh", "clear"])).into(),
            30 => match rng.next() % 3 {
                0 => "pos".into(),
                1 => if rng.chance(1, 2) { "pos | seekself | raw".into() } else {
                    // a valid coder state: at least 2^(S-W) (the words below stay where they are)
                    let st = pow2(s - w).wrapping_add(rng.bits_biased(s - w));
                    format!("seekrel {:x} {:x} | raw", rng.next() % 3, if s < 128 { st & (pow2(s) - 1) } else { st })
                },
                _ => format!("{} {:x} {:x} {} {:x}", if rng.chance(1, 2) { "asdec" } else { "intodec" }, b, p, show_list(cdf.clone()), rng.next() % 4),
            },
            _ => "raw".into(),
        };
        line.push_str(" | ");
        line.push_str(&op);
    }
    line.push_str(" | raw | export");
    line
}


fn gen_cursor_line(rng: &mut Rng, w: u32, s: u32, bps: &[(u32, Vec<u32>)]) -> String {
    let cap = rng.next() % 7;
    let mut line = format!("ansc {:x} {:x} {:x}", w, s, cap);
    let mut models: Vec<(u32, u32, Vec<u128>)> = Vec::new();
    for _ in 0..2 {
        let (b, p) = pick_bp(rng, bps);
        models.push((b, p, gen_cdf(rng, p)));
    }
    let n = rng.next() % 30;
    // `rev` toggles (into_reversed): in a third of the lines, also right at the start (empty bulk)
    let with_rev = rng.chance(1, 3);
    let mut reversed = false;
    if with_rev && rng.chance(1, 2) {
        line.push_str(" | rev");
        reversed = true;
    }
    for _ in 0..n {
        let (b, p, cdf) = rng.pick(&models).clone();
        if with_rev && rng.chance(1, 6) {
            line.push_str(" | rev");
            reversed = !reversed;
        }
        let op = match if reversed { rng.next() % 10 } else { rng.next() % 12 } {
            0..=6 => {
                // prefer improbable symbols: they flush words quickly
                let mut best = 0;
                for i in 0..cdf.len() - 1 {
                    if cdf[i + 1] - cdf[i] < cdf[best + 1] - cdf[best] {
                        best = i;
                    }
                }
                let i = if rng.chance(2, 3) { best } else { rng.below(cdf.len() as u128 - 1) as usize };
                format!("enc {:x} {:x} {:x} {:x}", b, p, cdf[i], cdf[i + 1] - cdf[i])
            }
            7 => format!("encnone {:x} {:x}", b, p),
            8..=9 => format!("dec {:x} {:x} {}", b, p, show_list(cdf.clone())),
            10 => (*rng.pick(&["pos", "getc", "getc", "getb", "nw", "export", "intob"])).into(),
            _ => "raw".into(),
        };
        line.push_str(" | ");
        line.push_str(&op);
        if reversed && rng.chance(1, 3) {
            line.push_str(*rng.pick(&[" | raw", " | nw", " | empty"]));
        }
    }
    if reversed {
        line.push_str(" | raw | rev");
    }
    line.push_str(" | getc | raw");
    line
}

fn gen_seekdec_line(rng: &mut Rng, w: u32, s: u32, bps: &[(u32, Vec<u32>)]) -> String {
    let n = (rng.next() % 8) as usize;
    let mut ws = gen_words(rng, w, n);
    if let Some(l) = ws.last_mut() {
        if *l == 0 {
            *l = 1 + rng.below(pow2(w) - 1);
        }
    }
    let mut line = format!("ansd {:x} {:x} | {}", w, s, show_list(ws));
    let (b, p) = pick_bp(rng, bps);
    let cdf = gen_cdf(rng, p);
    let k = rng.next() % 14;
    // a third of the lines convert the freshly built decoder with `into_reversed` right away (its bulk
    // may be empty: short data sits entirely in `state`), decode while reversed, and convert back
    if rng.chance(1, 3) {
        line.push_str(" | rev");
        for _ in 0..(rng.next() % 6) {
            line.push_str(&format!(" | dec {:x} {:x} {}", b, p, show_list(cdf.clone())));
        }
        line.push_str(" | raw | empty | rev | raw");
    }
    for _ in 0..k {
        let op = match rng.next() % 8 {
            0..=2 => {
                let pos = rng.below(n as u128 + 2);
                let lo = pow2(s - w);
                let st = if rng.chance(3, 4) { lo.wrapping_add(rng.bits_biased(s - w)) } else { rng.bits_biased(s) };
                let st = if s < 128 { st & (pow2(s) - 1) } else { st };
                let st = if pos > 0 { st.max(lo) } else { st };
                format!("seek {:x} {:x}", pos, st)
            }
            3..=5 => format!("dec {:x} {:x} {}", b, p, show_list(cdf.clone())),
            6 => "pos".into(),
            _ => "raw".into(),
        };
        line.push_str(" | ");
        line.push_str(&op);
    }
    line.push_str(" | raw | empty");
    line
}

fn gen_glue_line(rng: &mut Rng, w: u32, s: u32, bps: &[(u32, Vec<u32>)]) -> String {
    let kind = *rng.pick(&["ansr", "ansi", "ansb", "anss", "ansrb", "ansib"]);
    let n = (rng.next() % 7) as usize;
    let mut ws = gen_words(rng, w, n);
    if (kind == "ansr" || kind == "ansi") && rng.chance(7, 8) {
        // reversed data: the *first* word is the top of the stack and must not be zero
        if let Some(f) = ws.first_mut() {
            if *f == 0 {
                *f = 1 + rng.below(pow2(w) - 1);
            }
        }
    }
    let mut line = format!("{} {:x} {:x} | {}", kind, w, s, show_list(ws));
    let (b, p) = pick_bp(rng, bps);
    let cdf = gen_cdf(rng, p);
    let k = rng.next() % 12;
    for _ in 0..k {
        let op = match rng.next() % 8 {
            0..=4 => format!("dec {:x} {:x} {}", b, p, show_list(cdf.clone())),
            5 if kind == "ansr" => {
                let pos = rng.below(n as u128 + 2);
                let lo = pow2(s - w);
                let st = lo.wrapping_add(rng.bits_biased(s - w));
                let st = if s < 128 { st & (pow2(s) - 1) } else { st };
                format!("seek {:x} {:x}", pos, st.max(lo))
            }
            6 if kind == "ansr" => "pos".into(),
            _ => "state".into(),
        };
        line.push_str(" | ");
        line.push_str(&op);
    }
    line.push_str(" | state | empty");
    line
}

fn gen_spec_line(rng: &mut Rng, w: u32, s: u32, bps: &[(u32, Vec<u32>)]) -> String {
    let mut line = format!("ansspec {:x} {:x}", w, s);
    let n = rng.next() % 40;
    let mut models: Vec<(u32, u32, Vec<u128>)> = Vec::new();
    for _ in 0..3 {
        let (b, p) = pick_bp(rng, bps);
        models.push((b, p, gen_cdf(rng, p)));
    }
    for _ in 0..n {
        let (b, p, cdf) = rng.pick(&models).clone();
        if rng.chance(1, 5) {
            let (cum, pr) = gen_cp(rng, p);
            line.push_str(&format!(" | enc {:x} {:x} {:x} {:x}", b, p, cum, pr));
        } else {
            let i = rng.below(cdf.len() as u128 - 1) as usize;
            line.push_str(&format!(" | enc {:x} {:x} {:x} {:x}", b, p, cdf[i], cdf[i + 1] - cdf[i]));
        }
    }
    line
}

/// The byte-exact examples of the project's own documentation (README-rust.md, src/lib.rs):
/// the documented models are built with the crate, each symbol is turned into its numeric
/// `(cum, p)` by the crate's model, and the documented words are attached as `expect`.
pub fn doc_vectors() -> Vec<String> {
    use constriction::stream::model::{DefaultLeakyQuantizer, EncoderModel};
    use probability::distribution::Gaussian;
    let mut out = Vec::new();
    let symbols = [23i32, -15, 78, 43, -69];
    let means = [35.2, -1.7, 30.1, 71.2, -75.1];
    let stds = [10.1, 25.3, 23.8, 35.4, 3.9];
    let quantizer = DefaultLeakyQuantizer::new(-100..=100);
    let mut line = String::from("ansspec 20 40");
    // encode_symbols_reverse: last symbol first
    for i in (0..5).rev() {
        let m = quantizer.quantize(Gaussian::new(means[i], stds[i]));
        let (c, p) = EncoderModel::<24>::left_cumulative_and_probability(&m, symbols[i]).unwrap();
        line.push_str(&format!(" | enc 20 18 {:x} {:x}", c, p.get()));
    }
    line.push_str(" | expect 421c7ec3,b8ed1");
    out.push(line);
    // src/stream/mod.rs: `[0x2C63_D22E, 0x0000_0377]` decodes to -3, 12, 19, 28, 41 with Gaussian(10 i, 10)
    let syms2 = [-3i32, 12, 19, 28, 41];
    let mut line = String::from("ansspec 20 40");
    for i in (0..5).rev() {
        let m = quantizer.quantize(Gaussian::new((i * 10) as f64, 10.0));
        let (c, p) = EncoderModel::<24>::left_cumulative_and_probability(&m, syms2[i]).unwrap();
        line.push_str(&format!(" | enc 20 18 {:x} {:x}", c, p.get()));
    }
    line.push_str(" | expect 2c63d22e,377");
    out.push(line);
    out
}

pub fn gen(rng: &mut Rng, tier: &str, out: &mut Vec<String>) {
    let n_per_combo = if tier == "thorough" { 6000 } else { 350 };
    out.extend(doc_vectors());
    // complete single-step spaces at (u8, u16): every state x every (cum, p)
    let ps: &[u32] = if tier == "thorough" { &[1, 2, 3, 4, 5] } else { &[1, 2, 3] };
    for &p in ps {
        let chunk = 0x1000u128;
        let mut lo = 0u128;
        while lo < 0x10000 {
            out.push(format!("anssweep 8 10 8 {:x} {:x} {:x}", p, lo, lo + chunk));
            lo += chunk;
        }
    }
    // slices of the (u8, u32) and (u16, u32) spaces around the normalisation threshold
    for (w, s, b, p) in [(8u32, 32u32, 8u32, 3u32), (16, 32, 16, 2), (16, 32, 8, 4)] {
        let thr = pow2(s - w);
        for (lo, hi) in [(0u128, 0x400u128), (thr - 0x200, thr + 0x200), (pow2(s) - 0x400, pow2(s))] {
            out.push(format!("anssweep {:x} {:x} {:x} {:x} {:x} {:x}", w, s, b, p, lo, hi));
        }
    }
    for (w, s, bps) in combos() {
        for _ in 0..n_per_combo {
            out.push(gen_history(rng, w, s, &bps, 24));
        }
        for _ in 0..n_per_combo / 4 {
            out.push(gen_cursor_line(rng, w, s, &bps));
            out.push(gen_seekdec_line(rng, w, s, &bps));
            out.push(gen_spec_line(rng, w, s, &bps));
            out.push(gen_glue_line(rng, w, s, &bps));
        }
    }
}

// ---------------------------------------------------------------------------------------
// implementation-level oracles (no reference to the Lean model)

fn export<C: AnsCombo>(c: &AnsCoder<C::W, C::S>) -> Vec<u128> {
    c.clone().into_compressed().unwrap().iter().map(|&w| to_u128(w)).collect()
}

fn oracle_combo<C: AnsCombo>(rng: &mut Rng, w: u32, s: u32, bps: &[(u32, Vec<u32>)], iters: usize, rep: &mut Report) {
    for _ in 0..iters {
        // ---- C01 / C08 / C09 / C18: stack discipline under a random history ----
        let init_words: Vec<u128> = {
            let n = (rng.next() % 5) as usize;
            let mut ws = gen_words(rng, w, n);
            if let Some(l) = ws.last_mut() {
                if *l == 0 {
                    *l = 1;
                }
            }
            ws
        };
        let from_bin = rng.chance(1, 3);
        let mk = |ws: &Vec<u128>| -> AnsCoder<C::W, C::S> {
            if from_bin {
                AnsCoder::from_binary(words::<C::W>(ws)).unwrap()
            } else {
                AnsCoder::from_compressed(words::<C::W>(ws)).unwrap()
            }
        };
        let mut coder = mk(&init_words);
        let mut twin = mk(&init_words); // never inspected (C08)
        let base = export::<C>(&coder);
        let mut models: Vec<(u32, u32, Vec<u128>)> = Vec::new();
        for _ in 0..3 {
            let (b, p) = pick_bp(rng, bps);
            models.push((b, p, gen_cdf(rng, p)));
        }
        let mut ghost: Vec<(usize, usize)> = Vec::new();
        let mut desc = format!("ans {:x} {:x} | {} {}", w, s, if from_bin { "binary" } else { "compressed" }, show_list(init_words.clone()));
        crate::util::set_case(&desc);
        let steps = rng.next() % 40;
        let mut info_bits = 0f64; // only for the histogram
        for _ in 0..steps {
            let mi = (rng.next() % 3) as usize;
            let (b, p, cdf) = models[mi].clone();
            let r = rng.next() % 17;
            if r < 7 {
                let sym = rng.below(cdf.len() as u128 - 1) as usize;
                desc.push_str(&format!(" | enc {:x} {:x} {:x} {:x}", b, p, cdf[sym], cdf[sym + 1] - cdf[sym]));
                crate::util::set_case(&desc);
                let o1 = C::enc_sym(&mut coder, b, p, &cdf, sym).unwrap();
                let o2 = C::enc_sym(&mut twin, b, p, &cdf, sym).unwrap();
                rep.eval("C01");
                if o1 != "ok" || o2 != "ok" {
                    rep.fail("C01", format!("{} => encode of an in-support symbol returned {}", desc, o1));
                    break;
                }
                ghost.push((mi, sym));
                info_bits += (p as f64) - ((cdf[sym + 1] - cdf[sym]) as f64).log2();
            } else if r < 12 {
                if let Some(&(gmi, gsym)) = ghost.last() {
                    let (b, p, cdf) = models[gmi].clone();
                    desc.push_str(&format!(" | dec {:x} {:x} {}", b, p, show_list(cdf.clone())));
                    crate::util::set_case(&desc);
                    let o1 = C::dec(&mut coder, b, p, &cdf).unwrap();
                    let _ = C::dec(&mut twin, b, p, &cdf).unwrap();
                    ghost.pop();
                    rep.eval("C01");
                    if o1 != hex(gsym as u128) {
                        rep.fail("C01", format!("{} => decoded {} expected {:x}", desc, o1, gsym));
                        break;
                    }
                    if ghost.is_empty() {
                        rep.eval("C01");
                        rep.count("C01.popped_all");
                        let now = export::<C>(&coder);
                        if now != base {
                            rep.fail("C01", format!("{} | export => {} expected base {}", desc, show_list(now), show_list(base.clone())));
                            break;
                        }
                    }
                }
            } else if r == 13 && rng.chance(1, 2) {
                // the provided `Iterator` methods on the lazy decode iterators (`nth`, `skip`, `step_by`,
                // `size_hint` / `len`) must pop exactly what the per-symbol loop pops and yield the same
                // symbols — checked on clones, the history itself is not advanced
                let amt = (rng.next() % 7) as usize;
                let k = (rng.next() % 9) as usize;
                let form = (rng.next() % 7) as u32;
                let mut a = coder.clone();
                let mut bref = coder.clone();
                let list: Vec<String> = (0..amt).map(|_| C::dec(&mut bref, b, p, &cdf).unwrap()).collect();
                let (want, consumed): (String, usize) = match form {
                    0 | 1 | 3 | 4 => (list.get(k).cloned().unwrap_or("none".into()), (k + 1).min(amt)),
                    2 => (list.iter().step_by(k + 1).cloned().collect::<Vec<_>>().join(","), amt),
                    5 => {
                        let mut v = vec![list.get(k).cloned().unwrap_or("none".into())];
                        v.extend(list.iter().skip(k + 1).cloned());
                        (v.join(","), amt)
                    }
                    _ => (format!("hint {} {:?} len {}", amt, Some(amt), amt), 0),
                };
                let mut c2 = coder.clone();
                for _ in 0..consumed {
                    let _ = C::dec(&mut c2, b, p, &cdf).unwrap();
                }
                let got = C::dec_iter(&mut a, b, p, form, &cdf, amt, k).unwrap();
                rep.eval("C01");
                rep.count("C01.decode_iterator_adaptors");
                if got != want || (a.bulk().clone(), a.state()) != (c2.bulk().clone(), c2.state()) {
                    let names = ["decode_iid_symbols(amt).nth(k)", "decode_iid_symbols(amt).skip(k).next()", "decode_iid_symbols(amt).step_by(k+1)", "decode_symbols(amt models).nth(k)", "try_decode_symbols(amt models).nth(k)", "decode_iid_symbols(amt): nth(k) then the rest", "decode_iid_symbols(amt): size_hint / len"];
                    rep.fail("C01", format!("{} | {} with amt={:x} k={:x} model {:x} {:x} {} => yields {} and leaves bulk {:?} state {:x}; the per-symbol loop yields {} and leaves bulk {:?} state {:x} ({} symbols popped)",
                        desc, names[form as usize], amt, k, b, p, show_list(cdf.clone()), got,
                        a.bulk().iter().map(|&w| to_u128(w)).collect::<Vec<_>>(), to_u128(a.state()), want,
                        c2.bulk().iter().map(|&w| to_u128(w)).collect::<Vec<_>>(), to_u128(c2.state()), consumed));
                    break;
                }
            } else if r == 12 && rng.chance(1, 2) {
                // `clone()` and `clone_from()` (into a coder with unrelated bulk and state) are copies
                let before = (coder.bulk().clone(), coder.state());
                let copy = coder.clone();
                let mut other: AnsCoder<C::W, C::S> = AnsCoder::from_binary(words::<C::W>(&vec![3, 1, 4, 1, 5])).unwrap();
                other.clone_from(&copy);
                desc.push_str(" | clone");
                crate::util::set_case(&desc);
                rep.eval("C01");
                if (copy.bulk().clone(), copy.state()) != before || (other.bulk().clone(), other.state()) != before {
                    rep.fail("C01", format!("{} => clone() / clone_from() is not a copy: bulk {:?} state {:x}, clone bulk {:?} state {:x}, clone_from bulk {:?} state {:x}",
                        desc, before.0.iter().map(|&w| to_u128(w)).collect::<Vec<_>>(), to_u128(before.1),
                        copy.bulk().iter().map(|&w| to_u128(w)).collect::<Vec<_>>(), to_u128(copy.state()),
                        other.bulk().iter().map(|&w| to_u128(w)).collect::<Vec<_>>(), to_u128(other.state())));
                    break;
                }
                coder = other;
            } else if r == 12 {
                // impossible symbol: must fail and leave the coder intact (C09)
                let before = (coder.bulk().clone(), coder.state());
                let sym = cdf.len() - 1 + (rng.next() % 3) as usize * 0x1_0000_0001usize;
                let o = C::enc_sym(&mut coder, b, p, &cdf, sym).unwrap();
                rep.eval("C09");
                desc.push_str(&format!(" | encnone {:x} {:x}", b, p));
                crate::util::set_case(&desc);
                if o != "impossible" || before != (coder.bulk().clone(), coder.state()) {
                    rep.fail("C09", format!("{} => out-of-support symbol {:x}: result {} / coder changed", desc, sym, o));
                    break;
                }
            } else if r == 15 {
                // batch / reverse / fallible-iterator forms must equal the per-symbol loop (C01),
                // also when the batch fails part-way (impossible symbol or model error)
                let k = (rng.next() % 6) as usize;
                let form = (rng.next() % 6) as u32;
                let syms: Vec<usize> = (0..k).map(|_| {
                    let extra = if rng.chance(1, 8) { 1 } else { 0 };
                    rng.below(cdf.len() as u128 - 1 + extra) as usize
                }).collect();
                let err_at = if (form == 2 || form == 3) && k > 0 && rng.chance(1, 3) { Some(rng.below(k as u128) as usize) } else { None };
                desc.push_str(&format!(" | encs {:x} {:x} {:x} {} {} {}", b, p, form, show_list(cdf.clone()), show_list(syms.iter().map(|&x| x as u128)), err_at.map(|e| hex(e as u128)).unwrap_or("-".into())));
                crate::util::set_case(&desc);
                let o1 = C::enc_batch(&mut coder, b, p, form, &cdf, &syms, err_at).unwrap();
                // reference: the per-symbol loop in the order the form prescribes
                let mut order: Vec<usize> = (0..k).collect();
                if form == 1 || form == 3 || form == 5 {
                    order.reverse();
                }
                let mut o2 = "ok".to_string();
                for &i in &order {
                    if (form == 2 || form == 3) && Some(i) == err_at {
                        o2 = "modelerr".into();
                        break;
                    }
                    let o = C::enc_sym(&mut twin, b, p, &cdf, syms[i]).unwrap();
                    if o != "ok" {
                        o2 = o;
                        break;
                    }
                    ghost.push((mi, syms[i]));
                }
                rep.eval("C01");
                rep.count("C01.batch");
                if o1 != o2 || (coder.bulk(), coder.state()) != (twin.bulk(), twin.state()) {
                    let msg = format!("{} | raw => batch form returned {} and left ({} {:x}); the per-symbol loop returns {} and leaves ({} {:x})", desc, o1,
                        show_list(coder.bulk().iter().map(|&x| to_u128(x))), to_u128(coder.state()), o2,
                        show_list(twin.bulk().iter().map(|&x| to_u128(x))), to_u128(twin.state()));
                    rep.fail("C01", msg.clone());
                    // a batch that fails part-way (impossible symbol, Err item) must leave the coder as the
                    // successful prefix left it: that is also C09's clause
                    if o2 != "ok" { rep.fail("C09", msg); }
                    break;
                }
            } else if r == 13 {
                // reload (C01) – export / re-import must be the identity on behaviour
                desc.push_str(" | reload");
                crate::util::set_case(&desc);
                let v = coder.clone().into_compressed().unwrap();
                let shown: Vec<u128> = v.iter().map(|&x| to_u128(x)).collect();
                coder = match AnsCoder::from_compressed(v) {
                    Ok(c) => c,
                    Err(_) => {
                        let msg = format!("{} => the exported words {} are refused by from_compressed", desc, show_list(shown));
                        rep.fail("C01", msg.clone());
                        rep.fail("C06", msg);
                        break;
                    }
                };
                let v = twin.clone().into_compressed().unwrap();
                twin = AnsCoder::from_compressed(v).unwrap();
                rep.count("C01.reload");
            } else {
                // inspections (C08, C18)
                let expected = export::<C>(&coder);
                let kind = rng.next() % 6;
                rep.eval("C08");
                rep.eval("C18");
                let shown: Vec<u128> = match kind {
                    0 => coder.get_compressed().unwrap().iter().map(|&x| to_u128(x)).collect(),
                    1 => coder.iter_compressed().map(to_u128).collect(),
                    2 => {
                        let c2 = coder.clone();
                        export::<C>(&c2)
                    }
                    3 => {
                        let _ = coder.get_binary().map(|g| g.len());
                        expected.clone()
                    }
                    _ => expected.clone(),
                };
                desc.push_str(match kind { 0 => " | getc", 1 => " | iter", 2 => " | clone", 3 => " | getb", _ => " | nw" });
                crate::util::set_case(&desc);
                if shown != expected {
                    rep.fail("C08", format!("{} => view {} but finishing now gives {}", desc, show_list(shown), show_list(expected)));
                    break;
                }
                // the size queries are compared with what exporting returned *before* the inspection; if the
                // inspection itself damaged the coder, that is reported below as C08/C01, not as C18
                let intact = (coder.bulk(), coder.state()) == (twin.bulk(), twin.state());
                if intact && (coder.num_words() != expected.len() || coder.num_bits() != expected.len() * w as usize || coder.is_empty() != expected.is_empty()) {
                    rep.fail("C18", format!("{} | nw | nb | empty => num_words {} num_bits {} is_empty {} but export has {} words", desc, coder.num_words(), coder.num_bits(), coder.is_empty(), expected.len()));
                    break;
                }
            }
            // C08: inspected coder and twin must stay identical
            if (coder.bulk(), coder.state()) != (twin.bulk(), twin.state()) {
                let msg = format!("{} | raw => inspected coder holds {} {:x} but its uninspected twin holds {} {:x}", desc,
                    show_list(coder.bulk().iter().map(|&x| to_u128(x))), to_u128(coder.state()), show_list(twin.bulk().iter().map(|&x| to_u128(x))), to_u128(twin.state()));
                rep.fail("C08", msg.clone());
                // the same history is a C01 history: everything pushed before the inspection must still pop
                rep.fail("C01", msg);
                break;
            }
        }
        let _ = info_bits;
        rep.sample("C01", || desc.clone());
        rep.sample("C08", || desc.clone());
        rep.count(&format!("C01.hist.{}x{}", w, s));


        // ---- C07: snapshots and seeking (owned and borrowed seekable decoders) ----
        {
            let n = (rng.next() % 25) as usize;
            let mut enc: AnsCoder<C::W, C::S> = mk(&init_words);
            let mut snaps = vec![enc.pos()];
            let mut msg: Vec<(usize, usize)> = Vec::new();
            let mut d7 = format!("ans {:x} {:x} | {} {}", w, s, if from_bin { "binary" } else { "compressed" }, show_list(init_words.clone()));
            crate::util::set_case(&d7);
            for _ in 0..n {
                let mi = (rng.next() % 3) as usize;
                let (b, p, cdf) = models[mi].clone();
                let sym = rng.below(cdf.len() as u128 - 1) as usize;
                C::enc_sym(&mut enc, b, p, &cdf, sym).unwrap();
                d7.push_str(&format!(" | enc {:x} {:x} {:x} {:x} | pos", b, p, cdf[sym], cdf[sym + 1] - cdf[sym]));
                crate::util::set_case(&d7);
                msg.push((mi, sym));
                snaps.push(enc.pos());
            }
            let total_words = enc.bulk().len();
            let owned = rng.chance(1, 2);
            let mut dec_owned = enc.clone().into_seekable_decoder();
            let mut dec_borrowed = enc.as_seekable_decoder();
            let jumps = 1 + rng.next() % 6;
            for _ in 0..jumps {
                let i = rng.below(n as u128 + 1) as usize;
                let reps = 1 + rng.next() % 2;
                let mut okseek = true;
                for _ in 0..reps {
                    okseek &= if owned { dec_owned.seek(snaps[i]).is_ok() } else { dec_borrowed.seek(snaps[i]).is_ok() };
                }
                rep.eval("C07");
                if !okseek {
                    rep.fail("C07", format!("{} => seek to recorded snapshot {} ({:x},{:x}) refused", d7, i, snaps[i].0, to_u128(snaps[i].1)));
                    break;
                }
                let mut bad = None;
                for j in (0..i).rev() {
                    let (mi, sym) = msg[j];
                    let (b, p, cdf) = models[mi].clone();
                    let o = if owned { C::dec(&mut dec_owned, b, p, &cdf).unwrap() } else { C::dec(&mut dec_borrowed, b, p, &cdf).unwrap() };
                    if o != hex(sym as u128) {
                        bad = Some((j, o));
                        break;
                    }
                }
                if let Some((j, o)) = bad {
                    rep.fail("C07", format!("{} => after seek to snapshot {} ({}): symbol {} decoded as {} expected {:x}", d7, i, if owned { "owned" } else { "borrowed" }, j, o, msg[j].1));
                    break;
                }
                rep.count(if owned { "C07.owned" } else { "C07.borrowed" });
            }
            // the coder's own `Vec` backend (no conversion): (a) a checkpoint on the encoder, a few more
            // symbols (often too few to flush a word, so the checkpoint is the current position), seek back;
            // (b) a consuming decoder `from_compressed(into_compressed())`, whose bulk ends exactly at the
            // last snapshots; both must accept every recorded snapshot and then pop the right symbols
            for variant in 0..2 {
                let mut vec_dec: AnsCoder<C::W, C::S> = if variant == 0 {
                    enc.clone()
                } else {
                    match AnsCoder::from_compressed(enc.clone().into_compressed().unwrap()) { Ok(c) => c, Err(_) => break }
                };
                let mut dv = d7.clone();
                if variant == 0 {
                    // extra symbols beyond the last snapshot
                    for _ in 0..(rng.next() % 4) {
                        let mi = (rng.next() % 3) as usize;
                        let (b, p, cdf) = models[mi].clone();
                        let sym = rng.below(cdf.len() as u128 - 1) as usize;
                        C::enc_sym(&mut vec_dec, b, p, &cdf, sym).unwrap();
                        dv.push_str(&format!(" | enc {:x} {:x} {:x} {:x}", b, p, cdf[sym], cdf[sym + 1] - cdf[sym]));
                    }
                } else {
                    dv.push_str(" | reload");
                }
                // snapshots in decreasing order (seeking on a Vec truncates), starting at the last one
                let mut i = n;
                loop {
                    rep.eval("C07");
                    rep.count(if snaps[i].0 == vec_dec.bulk().len() { "C07.vec.seek_to_current_len" } else { "C07.vec.seek_below_len" });
                    dv.push_str(&format!(" | seek {:x} {:x}", snaps[i].0, to_u128(snaps[i].1)));
                    if vec_dec.seek(snaps[i]).is_err() {
                        rep.fail("C07", format!("{} => seek to recorded snapshot {} refused by the Vec-backed coder ({} words on its bulk)", dv, i, vec_dec.bulk().len()));
                        break;
                    }
                    let k = if i == 0 { 0 } else { 1 + rng.below(i as u128) as usize };
                    let mut bad = None;
                    for j in ((i - k)..i).rev() {
                        let (mi, sym) = msg[j];
                        let (b, p, cdf) = models[mi].clone();
                        dv.push_str(&format!(" | dec {:x} {:x} {}", b, p, show_list(cdf.clone())));
                        let o = C::dec(&mut vec_dec, b, p, &cdf).unwrap();
                        if o != hex(sym as u128) {
                            bad = Some((j, o));
                            break;
                        }
                    }
                    if let Some((j, o)) = bad {
                        rep.fail("C07", format!("{} => after seek to snapshot {} on the Vec-backed coder: symbol {} decoded as {} expected {:x}", dv, i, j, o, msg[j].1));
                        break;
                    }
                    if i == 0 || k == 0 { break; }
                    i -= k;
                    if rng.chance(1, 2) { break; }
                }
            }
            // beyond the data
            rep.eval("C07");
            let beyond = (total_words + 1 + (rng.next() % 3) as usize, snaps[0].1);
            if dec_owned.seek(beyond).is_ok() {
                rep.fail("C07", format!("{} => seek to position {:x} beyond the data ({} words) accepted", d7, beyond.0, total_words));
            }
            rep.sample("C07", || d7.clone());
        }

        // ---- C09: bounded backend, write failure at the k-th word ----
        {
            let cap = (rng.next() % 9) as usize;
            let mut enc: AnsCoder<C::W, C::S, Cursor<C::W, Vec<C::W>>> =
                AnsCoder::from_raw_parts(Cursor::new_at_write_beginning(vec![from_u128::<C::W>(0); cap]), from_u128::<C::S>(0));
            let mut pushed: Vec<(usize, usize)> = Vec::new();
            let mut d9 = format!("ansc {:x} {:x} {:x}", w, s, cap);
            crate::util::set_case(&d9);
            let mut failures = 0;
            let mut export_checked = 0;
            for _ in 0..60 {
                let mi = (rng.next() % 3) as usize;
                let (b, p, cdf) = models[mi].clone();
                let sym = rng.below(cdf.len() as u128 - 1) as usize;
                let before = (enc.pos(), enc.bulk().buf().to_vec());
                let o = C::enc(&mut enc, b, p, Some((cdf[sym], cdf[sym + 1] - cdf[sym]))).unwrap();
                d9.push_str(&format!(" | enc {:x} {:x} {:x} {:x}", b, p, cdf[sym], cdf[sym + 1] - cdf[sym]));
                crate::util::set_case(&d9);
                rep.eval("C09");
                // C01 on a bounded backend: exporting (into_compressed / into_binary) either equals what the same
                // coder exports into an unbounded Vec, or is refused because the words do not fit - never a
                // silently truncated message (checked after each of the first 12 pushes; the capacities 0..8
                // place the free space below, at and above the number of state words to append)
                if export_checked < 12 {
                    export_checked += 1;
                    let (cur, st) = enc.clone().into_raw_parts();
                    let held: Vec<C::W> = cur.buf()[..cur.pos()].to_vec();
                    let reference: Vec<u128> = AnsCoder::<C::W, C::S>::from_raw_parts(held.clone(), st).into_compressed().unwrap().iter().map(|&w| to_u128(w)).collect();
                    let got: Option<Vec<u128>> = enc.clone().into_compressed().ok().map(|c| { let l = c.pos(); c.buf()[..l].iter().map(|&w| to_u128(w)).collect() });
                    rep.eval("C01");
                    rep.eval("C09");
                    rep.count(if got.is_some() { "C01.bounded_export_ok" } else { "C01.bounded_export_refused" });
                    let fits = reference.len() <= cap;
                    let bad = match &got { Some(g) => *g != reference, None => fits };
                    if bad {
                        let msg = format!("{} | export => {} on a buffer of {} words; the same coder exports {} into a Vec", d9,
                            got.clone().map(show_list).unwrap_or("refused (backend full)".into()), cap, show_list(reference.clone()));
                        rep.fail("C01", msg.clone());
                        rep.fail("C09", msg.clone());
                        if got.is_some() {
                            // words were handed out that are not the prescribed stream (C06 speaks about
                            // every sink the words can be written to, not only `Vec`)
                            rep.fail("C06", msg);
                        }
                    }
                    rep.eval("C06");
                    // raw binary export: same rule whenever the unbounded export succeeds
                    if let Ok(refb) = AnsCoder::<C::W, C::S>::from_raw_parts(held, st).into_binary() {
                        let refb: Vec<u128> = refb.iter().map(|&w| to_u128(w)).collect();
                        let gotb: Option<Vec<u128>> = enc.clone().into_binary().ok().map(|c| { let l = c.pos(); c.buf()[..l].iter().map(|&w| to_u128(w)).collect() });
                        rep.eval("C04");
                        let badb = match &gotb { Some(g) => *g != refb, None => refb.len() <= cap };
                        if badb {
                            rep.fail("C04", format!("{} | intob => {} on a buffer of {} words; the same coder exports {} into a Vec", d9,
                                gotb.map(show_list).unwrap_or("refused".into()), cap, show_list(refb)));
                        }
                    }
                }

                if o == "ok" {
                    pushed.push((mi, sym));
                } else {
                    failures += 1;
                    rep.count("C09.backend_full");
                    let after = (enc.pos(), enc.bulk().buf().to_vec());
                    if o != "full" || before.0 != after.0 || before.1[..before.0 .0] != after.1[..after.0 .0] {
                        rep.fail("C09", format!("{} | raw => failed write returned {} / changed the coder", d9, o));
                        break;
                    }
                    if failures >= 3 {
                        break;
                    }
                }
            }
            // C08 on a bounded backend: an inspection (successful or refused) leaves the coder intact
            {
                let before = (enc.pos(), enc.bulk().buf()[..enc.pos().0].to_vec());
                let r = enc.get_compressed().map(|g| g.pos()).ok();
                let after = (enc.pos(), enc.bulk().buf()[..enc.pos().0].to_vec());
                rep.eval("C08");
                rep.count(if r.is_some() { "C08.bounded_view_ok" } else { "C08.bounded_view_refused" });
                if before != after {
                    rep.fail("C08", format!("{} | getc | raw => get_compressed() {} changed the coder from {:?} to {:?}", d9, if r.is_some() { "then drop" } else { "refused (backend full)" }, before.0, after.0));
                }
            }
            // C01 across backend conversions: the same history on a Cursor-backed coder that is converted with
            // `into_reversed` (Cursor <-> Reverse<Cursor>) at random points - also while nothing has been
            // flushed yet - and on a Vec-backed twin: every result and the final content must agree
            {
                let capr = 4 + (rng.next() % 12) as usize;
                let mut fwd: Option<AnsCoder<C::W, C::S, Cursor<C::W, Vec<C::W>>>> =
                    Some(AnsCoder::from_raw_parts(Cursor::new_at_write_beginning(vec![from_u128::<C::W>(0); capr]), from_u128::<C::S>(0)));
                let mut rev: Option<AnsCoder<C::W, C::S, Reverse<Cursor<C::W, Vec<C::W>>>>> = None;
                let mut twin: AnsCoder<C::W, C::S> = AnsCoder::new();
                let mut dr = format!("ansc {:x} {:x} {:x}", w, s, capr);
                crate::util::set_case(&dr);
                let mut bad: Option<String> = None;
                for _ in 0..(rng.next() % 40) {
                    if rng.chance(1, 5) {
                        dr.push_str(" | rev");
                        crate::util::set_case(&dr);
                        rep.count("C01.into_reversed");
                        if fwd.as_ref().map(|c| c.bulk().pos() == 0).unwrap_or(false) {
                            rep.count("C01.into_reversed.empty_bulk");
                        }
                        if let Some(c) = fwd.take() { rev = Some(c.into_reversed()); } else { fwd = Some(rev.take().unwrap().into_reversed()); }
                    }
                    let mi = (rng.next() % 3) as usize;
                    let (b, p, cdf) = models[mi].clone();
                    let (o1, o2);
                    if rng.chance(2, 3) {
                        let sym = rng.below(cdf.len() as u128 - 1) as usize;
                        let cp = Some((cdf[sym], cdf[sym + 1] - cdf[sym]));
                        dr.push_str(&format!(" | enc {:x} {:x} {:x} {:x}", b, p, cdf[sym], cdf[sym + 1] - cdf[sym]));
                        crate::util::set_case(&dr);
                        o1 = match (fwd.as_mut(), rev.as_mut()) { (Some(c), _) => C::enc(c, b, p, cp).unwrap(), (_, Some(c)) => C::enc(c, b, p, cp).unwrap(), _ => unreachable!() };
                        if o1 == "full" { break; } // the bounded buffer is exhausted: end of the comparable history
                        o2 = C::enc(&mut twin, b, p, cp).unwrap();
                    } else {
                        dr.push_str(&format!(" | dec {:x} {:x} {}", b, p, show_list(cdf.clone())));
                        crate::util::set_case(&dr);
                        o1 = match (fwd.as_mut(), rev.as_mut()) { (Some(c), _) => C::dec(c, b, p, &cdf).unwrap(), (_, Some(c)) => C::dec(c, b, p, &cdf).unwrap(), _ => unreachable!() };
                        o2 = C::dec(&mut twin, b, p, &cdf).unwrap();
                    }
                    rep.eval("C01");
                    let e1 = match (fwd.as_ref(), rev.as_ref()) { (Some(c), _) => c.is_empty(), (_, Some(c)) => c.is_empty(), _ => unreachable!() };
                    if o1 != o2 || e1 != twin.is_empty() {
                        bad = Some(format!("{} | empty => {} {} on the Cursor-backed coder but {} {} on a Vec-backed twin without conversions", dr, o1, e1, o2, twin.is_empty()));
                        break;
                    }
                }
                if bad.is_none() {
                    if rev.is_some() { dr.push_str(" | rev"); fwd = Some(rev.take().unwrap().into_reversed()); }
                    let c = fwd.take().unwrap();
                    let held: Vec<u128> = c.bulk().buf()[..c.bulk().pos()].iter().map(|&w| to_u128(w)).collect();
                    let (tb, ts) = twin.clone().into_raw_parts();
                    let tw: Vec<u128> = tb.iter().map(|&w| to_u128(w)).collect();
                    rep.eval("C01");
                    if held != tw || to_u128(c.state()) != to_u128(ts) {
                        bad = Some(format!("{} | raw => {} {:x} but a Vec-backed twin without conversions holds {} {:x}", dr, show_list(held), to_u128(c.state()), show_list(tw), to_u128(ts)));
                    }
                }
                if let Some(m) = bad { rep.fail("C01", m); }
                rep.sample("C01", || dr.clone());
            }
            // everything pushed before (and between) the failures still pops
            for &(mi, sym) in pushed.iter().rev() {
                let (b, p, cdf) = models[mi].clone();
                d9.push_str(&format!(" | dec {:x} {:x} {}", b, p, show_list(cdf.clone())));
                crate::util::set_case(&d9);
                let o = C::dec(&mut enc, b, p, &cdf).unwrap();
                if o != hex(sym as u128) {
                    rep.fail("C09", format!("{} => decoded {} expected {:x} after {} backend failures", d9, o, sym, failures));
                    break;
                }
            }
            rep.sample("C09", || d9.clone());
        }

        // ---- C12: size bound from an empty coder ----
        {
            let mut enc: AnsCoder<C::W, C::S> = AnsCoder::new();
            let n = match rng.next() % 40 { 0 => 4000, 1..=4 => 600, _ => (rng.next() % 80) as usize };
            // how symbols are drawn: uniformly, or systematically the last / the rarest symbol
            // of the model (large left cumulatives make rounding losses systematic)
            let strategy = rng.next() % 4;
            let mut bound_bits = (s + 2 * w) as f64; // constant stated by the property: S + 2W
            let mut d12 = format!("ans {:x} {:x} | new", w, s);
            for i in 0..n {
                let mi = (rng.next() % 3) as usize;
                let (b, p, cdf) = models[mi].clone();
                let sym = match strategy {
                    0 => cdf.len() - 2,
                    1 => {
                        let mut best = 0;
                        for j in 0..cdf.len() - 1 {
                            if cdf[j + 1] - cdf[j] <= cdf[best + 1] - cdf[best] {
                                best = j;
                            }
                        }
                        best
                    }
                    _ => rng.below(cdf.len() as u128 - 1) as usize,
                };
                C::enc_sym(&mut enc, b, p, &cdf, sym).unwrap();
                if n <= 80 || i < 40 {
                    d12.push_str(&format!(" | enc {:x} {:x} {:x} {:x}", b, p, cdf[sym], cdf[sym + 1] - cdf[sym]));
                } else if i == 40 {
                    d12.push_str(&format!(" | … ({} symbols in total, strategy {}, models {:?})", n, strategy, models));
                }
                let k = (s - w - p) as f64;
                bound_bits += p as f64 - ((cdf[sym + 1] - cdf[sym]) as f64).log2() + (1.0 + (-k).exp2()).log2();
                rep.eval("C12");
                let bits = enc.num_bits() as f64;
                let words = enc.num_words();
                if bits > bound_bits * (1.0 + 1e-9) + 1e-6 || words > (i + 1) + (s / w) as usize {
                    rep.fail("C12", format!("{} | nb | nw => {} bits, {} words after {} symbols; bound {:.6} bits, {} words", d12, bits, words, i + 1, bound_bits, (i + 1) + (s / w) as usize));
                    break;
                }
            }
            rep.sample("C12", || d12.clone());
        }

        // ---- C04 / C10 / C18: bits back from arbitrary binary data ----
        let n = (rng.next() % 6) as usize;
        let data = match rng.next() % 5 {
            0 => vec![0u128; n],
            1 => vec![pow2(w) - 1; n],
            _ => gen_words(rng, w, n),
        };
        let mut coder: AnsCoder<C::W, C::S> = AnsCoder::from_binary(words::<C::W>(&data)).unwrap();
        let mut d4 = format!("ans {:x} {:x} | binary {}", w, s, show_list(data.clone()));
        rep.eval("C04");
        rep.eval("C18");
        if coder.num_valid_bits() != n * w as usize {
            rep.fail("C18", format!("{} | nvb => {:x} expected {:x}", d4, coder.num_valid_bits(), n * w as usize));
            rep.fail("C04", format!("{} | nvb => {:x} expected {:x}", d4, coder.num_valid_bits(), n * w as usize));
        }
        let k = (rng.next() % 12) as usize;
        let mut popped: Vec<(usize, usize)> = Vec::new();
        let mut ok = true;
        for _ in 0..k {
            let mi = (rng.next() % 3) as usize;
            let (b, p, cdf) = models[mi].clone();
            d4.push_str(&format!(" | dec {:x} {:x} {}", b, p, show_list(cdf.clone())));
            let o = guarded(|| C::dec(&mut coder, b, p, &cdf).unwrap());
            rep.eval("C10");
            // the number of payload bits is exact at every moment, not only at the two ends: it is the bit
            // length of (bulk words, state) below the state's marker bit
            {
                let st = to_u128(coder.state());
                let expect = if st == 0 { 0 } else { coder.bulk().len() * w as usize + (128 - st.leading_zeros() as usize) - 1 };
                rep.eval("C04");
                rep.eval("C18");
                let got = guarded(|| coder.num_valid_bits());
                if got != Ok(expect) {
                    let msg = format!("{} | nvb => {:?} but the coder holds {} payload bits ({} bulk words, state {:x})", d4, got, expect, coder.bulk().len(), st);
                    rep.fail("C04", msg.clone());
                    rep.fail("C18", msg);
                    ok = false;
                    break;
                }
            }
            match o {
                Ok(o) => {
                    let sym = parse_hex(&o).map(|x| x as usize);
                    match sym {
                        Some(sym) if sym + 1 < cdf.len() => popped.push((mi, sym)),
                        _ => {
                            rep.fail("C10", format!("{} => decoded {} which is outside the model's support", d4, o));
                            ok = false;
                            break;
                        }
                    }
                }
                Err(class) => {
                    rep.fail("C10", format!("{} => {}", d4, class));
                    ok = false;
                    break;
                }
            }
        }
        if ok {
            for &(mi, sym) in popped.iter().rev() {
                let (b, p, cdf) = models[mi].clone();
                d4.push_str(&format!(" | enc {:x} {:x} {:x} {:x}", b, p, cdf[sym], cdf[sym + 1] - cdf[sym]));
                let o = C::enc_sym(&mut coder, b, p, &cdf, sym).unwrap();
                if o != "ok" {
                    rep.fail("C04", format!("{} => re-encode returned {}", d4, o));
                    ok = false;
                    break;
                }
            }
        }
        if ok {
            let borrowed: Option<Vec<u128>> = coder.get_binary().ok().map(|g| g.iter().map(|&x| to_u128(x)).collect());
            let consumed: Option<Vec<u128>> = coder.clone().into_binary().ok().map(|v| v.iter().map(|&x| to_u128(x)).collect());
            if borrowed.as_ref() != Some(&data) {
                rep.fail("C04", format!("{} | getb => {:?} expected {}", d4, borrowed.map(show_list), show_list(data.clone())));
            }
            if consumed.as_ref() != Some(&data) {
                rep.fail("C04", format!("{} | intob => {:?} expected {}", d4, consumed.map(show_list), show_list(data.clone())));
            }
            rep.sample("C04", || d4.clone());
        }
    }
}

pub fn oracle(rng: &mut Rng, tier: &str, rep: &mut Report) {
    let iters = if tier == "thorough" { 20000 } else { 1200 };
    for (w, s, bps) in combos() {
        match (w, s) {
            (8, 16) => oracle_combo::<C8x16>(rng, w, s, &bps, iters, rep),
            (8, 32) => oracle_combo::<C8x32>(rng, w, s, &bps, iters, rep),
            (8, 64) => oracle_combo::<C8x64>(rng, w, s, &bps, iters, rep),
            (16, 32) => oracle_combo::<C16x32>(rng, w, s, &bps, iters, rep),
            (16, 64) => oracle_combo::<C16x64>(rng, w, s, &bps, iters, rep),
            (32, 64) => oracle_combo::<C32x64>(rng, w, s, &bps, iters, rep),
            (32, 128) => oracle_combo::<C32x128>(rng, w, s, &bps, iters, rep),
            (64, 128) => oracle_combo::<C64x128>(rng, w, s, &bps, iters, rep),
            _ => {}
        }
    }
}
