//! Component `backend`: protocol runner (real code), case generator, implementation-level oracles.
//!
//! Protocol: `backend.<kind> W | init | op | op …` (see lean/CV/Driver/Backend.lean).
#![allow(unused)]
use crate::util::*;
use constriction::backends::{
    AsReadWords, AsSeekReadWords, BoundedReadWords, BoundedWriteWords, Cursor,
    FallibleCallbackWriteWords, FallibleIteratorReadWords, InfallibleCallbackWriteWords,
    InfallibleIteratorReadWords, IntoReadWords, IntoSeekReadWords, ReadWords, Reverse, SafeBuf,
    WriteWords,
};
use constriction::{Pos, Queue, Seek, Stack};
use smallvec::SmallVec;
use std::cell::RefCell;
use std::rc::Rc;

pub trait Wd: num_traits::PrimInt + std::fmt::Debug + 'static {}
impl Wd for u8 {}
impl Wd for u16 {}
impl Wd for u32 {}
impl Wd for u64 {}

#[derive(Clone, Debug)]
pub enum Op<W> {
    ReadS,
    ReadQ,
    Write(W),
    Extend(Vec<W>),
    RemS,
    RemQ,
    ExhS,
    ExhQ,
    SpaceLeft,
    Full,
    Pos,
    Seek(usize),
    IntoReversed,
    Roundtrip,
    Raw,
    BmSet(Vec<W>),
    BmTruncate(usize),
    /// 0 = `as_view`, 1 = `as_mut_view`, 2 = `cloned`: make it, run the program on it, drop it
    View(u8, Vec<Op<W>>),
    /// callbacks: `into_inner()`, call the callback directly, wrap it again
    IntoInner(W),
}

/// strict hex: only hex digits (no sign), value below 2^128 — exactly what the Lean driver accepts
fn ph(s: &str) -> Option<u128> {
    if s.is_empty() || !s.bytes().all(|b| b.is_ascii_hexdigit()) {
        return None;
    }
    u128::from_str_radix(s, 16).ok()
}

fn pl(s: &str) -> Option<Vec<u128>> {
    if s == "-" {
        return Some(vec![]);
    }
    s.split(',').map(ph).collect()
}

fn parse_usize(s: &str) -> Option<usize> {
    let v = ph(s)?;
    if v > u64::MAX as u128 {
        None
    } else {
        Some(v as usize)
    }
}

fn parse_words<W: Wd>(s: &str) -> Option<Vec<W>> {
    Some(pl(s)?.into_iter().map(from_u128::<W>).collect())
}

fn parse_op<W: Wd>(seg: &[&str]) -> Option<Op<W>> {
    Some(match seg {
        ["read_s"] => Op::ReadS,
        ["read_q"] => Op::ReadQ,
        ["write", w] => Op::Write(from_u128(ph(w)?)),
        ["extend_from_iter", ws] => Op::Extend(parse_words(ws)?),
        ["remaining_s"] => Op::RemS,
        ["remaining_q"] => Op::RemQ,
        ["exhausted_s"] => Op::ExhS,
        ["exhausted_q"] => Op::ExhQ,
        ["space_left"] => Op::SpaceLeft,
        ["full"] => Op::Full,
        ["pos"] => Op::Pos,
        ["seek", n] => Op::Seek(parse_usize(n)?),
        ["into_reversed"] => Op::IntoReversed,
        ["roundtrip"] => Op::Roundtrip,
        ["raw"] => Op::Raw,
        ["bm_set", ws] => Op::BmSet(parse_words(ws)?),
        ["bm_truncate", n] => Op::BmTruncate(parse_usize(n)?),
        ["as_view", pr] => Op::View(0, parse_prog(pr)?),
        ["as_mut_view", pr] => Op::View(1, parse_prog(pr)?),
        ["cloned", pr] => Op::View(2, parse_prog(pr)?),
        ["into_inner", w] => Op::IntoInner(from_u128(ph(w)?)),
        _ => return None,
    })
}

/// sub-op of a view program: `name` or `name:arg` (lists inside with `.`)
fn parse_sub_op<W: Wd>(t: &str) -> Option<Op<W>> {
    let parts: Vec<&str> = t.split(':').collect();
    Some(match parts.as_slice() {
        ["read_s"] => Op::ReadS,
        ["read_q"] => Op::ReadQ,
        ["write", w] => Op::Write(from_u128(ph(w)?)),
        ["extend_from_iter", ws] => {
            if *ws == "-" {
                Op::Extend(vec![])
            } else {
                Op::Extend(ws.split('.').map(|t| ph(t).map(from_u128::<W>)).collect::<Option<Vec<W>>>()?)
            }
        }
        ["remaining_s"] => Op::RemS,
        ["remaining_q"] => Op::RemQ,
        ["exhausted_s"] => Op::ExhS,
        ["exhausted_q"] => Op::ExhQ,
        ["space_left"] => Op::SpaceLeft,
        ["full"] => Op::Full,
        ["pos"] => Op::Pos,
        ["seek", n] => Op::Seek(parse_usize(n)?),
        ["into_reversed"] => Op::IntoReversed,
        ["raw"] => Op::Raw,
        _ => return None,
    })
}

fn parse_prog<W: Wd>(s: &str) -> Option<Vec<Op<W>>> {
    if s == "-" {
        return Some(vec![]);
    }
    s.split(',').map(parse_sub_op::<W>).collect()
}

fn show_sub_op<W: Wd>(op: &Op<W>) -> String {
    match op {
        Op::Write(w) => format!("write:{:x}", to_u128(*w)),
        Op::Extend(ws) => {
            if ws.is_empty() {
                "extend_from_iter:-".into()
            } else {
                format!("extend_from_iter:{}", ws.iter().map(|w| hex(to_u128(*w))).collect::<Vec<_>>().join("."))
            }
        }
        Op::Seek(n) => format!("seek:{:x}", n),
        other => show_op(other),
    }
}

fn show_prog<W: Wd>(prog: &[Op<W>]) -> String {
    if prog.is_empty() {
        "-".into()
    } else {
        prog.iter().map(show_sub_op).collect::<Vec<_>>().join(",")
    }
}

fn show_op<W: Wd>(op: &Op<W>) -> String {
    match op {
        Op::ReadS => "read_s".into(),
        Op::ReadQ => "read_q".into(),
        Op::Write(w) => format!("write {:x}", to_u128(*w)),
        Op::Extend(ws) => format!("extend_from_iter {}", show_ws(ws)),
        Op::RemS => "remaining_s".into(),
        Op::RemQ => "remaining_q".into(),
        Op::ExhS => "exhausted_s".into(),
        Op::ExhQ => "exhausted_q".into(),
        Op::SpaceLeft => "space_left".into(),
        Op::Full => "full".into(),
        Op::Pos => "pos".into(),
        Op::Seek(n) => format!("seek {:x}", n),
        Op::IntoReversed => "into_reversed".into(),
        Op::Roundtrip => "roundtrip".into(),
        Op::Raw => "raw".into(),
        Op::BmSet(ws) => format!("bm_set {}", show_ws(ws)),
        Op::BmTruncate(n) => format!("bm_truncate {:x}", n),
        Op::View(k, prog) => format!("{} {}", ["as_view", "as_mut_view", "cloned"][*k as usize], show_prog(prog)),
        Op::IntoInner(w) => format!("into_inner {:x}", to_u128(*w)),
    }
}

fn show_ws<W: Wd>(ws: &[W]) -> String {
    show_list(ws.iter().map(|&w| to_u128(w)))
}

fn show_word<W: Wd>(o: Option<W>) -> String {
    match o {
        Some(w) => hex(to_u128(w)),
        None => "none".into(),
    }
}

fn okerr<E>(r: Result<(), E>, e: &str) -> String {
    match r {
        Ok(()) => "ok".into(),
        Err(_) => e.into(),
    }
}

const UNSUP: &str = "unsupported";

/// a backend behind the protocol; `op` consumes and returns the (possibly differently typed) state
pub trait Dyn<W: Wd> {
    fn op(self: Box<Self>, op: &Op<W>) -> (String, Box<dyn Dyn<W>>);
    fn dup(&self) -> Box<dyn Dyn<W>>;
}

// ---------------------------------------------------------------------------------------
// Vec / SmallVec

struct VecB<W>(Vec<W>);
struct SmallB<W: Wd>(SmallVec<[W; 4]>);

macro_rules! stack_ops {
    ($self:ident, $op:ident, $W:ident, $tag:literal, $extra:expr) => {{
        let v = &mut $self.0;
        let s = match $op {
            Op::ReadS => show_word(<_ as ReadWords<$W, Stack>>::read(v).unwrap()),
            Op::Write(w) => okerr(v.write(*w), "werr"),
            Op::Extend(ws) => {
                let mut it = ws.clone().into_iter();
                let r = v.extend_from_iter(&mut it);
                if it.len() != 0 {
                    format!("leftover {:x}", it.len())
                } else {
                    okerr(r, "werr")
                }
            }
            Op::RemS => hex(<_ as BoundedReadWords<$W, Stack>>::remaining(v) as u128),
            Op::ExhS => format!(
                "{} {}",
                <_ as BoundedReadWords<$W, Stack>>::is_exhausted(v),
                <_ as ReadWords<$W, Stack>>::maybe_exhausted(v)
            ),
            Op::Full => format!("{}", <_ as WriteWords<$W>>::maybe_full(v)),
            Op::Pos => hex(Pos::pos(v) as u128),
            Op::Seek(p) => okerr(Seek::seek(v, *p), "err"),
            Op::Raw => format!("{} {} {:x}", $tag, show_ws(&v[..]), $extra(v)),
            _ => UNSUP.into(),
        };
        (s, $self as Box<dyn Dyn<$W>>)
    }};
}

impl<W: Wd> Dyn<W> for VecB<W> {
    fn op(mut self: Box<Self>, op: &Op<W>) -> (String, Box<dyn Dyn<W>>) {
        stack_ops!(self, op, W, "vec", |_v: &Vec<W>| 0)
    }
    fn dup(&self) -> Box<dyn Dyn<W>> {
        Box::new(VecB(self.0.clone()))
    }
}

impl<W: Wd> Dyn<W> for SmallB<W> {
    fn op(mut self: Box<Self>, op: &Op<W>) -> (String, Box<dyn Dyn<W>>) {
        stack_ops!(self, op, W, "smallvec", |v: &SmallVec<[W; 4]>| v.spilled() as u32)
    }
    fn dup(&self) -> Box<dyn Dyn<W>> {
        Box::new(SmallB(self.0.clone()))
    }
}

// ---------------------------------------------------------------------------------------
// Cursor / Reverse<Cursor> over the four buffer types

pub trait BufK<W: Wd>: SafeBuf<W> + Sized + 'static {
    fn from_vec(v: Vec<W>) -> Self;
    /// what safe code does through `buf_mut()` to shorten the buffer
    fn truncate(&mut self, n: usize) {
        let v: Vec<W> = self.as_ref().iter().take(n).cloned().collect();
        *self = Self::from_vec(v);
    }
}
impl<W: Wd> BufK<W> for Vec<W> {
    fn from_vec(v: Vec<W>) -> Self {
        v
    }
    fn truncate(&mut self, n: usize) {
        Vec::truncate(self, n)
    }
}
impl<W: Wd> BufK<W> for Box<[W]> {
    fn from_vec(v: Vec<W>) -> Self {
        v.into_boxed_slice()
    }
}
impl<W: Wd> BufK<W> for &'static mut [W] {
    fn from_vec(v: Vec<W>) -> Self {
        v.leak()
    }
}
impl<W: Wd> BufK<W> for &'static [W] {
    fn from_vec(v: Vec<W>) -> Self {
        v.leak()
    }
}

fn cur_ro<W: Wd, Buf: SafeBuf<W>>(c: &mut Cursor<W, Buf>, op: &Op<W>) -> Option<String> {
    Some(match op {
        Op::ReadS => show_word(<_ as ReadWords<W, Stack>>::read(c).unwrap()),
        Op::ReadQ => show_word(<_ as ReadWords<W, Queue>>::read(c).unwrap()),
        Op::RemS => hex(<_ as BoundedReadWords<W, Stack>>::remaining(c) as u128),
        Op::RemQ => hex(<_ as BoundedReadWords<W, Queue>>::remaining(c) as u128),
        Op::ExhS => format!(
            "{} {}",
            <_ as BoundedReadWords<W, Stack>>::is_exhausted(c),
            <_ as ReadWords<W, Stack>>::maybe_exhausted(c)
        ),
        Op::ExhQ => format!(
            "{} {}",
            <_ as BoundedReadWords<W, Queue>>::is_exhausted(c),
            <_ as ReadWords<W, Queue>>::maybe_exhausted(c)
        ),
        Op::Pos => hex(c.pos() as u128),
        Op::Seek(p) => okerr(c.seek(*p), "err"),
        Op::Raw => format!("fwd {} {:x}", show_ws(c.buf().as_ref()), c.pos()),
        _ => return None,
    })
}

/// `buf_mut()` misuse and the ops that make a temporary view / copy
fn cur_extra<W: Wd, Buf: BufK<W>>(c: &mut Cursor<W, Buf>, op: &Op<W>) -> Option<String> {
    Some(match op {
        Op::BmSet(ws) => {
            *c.buf_mut() = Buf::from_vec(ws.clone());
            "ok".into()
        }
        Op::BmTruncate(n) => {
            c.buf_mut().truncate(*n);
            "ok".into()
        }
        Op::View(0, prog) => show_outs(view_prog_ro(c.as_view(), prog)),
        Op::View(2, prog) => show_outs(view_prog_rw(c.cloned(), prog)),
        _ => return None,
    })
}

fn show_outs(v: Vec<String>) -> String {
    format!("[{}]", v.join(" ; "))
}

/// run a program on a temporary read-only cursor (`as_view`)
fn view_prog_ro<W: Wd, Buf: SafeBuf<W>>(mut c: Cursor<W, Buf>, prog: &[Op<W>]) -> Vec<String> {
    prog.iter().map(|op| cur_ro(&mut c, op).unwrap_or(UNSUP.into())).collect()
}

enum VSt<W, Buf> {
    F(Cursor<W, Buf>),
    R(Reverse<Cursor<W, Buf>>),
}

/// run a program on a temporary writable cursor (`as_mut_view`, `cloned`)
fn view_prog_rw<W: Wd, Buf: SafeBuf<W> + AsMut<[W]>>(c: Cursor<W, Buf>, prog: &[Op<W>]) -> Vec<String> {
    let mut st = VSt::F(c);
    let mut outs = Vec::new();
    for op in prog {
        st = match st {
            VSt::F(mut c) => {
                if let Some(s) = cur_ro(&mut c, op) {
                    outs.push(s);
                    VSt::F(c)
                } else {
                    match op {
                        Op::Write(w) => outs.push(okerr(c.write(*w), "full")),
                        Op::Extend(ws) => outs.push(extend_out(&mut c, ws)),
                        Op::SpaceLeft => outs.push(hex(c.space_left() as u128)),
                        Op::Full => outs.push(format!("{} {}", c.is_full(), c.maybe_full())),
                        Op::IntoReversed => {
                            outs.push("ok".into());
                            st = VSt::R(c.into_reversed());
                            continue;
                        }
                        _ => outs.push(UNSUP.into()),
                    }
                    VSt::F(c)
                }
            }
            VSt::R(mut r) => {
                if let Some(s) = rev_ro(&mut r, op) {
                    outs.push(s);
                    VSt::R(r)
                } else {
                    match op {
                        Op::Write(w) => outs.push(okerr(r.write(*w), "full")),
                        Op::Extend(ws) => outs.push(extend_out(&mut r, ws)),
                        Op::SpaceLeft => outs.push(hex(r.space_left() as u128)),
                        Op::Full => outs.push(format!("{} {}", r.is_full(), r.maybe_full())),
                        Op::IntoReversed => {
                            outs.push("ok".into());
                            st = VSt::F(r.into_reversed());
                            continue;
                        }
                        _ => outs.push(UNSUP.into()),
                    }
                    VSt::R(r)
                }
            }
        };
    }
    outs
}

fn rev_ro<W: Wd, Buf: SafeBuf<W>>(r: &mut Reverse<Cursor<W, Buf>>, op: &Op<W>) -> Option<String> {
    Some(match op {
        Op::ReadS => show_word(<_ as ReadWords<W, Stack>>::read(r).unwrap()),
        Op::ReadQ => show_word(<_ as ReadWords<W, Queue>>::read(r).unwrap()),
        Op::RemS => hex(<_ as BoundedReadWords<W, Stack>>::remaining(r) as u128),
        Op::RemQ => hex(<_ as BoundedReadWords<W, Queue>>::remaining(r) as u128),
        Op::ExhS => format!(
            "{} {}",
            <_ as BoundedReadWords<W, Stack>>::is_exhausted(r),
            <_ as ReadWords<W, Stack>>::maybe_exhausted(r)
        ),
        Op::ExhQ => format!(
            "{} {}",
            <_ as BoundedReadWords<W, Queue>>::is_exhausted(r),
            <_ as ReadWords<W, Queue>>::maybe_exhausted(r)
        ),
        Op::Pos => hex(r.pos() as u128),
        Op::Seek(p) => okerr(r.seek(*p), "err"),
        Op::Raw => format!("rev {} {:x}", show_ws(r.0.buf().as_ref()), r.0.pos()),
        _ => return None,
    })
}

fn extend_out<W: Wd, B: WriteWords<W>>(b: &mut B, ws: &[W]) -> String {
    let mut it = ws.to_vec().into_iter();
    match b.extend_from_iter(&mut it) {
        Ok(()) => {
            if it.len() != 0 {
                format!("leftover {:x}", it.len())
            } else {
                "ok".into()
            }
        }
        Err(_) => format!("full {:x}", it.len()),
    }
}


/// would `new_at_pos(buf, pos)` accept the current parts?  (asked on a copy, because the real
/// roundtrip consumes the cursor and a refusal would drop the buffer)
fn roundtrip_refused<W: Wd, Buf: BufK<W>>(c: &Cursor<W, Buf>) -> bool {
    Cursor::<W, Buf>::new_at_pos(Buf::from_vec(c.buf().as_ref().to_vec()), c.pos()).is_err()
}

struct CurRW<W, Buf>(Cursor<W, Buf>);
struct RevRW<W, Buf>(Reverse<Cursor<W, Buf>>);
struct CurRO<W: 'static>(Cursor<W, &'static [W]>);
struct RevRO<W: 'static>(Reverse<Cursor<W, &'static [W]>>);

fn rebuild<W: Wd, Buf: BufK<W>>(c: &Cursor<W, Buf>) -> Cursor<W, Buf> {
    Cursor::new_at_pos(Buf::from_vec(c.buf().as_ref().to_vec()), c.pos())
        .expect("dup of a cursor whose invariant is broken")
}

impl<W: Wd, Buf: BufK<W> + AsMut<[W]>> Dyn<W> for CurRW<W, Buf> {
    fn op(mut self: Box<Self>, op: &Op<W>) -> (String, Box<dyn Dyn<W>>) {
        if let Some(s) = cur_ro(&mut self.0, op).or_else(|| cur_extra(&mut self.0, op)) {
            return (s, self);
        }
        if let Op::View(1, prog) = op {
            let s = show_outs(view_prog_rw(self.0.as_mut_view(), prog));
            return (s, self);
        }
        let c = &mut self.0;
        let s = match op {
            Op::Write(w) => okerr(c.write(*w), "full"),
            Op::Extend(ws) => extend_out(c, ws),
            Op::SpaceLeft => hex(c.space_left() as u128),
            Op::Full => format!("{} {}", c.is_full(), c.maybe_full()),
            Op::IntoReversed => {
                let r = self.0.into_reversed();
                return ("ok".into(), Box::new(RevRW(r)));
            }
            Op::Roundtrip => {
                if roundtrip_refused(&self.0) {
                    return ("err".into(), self);
                }
                let (buf, pos) = self.0.into_buf_and_pos();
                return match Cursor::new_at_pos(buf, pos) {
                    Ok(c) => ("ok".into(), Box::new(CurRW(c))),
                    Err(()) => panic!("roundtrip refused"),
                };
            }
            _ => UNSUP.into(),
        };
        (s, self)
    }
    fn dup(&self) -> Box<dyn Dyn<W>> {
        Box::new(CurRW(rebuild(&self.0)))
    }
}

impl<W: Wd, Buf: BufK<W> + AsMut<[W]>> Dyn<W> for RevRW<W, Buf> {
    fn op(mut self: Box<Self>, op: &Op<W>) -> (String, Box<dyn Dyn<W>>) {
        if let Some(s) = rev_ro(&mut self.0, op).or_else(|| cur_extra(&mut self.0 .0, op)) {
            return (s, self);
        }
        if let Op::View(1, prog) = op {
            let s = show_outs(view_prog_rw(self.0 .0.as_mut_view(), prog));
            return (s, self);
        }
        let r = &mut self.0;
        let s = match op {
            Op::Write(w) => okerr(r.write(*w), "full"),
            Op::Extend(ws) => extend_out(r, ws),
            Op::SpaceLeft => hex(r.space_left() as u128),
            Op::Full => format!("{} {}", r.is_full(), r.maybe_full()),
            Op::IntoReversed => {
                let c = self.0.into_reversed();
                return ("ok".into(), Box::new(CurRW(c)));
            }
            Op::Roundtrip => {
                if roundtrip_refused(&self.0 .0) {
                    return ("err".into(), self);
                }
                let (buf, pos) = self.0 .0.into_buf_and_pos();
                return match Cursor::new_at_pos(buf, pos) {
                    Ok(c) => ("ok".into(), Box::new(RevRW(Reverse(c)))),
                    Err(()) => panic!("roundtrip refused"),
                };
            }
            _ => UNSUP.into(),
        };
        (s, self)
    }
    fn dup(&self) -> Box<dyn Dyn<W>> {
        Box::new(RevRW(Reverse(rebuild(&self.0 .0))))
    }
}

impl<W: Wd> Dyn<W> for CurRO<W> {
    fn op(mut self: Box<Self>, op: &Op<W>) -> (String, Box<dyn Dyn<W>>) {
        if let Some(s) = cur_ro(&mut self.0, op).or_else(|| cur_extra(&mut self.0, op)) {
            return (s, self);
        }
        if let Op::Roundtrip = op {
            if roundtrip_refused(&self.0) {
                return ("err".into(), self);
            }
            let (buf, pos) = self.0.into_buf_and_pos();
            return match Cursor::new_at_pos(buf, pos) {
                Ok(c) => ("ok".into(), Box::new(CurRO(c))),
                Err(()) => panic!("roundtrip refused"),
            };
        }
        (UNSUP.into(), self)
    }
    fn dup(&self) -> Box<dyn Dyn<W>> {
        Box::new(CurRO(clone_both_cursor(&self.0)))
    }
}

impl<W: Wd> Dyn<W> for RevRO<W> {
    fn op(mut self: Box<Self>, op: &Op<W>) -> (String, Box<dyn Dyn<W>>) {
        if let Some(s) = rev_ro(&mut self.0, op).or_else(|| cur_extra(&mut self.0 .0, op)) {
            return (s, self);
        }
        if let Op::Roundtrip = op {
            if roundtrip_refused(&self.0 .0) {
                return ("err".into(), self);
            }
            let (buf, pos) = self.0 .0.into_buf_and_pos();
            return match Cursor::new_at_pos(buf, pos) {
                Ok(c) => ("ok".into(), Box::new(RevRO(Reverse(c)))),
                Err(()) => panic!("roundtrip refused"),
            };
        }
        (UNSUP.into(), self)
    }
    fn dup(&self) -> Box<dyn Dyn<W>> {
        Box::new(RevRO(Reverse(clone_both_cursor(&self.0 .0))))
    }
}


/// both forms of `Clone` for cursors: `clone()`, then `clone_from()` into a cursor over another
/// buffer at another position (a type may override `clone_from`)
fn clone_both_cursor<W: Wd, B: Clone + AsRef<[W]>>(c: &Cursor<W, B>) -> Cursor<W, B> {
    let copy = c.clone();
    let len = c.buf().as_ref().len();
    let mut other = copy.clone();
    let _ = constriction::Seek::seek(&mut other, if constriction::Pos::pos(c) == 0 { len } else { 0 });
    other.clone_from(&copy);
    other
}

// ---------------------------------------------------------------------------------------
// iterator adapters

/// A deliberately non-fused iterator: yields the scripted `next()` results, `None` afterwards.
#[derive(Clone, Debug)]
pub struct Script<W> {
    items: Vec<Option<Result<W, ()>>>,
    idx: usize,
}
impl<W: Wd> Iterator for Script<W> {
    type Item = Result<W, ()>;
    fn next(&mut self) -> Option<Self::Item> {
        if self.idx < self.items.len() {
            let r = self.items[self.idx].clone();
            self.idx += 1;
            r
        } else {
            None
        }
    }
    fn size_hint(&self) -> (usize, Option<usize>) {
        let k = self.items[self.idx.min(self.items.len())..]
            .iter()
            .take_while(|x| x.is_some())
            .count();
        (k, Some(k))
    }
}
impl<W: Wd> ExactSizeIterator for Script<W> {}

/// Like `Script` but with a legal, deliberately inexact `size_hint`:
/// `(actual - lo_slack, actual + hi_slack)` (`hi_slack = None`: no upper bound), where `actual` is
/// the number of items before the next `None`.  Not an `ExactSizeIterator`.
#[derive(Clone, Debug)]
pub struct Loose<W> {
    inner: Script<W>,
    lo_slack: usize,
    hi_slack: Option<usize>,
}
impl<W: Wd> Iterator for Loose<W> {
    type Item = Result<W, ()>;
    fn next(&mut self) -> Option<Self::Item> {
        self.inner.next()
    }
    fn size_hint(&self) -> (usize, Option<usize>) {
        let actual = self.inner.size_hint().0;
        (actual.saturating_sub(self.lo_slack), self.hi_slack.map(|h| actual.saturating_add(h)))
    }
}

struct IterFL<W: Wd>(FallibleIteratorReadWords<Loose<W>>);
struct IterIL<W: Wd>(InfallibleIteratorReadWords<Loose<W>>);

impl<W: Wd> Dyn<W> for IterFL<W> {
    fn op(mut self: Box<Self>, op: &Op<W>) -> (String, Box<dyn Dyn<W>>) {
        let r = &mut self.0;
        let rd = |x: Result<Option<W>, ()>| match x {
            Ok(o) => show_word(o),
            Err(()) => "readerr".into(),
        };
        let s = match op {
            Op::ReadS => rd(<_ as ReadWords<W, Stack>>::read(r)),
            Op::ReadQ => rd(<_ as ReadWords<W, Queue>>::read(r)),
            Op::ExhS => format!("{}", <_ as ReadWords<W, Stack>>::maybe_exhausted(r)),
            Op::ExhQ => format!("{}", <_ as ReadWords<W, Queue>>::maybe_exhausted(r)),
            Op::Raw => show_items(&r.clone().into_iter().collect::<Vec<_>>()),
            _ => UNSUP.into(),
        };
        (s, self)
    }
    fn dup(&self) -> Box<dyn Dyn<W>> {
        Box::new(IterFL(self.0.clone()))
    }
}

impl<W: Wd> Dyn<W> for IterIL<W> {
    fn op(mut self: Box<Self>, op: &Op<W>) -> (String, Box<dyn Dyn<W>>) {
        let r = &mut self.0;
        type Wr<W> = Result<W, ()>;
        let rd = |x: Option<Wr<W>>| match x {
            Some(i) => show_item(&i),
            None => "none".into(),
        };
        let s = match op {
            Op::ReadS => rd(<_ as ReadWords<Wr<W>, Stack>>::read(r).unwrap()),
            Op::ReadQ => rd(<_ as ReadWords<Wr<W>, Queue>>::read(r).unwrap()),
            Op::ExhS => format!("{}", <_ as ReadWords<Wr<W>, Stack>>::maybe_exhausted(r)),
            Op::ExhQ => format!("{}", <_ as ReadWords<Wr<W>, Queue>>::maybe_exhausted(r)),
            Op::Raw => show_items(&r.clone().into_iter().collect::<Vec<_>>()),
            _ => UNSUP.into(),
        };
        (s, self)
    }
    fn dup(&self) -> Box<dyn Dyn<W>> {
        Box::new(IterIL(self.0.clone()))
    }
}

fn show_item<W: Wd>(i: &Result<W, ()>) -> String {
    match i {
        Ok(w) => hex(to_u128(*w)),
        Err(()) => "x".into(),
    }
}
fn show_items<W: Wd>(v: &[Result<W, ()>]) -> String {
    if v.is_empty() {
        "-".into()
    } else {
        v.iter().map(show_item).collect::<Vec<_>>().join(",")
    }
}

struct IterF<W: Wd>(FallibleIteratorReadWords<Script<W>>);
struct IterI<W: Wd>(InfallibleIteratorReadWords<Script<W>>);

impl<W: Wd> Dyn<W> for IterF<W> {
    fn op(mut self: Box<Self>, op: &Op<W>) -> (String, Box<dyn Dyn<W>>) {
        let r = &mut self.0;
        let rd = |x: Result<Option<W>, ()>| match x {
            Ok(o) => show_word(o),
            Err(()) => "readerr".into(),
        };
        let s = match op {
            Op::ReadS => rd(<_ as ReadWords<W, Stack>>::read(r)),
            Op::ReadQ => rd(<_ as ReadWords<W, Queue>>::read(r)),
            Op::RemS => hex(<_ as BoundedReadWords<W, Stack>>::remaining(r) as u128),
            Op::RemQ => hex(<_ as BoundedReadWords<W, Queue>>::remaining(r) as u128),
            Op::ExhS => format!(
                "{} {}",
                <_ as BoundedReadWords<W, Stack>>::is_exhausted(r),
                <_ as ReadWords<W, Stack>>::maybe_exhausted(r)
            ),
            Op::ExhQ => format!(
                "{} {}",
                <_ as BoundedReadWords<W, Queue>>::is_exhausted(r),
                <_ as ReadWords<W, Queue>>::maybe_exhausted(r)
            ),
            Op::Raw => show_items(&r.clone().into_iter().collect::<Vec<_>>()),
            _ => UNSUP.into(),
        };
        (s, self)
    }
    fn dup(&self) -> Box<dyn Dyn<W>> {
        Box::new(IterF(self.0.clone()))
    }
}

impl<W: Wd> Dyn<W> for IterI<W> {
    fn op(mut self: Box<Self>, op: &Op<W>) -> (String, Box<dyn Dyn<W>>) {
        let r = &mut self.0;
        // the "words" of this adapter are the `Result`s themselves (see the model's comment)
        type Wr<W> = Result<W, ()>;
        let rd = |x: Option<Wr<W>>| match x {
            Some(i) => show_item(&i),
            None => "none".into(),
        };
        let s = match op {
            Op::ReadS => rd(<_ as ReadWords<Wr<W>, Stack>>::read(r).unwrap()),
            Op::ReadQ => rd(<_ as ReadWords<Wr<W>, Queue>>::read(r).unwrap()),
            Op::RemS => hex(<_ as BoundedReadWords<Wr<W>, Stack>>::remaining(r) as u128),
            Op::RemQ => hex(<_ as BoundedReadWords<Wr<W>, Queue>>::remaining(r) as u128),
            Op::ExhS => format!(
                "{} {}",
                <_ as BoundedReadWords<Wr<W>, Stack>>::is_exhausted(r),
                <_ as ReadWords<Wr<W>, Stack>>::maybe_exhausted(r)
            ),
            Op::ExhQ => format!(
                "{} {}",
                <_ as BoundedReadWords<Wr<W>, Queue>>::is_exhausted(r),
                <_ as ReadWords<Wr<W>, Queue>>::maybe_exhausted(r)
            ),
            Op::Raw => show_items(&r.clone().into_iter().collect::<Vec<_>>()),
            _ => UNSUP.into(),
        };
        (s, self)
    }
    fn dup(&self) -> Box<dyn Dyn<W>> {
        Box::new(IterI(self.0.clone()))
    }
}

// ---------------------------------------------------------------------------------------
// callback adapters

#[derive(Clone, Default)]
struct CbState<W> {
    log: Vec<W>,
    calls: u128,
    fail_at: Vec<u128>,
}

type FCb<W> = Box<dyn FnMut(W) -> Result<(), ()>>;
type ICb<W> = Box<dyn FnMut(W)>;

struct CbF<W: Wd>(FallibleCallbackWriteWords<FCb<W>>, Rc<RefCell<CbState<W>>>);
struct CbI<W: Wd>(InfallibleCallbackWriteWords<ICb<W>>, Rc<RefCell<CbState<W>>>);

fn mk_cbf<W: Wd>(st: CbState<W>) -> CbF<W> {
    let st = Rc::new(RefCell::new(st));
    let s2 = st.clone();
    let f: FCb<W> = Box::new(move |w: W| {
        let mut s = s2.borrow_mut();
        let n = s.calls;
        s.calls += 1;
        if s.fail_at.contains(&n) {
            Err(())
        } else {
            s.log.push(w);
            Ok(())
        }
    });
    CbF(FallibleCallbackWriteWords::new(f), st)
}
fn mk_cbi<W: Wd>(st: CbState<W>) -> CbI<W> {
    let st = Rc::new(RefCell::new(st));
    let s2 = st.clone();
    let f: ICb<W> = Box::new(move |w: W| {
        let mut s = s2.borrow_mut();
        s.calls += 1;
        s.log.push(w);
    });
    CbI(InfallibleCallbackWriteWords::new(f), st)
}

fn cb_extend<W: Wd, B: WriteWords<W>>(b: &mut B, ws: &[W]) -> String {
    let mut it = ws.to_vec().into_iter();
    match b.extend_from_iter(&mut it) {
        Ok(()) => {
            if it.len() != 0 {
                format!("leftover {:x}", it.len())
            } else {
                "ok".into()
            }
        }
        Err(_) => format!("cberr {:x}", it.len()),
    }
}

impl<W: Wd> Dyn<W> for CbF<W> {
    fn op(mut self: Box<Self>, op: &Op<W>) -> (String, Box<dyn Dyn<W>>) {
        if let Op::IntoInner(w) = op {
            let CbF(adapter, st) = *self;
            let mut callback = adapter.into_inner();
            let r = okerr(callback(*w), "cberr");
            return (r, Box::new(CbF(FallibleCallbackWriteWords::new(callback), st)));
        }
        let s = match op {
            Op::Write(w) => okerr(self.0.write(*w), "cberr"),
            Op::Extend(ws) => cb_extend(&mut self.0, ws),
            Op::Full => format!("{}", self.0.maybe_full()),
            Op::Raw => {
                let st = self.1.borrow();
                format!("cb {} {:x}", show_ws(&st.log), st.calls)
            }
            _ => UNSUP.into(),
        };
        (s, self)
    }
    fn dup(&self) -> Box<dyn Dyn<W>> {
        Box::new(mk_cbf(self.1.borrow().clone()))
    }
}
impl<W: Wd> Dyn<W> for CbI<W> {
    fn op(mut self: Box<Self>, op: &Op<W>) -> (String, Box<dyn Dyn<W>>) {
        if let Op::IntoInner(w) = op {
            let CbI(adapter, st) = *self;
            let mut callback = adapter.into_inner();
            callback(*w);
            return ("ok".into(), Box::new(CbI(InfallibleCallbackWriteWords::new(callback), st)));
        }
        let s = match op {
            Op::Write(w) => okerr(self.0.write(*w), "cberr"),
            Op::Extend(ws) => cb_extend(&mut self.0, ws),
            Op::Full => format!("{}", self.0.maybe_full()),
            Op::Raw => {
                let st = self.1.borrow();
                format!("cb {} {:x}", show_ws(&st.log), st.calls)
            }
            _ => UNSUP.into(),
        };
        (s, self)
    }
    fn dup(&self) -> Box<dyn Dyn<W>> {
        Box::new(mk_cbi(self.1.borrow().clone()))
    }
}

// ---------------------------------------------------------------------------------------
// construction and the runner

fn parse_script<W: Wd>(s: &str) -> Option<Vec<Option<Result<W, ()>>>> {
    if s == "-" {
        return Some(vec![]);
    }
    s.split(',')
        .map(|t| match t {
            "x" => Some(Some(Err(()))),
            "_" => Some(None),
            _ => ph(t).map(|v| Some(Ok(from_u128::<W>(v)))),
        })
        .collect()
}

enum Init<W: Wd> {
    Bad,
    Refused,
    Ok(Box<dyn Dyn<W>>),
}

/// constructors that need `Buf: AsMut<[W]>`
fn cursor_init_mut<W: Wd, Buf: BufK<W> + AsMut<[W]>>(seg: &[&str]) -> Option<Result<Cursor<W, Buf>, ()>> {
    Some(match seg {
        ["at_mut", ws, p] => {
            let l = parse_words::<W>(ws)?;
            let p = parse_usize(p)?;
            Cursor::new_at_pos_mut(Buf::from_vec(l), p)
        }
        ["end_mut", ws] => Ok(Cursor::new_at_write_end_mut(Buf::from_vec(parse_words::<W>(ws)?))),
        _ => return None,
    })
}

/// `AsReadWords` / `AsSeekReadWords` of a `Vec<W>`: a cursor over a borrowed slice
fn cursor_init_as<W: Wd>(seg: &[&str]) -> Option<Result<Cursor<W, &'static [W]>, ()>> {
    let leak = |ws: &str| -> Option<&'static Vec<W>> { Some(Box::leak(Box::new(parse_words::<W>(ws)?))) };
    Some(Ok(match seg {
        ["as_read_s", ws] => <Vec<W> as AsReadWords<'static, W, Stack>>::as_read_words(leak(ws)?),
        ["as_read_q", ws] => <Vec<W> as AsReadWords<'static, W, Queue>>::as_read_words(leak(ws)?),
        ["as_seek_read_s", ws] => <Vec<W> as AsSeekReadWords<'static, W, Stack>>::as_seek_read_words(leak(ws)?),
        ["as_seek_read_q", ws] => <Vec<W> as AsSeekReadWords<'static, W, Queue>>::as_seek_read_words(leak(ws)?),
        _ => return None,
    }))
}

fn cursor_init<W: Wd, Buf: BufK<W>>(seg: &[&str]) -> Option<Result<Cursor<W, Buf>, ()>> {
    Some(match seg {
        ["into_read_s", ws] => Ok(<Buf as IntoReadWords<W, Stack>>::into_read_words(Buf::from_vec(parse_words::<W>(ws)?))),
        ["into_read_q", ws] => Ok(<Buf as IntoReadWords<W, Queue>>::into_read_words(Buf::from_vec(parse_words::<W>(ws)?))),
        ["into_seek_read_s", ws] => {
            Ok(<Buf as IntoSeekReadWords<W, Stack>>::into_seek_read_words(Buf::from_vec(parse_words::<W>(ws)?)))
        }
        ["into_seek_read_q", ws] => {
            Ok(<Buf as IntoSeekReadWords<W, Queue>>::into_seek_read_words(Buf::from_vec(parse_words::<W>(ws)?)))
        }
        ["at", ws, p] => {
            let l = parse_words::<W>(ws)?;
            let p = parse_usize(p)?;
            Cursor::new_at_pos(Buf::from_vec(l), p)
        }
        ["begin", ws] => Ok(Cursor::new_at_write_beginning(Buf::from_vec(parse_words::<W>(ws)?))),
        ["end", ws] => Ok(Cursor::new_at_write_end(Buf::from_vec(parse_words::<W>(ws)?))),
        _ => return None,
    })
}

fn mk_rw<W: Wd, Buf: BufK<W> + AsMut<[W]>>(seg: &[&str], rev: bool) -> Init<W> {
    match cursor_init_mut::<W, Buf>(seg).or_else(|| cursor_init::<W, Buf>(seg)) {
        None => Init::Bad,
        Some(Err(())) => Init::Refused,
        Some(Ok(c)) => {
            if rev {
                Init::Ok(Box::new(RevRW(Reverse(c))))
            } else {
                Init::Ok(Box::new(CurRW(c)))
            }
        }
    }
}
fn mk_ro<W: Wd>(seg: &[&str], rev: bool) -> Init<W> {
    match cursor_init_as::<W>(seg).or_else(|| cursor_init::<W, &'static [W]>(seg)) {
        None => Init::Bad,
        Some(Err(())) => Init::Refused,
        Some(Ok(c)) => {
            if rev {
                Init::Ok(Box::new(RevRO(Reverse(c))))
            } else {
                Init::Ok(Box::new(CurRO(c)))
            }
        }
    }
}

fn do_init<W: Wd>(kind: &str, seg: &[&str]) -> Init<W> {
    fn opt<W: Wd>(o: Option<Box<dyn Dyn<W>>>) -> Init<W> {
        match o {
            Some(b) => Init::Ok(b),
            None => Init::Bad,
        }
    }
    match kind {
        "backend.vec" => match seg {
            ["data", ws] => opt(parse_words::<W>(ws).map(|l| Box::new(VecB(l)) as Box<dyn Dyn<W>>)),
            _ => Init::Bad,
        },
        "backend.smallvec" => match seg {
            ["data", ws] => opt(parse_words::<W>(ws)
                .map(|l| Box::new(SmallB(SmallVec::<[W; 4]>::from_slice(&l))) as Box<dyn Dyn<W>>)),
            _ => Init::Bad,
        },
        "backend.cursor-owned" => mk_rw::<W, Vec<W>>(seg, false),
        "backend.cursor-box" => mk_rw::<W, Box<[W]>>(seg, false),
        "backend.cursor-mut" => mk_rw::<W, &'static mut [W]>(seg, false),
        "backend.cursor-slice" => mk_ro::<W>(seg, false),
        "backend.rev-cursor" => mk_rw::<W, Vec<W>>(seg, true),
        "backend.rev-cursor-box" => mk_rw::<W, Box<[W]>>(seg, true),
        "backend.rev-cursor-mut" => mk_rw::<W, &'static mut [W]>(seg, true),
        "backend.rev-cursor-slice" => mk_ro::<W>(seg, true),
        "backend.iter" => match seg {
            ["fallible", sc] => opt(parse_script::<W>(sc).map(|items| {
                Box::new(IterF(FallibleIteratorReadWords::new(Script { items, idx: 0 }))) as Box<dyn Dyn<W>>
            })),
            ["infallible", sc] => opt(parse_script::<W>(sc).map(|items| {
                Box::new(IterI(InfallibleIteratorReadWords::new(Script { items, idx: 0 }))) as Box<dyn Dyn<W>>
            })),
            [flavour @ ("fallible-loose" | "infallible-loose"), sc, lo, hi] => {
                let lo_slack = parse_usize(lo);
                let hi_slack = if *hi == "inf" { Some(None) } else { parse_usize(hi).map(Some) };
                match (lo_slack, hi_slack) {
                    (Some(lo_slack), Some(hi_slack)) => opt(parse_script::<W>(sc).map(|items| {
                        let it = Loose { inner: Script { items, idx: 0 }, lo_slack, hi_slack };
                        if *flavour == "fallible-loose" {
                            Box::new(IterFL(FallibleIteratorReadWords::new(it))) as Box<dyn Dyn<W>>
                        } else {
                            Box::new(IterIL(InfallibleIteratorReadWords::new(it))) as Box<dyn Dyn<W>>
                        }
                    })),
                    _ => Init::Bad,
                }
            }
            _ => Init::Bad,
        },
        "backend.callback" => match seg {
            ["fallible", fa] => opt(pl(fa).map(|fail_at| {
                Box::new(mk_cbf::<W>(CbState { log: vec![], calls: 0, fail_at })) as Box<dyn Dyn<W>>
            })),
            ["infallible"] => Init::Ok(Box::new(mk_cbi::<W>(CbState { log: vec![], calls: 0, fail_at: vec![] }))),
            _ => Init::Bad,
        },
        _ => Init::Bad,
    }
}

fn run_w<W: Wd>(segs: &[Vec<&str>]) -> String {
    let kind = segs[0][0];
    let mut b = match do_init::<W>(kind, &segs[1]) {
        Init::Bad => return "bad-op".into(),
        Init::Refused => return "err".into(),
        Init::Ok(b) => b,
    };
    let mut outs = vec!["ok".to_string()];
    for seg in &segs[2..] {
        let op = match parse_op::<W>(seg) {
            Some(op) => op,
            None => {
                outs.push("bad-op".into());
                break;
            }
        };
        match guarded(move || b.op(&op)) {
            Ok((s, nb)) => {
                outs.push(s);
                b = nb;
            }
            Err(class) => {
                outs.push(class.into());
                break;
            }
        }
    }
    outs.join(" | ")
}

pub fn run(segs: &[Vec<&str>]) -> String {
    if segs.len() < 2 || segs[0].len() != 2 {
        return "bad-op".into();
    }
    match ph(segs[0][1]) {
        Some(8) => run_w::<u8>(segs),
        Some(16) => run_w::<u16>(segs),
        Some(32) => run_w::<u32>(segs),
        Some(64) => run_w::<u64>(segs),
        Some(_) => "unsupported".into(),
        None => "bad-op".into(),
    }
}

include!("backend_gen.rs");
include!("backend_oracle.rs");
