//! Component `bits`: bit-level stack / queue coders (src/symbol/mod.rs) and `ExpGolomb`
//! (src/symbol/exp_golomb.rs): protocol runner (real code), case generator and
//! implementation-level oracles.  Protocol: see /verif/lean/CV/Driver/Bits.lean.
#![allow(unused)]
use std::convert::Infallible;

use constriction::backends::{BoundedReadWords, Cursor, ReadWords};
use constriction::symbol::exp_golomb::ExpGolomb;
use constriction::symbol::{
    Codebook, DecoderCodebook, EncoderCodebook, QueueDecoder, QueueEncoder, ReadBitStream,
    StackCoder, SymbolCodeError, SymbolCoder, WriteBitStream,
};
use constriction::{
    BitArray, CoderError, DefaultEncoderFrontendError, Pos, Queue, Stack, UnwrapInfallible,
};

use crate::util::*;

type EncErr<B> = CoderError<DefaultEncoderFrontendError, B>;
type StackDec<W> = SymbolCoder<W, Stack, Cursor<W, Vec<W>>>;
type QDec<W> = QueueDecoder<W, Cursor<W, Vec<W>>>;

// ---------------------------------------------------------------------------------------
// a sink that accepts `cap` words in total and then refuses (`WriteError = ()`); also a stack source

#[derive(Clone, Debug, Default)]
pub struct BoundedVec<W> {
    pub v: Vec<W>,
    pub cap: usize,
}

impl<W> constriction::backends::WriteWords<W> for BoundedVec<W> {
    type WriteError = ();
    fn write(&mut self, word: W) -> Result<(), ()> {
        if self.v.len() >= self.cap {
            Err(())
        } else {
            self.v.push(word);
            Ok(())
        }
    }
}

impl<W> ReadWords<W, Stack> for BoundedVec<W> {
    type ReadError = Infallible;
    fn read(&mut self) -> Result<Option<W>, Infallible> {
        Ok(self.v.pop())
    }
}

impl<W> BoundedReadWords<W, Stack> for BoundedVec<W> {
    fn remaining(&self) -> usize {
        self.v.len()
    }
}

/// `bits.bstack W cap | ops` / `bits.bqueue W cap | ops`: bit coders over a bounded sink
fn run_bounded<W: BitArray>(is_stack: bool, cap: usize, segs: &[Vec<&str>]) -> String {
    let mut outs = vec!["ok".to_string()];
    let mut stack: Option<StackCoder<W, BoundedVec<W>>> = None;
    let mut queue: Option<QueueEncoder<W, BoundedVec<W>>> = None;
    if is_stack {
        match StackCoder::<W, BoundedVec<W>>::from_compressed(BoundedVec { v: Vec::new(), cap }) {
            Ok(c) => stack = Some(c),
            Err(_) => return "err".into(),
        }
    } else {
        queue = Some(QueueEncoder::<W, BoundedVec<W>>::from_compressed(BoundedVec { v: Vec::new(), cap }));
    }
    fn write_one<W: BitArray>(s: &mut Option<StackCoder<W, BoundedVec<W>>>, q: &mut Option<QueueEncoder<W, BoundedVec<W>>>, b: bool) -> bool {
        match (s, q) {
            (Some(c), _) => c.write_bit(b).is_ok(),
            (_, Some(c)) => c.write_bit(b).is_ok(),
            _ => false,
        }
    }
    for seg in &segs[1..] {
        let r = guarded(|| -> Option<(String, bool)> {
            Some(match seg.as_slice() {
                ["w", b] => {
                    let b = parse_hex(b)?;
                    if b > 1 {
                        return None;
                    }
                    (if write_one(&mut stack, &mut queue, b == 1) { "ok".into() } else { "full".into() }, false)
                }
                ["ws", bs] => {
                    let bs = parse_bits(bs)?;
                    let mut res = "ok".to_string();
                    for (i, b) in bs.iter().enumerate() {
                        if !write_one(&mut stack, &mut queue, *b) {
                            res = format!("full@{:x}", i);
                            break;
                        }
                    }
                    (res, false)
                }
                ["r"] => {
                    let c = stack.as_mut()?;
                    (show_opt_bit(c.read_bit().unwrap_infallible()).to_string(), false)
                }
                ["len"] => (hex(match (&stack, &queue) { (Some(c), _) => c.len(), (_, Some(c)) => c.len(), _ => return None } as u128), false),
                ["raw"] => {
                    let (b, cw, mask) = match (&stack, &queue) {
                        (Some(c), _) => { let (b, cw, m) = c.verif_raw(); (b.v.clone(), cw, m) }
                        (_, Some(c)) => { let (b, cw, m) = c.verif_raw(); (b.v.clone(), cw, m) }
                        _ => return None,
                    };
                    (format!("{} {} {}", show_words(&b), hex(to_u128(cw)), hex(to_u128(mask))), false)
                }
                ["export"] => {
                    let r = match (stack.take(), queue.take()) {
                        (Some(c), _) => c.into_compressed(),
                        (_, Some(c)) => c.into_compressed(),
                        _ => return None,
                    };
                    (match r { Ok(b) => show_words(&b.v), Err(()) => "full".into() }, true)
                }
                _ => return None,
            })
        });
        match r {
            Ok(Some((o, dead))) => {
                outs.push(o);
                if dead {
                    break;
                }
            }
            Ok(None) => {
                outs.push("bad-op".into());
                break;
            }
            Err(class) => {
                outs.push(class.to_string());
                break;
            }
        }
    }
    outs.join(" | ")
}

fn gen_bounded_line(rng: &mut Rng) -> String {
    let w = *rng.pick(&[8u32, 8, 16, 32, 64]);
    let is_stack = rng.chance(1, 2);
    let cap = (rng.next() % 4) as usize;
    let mut line = format!("bits.{} {:x} {:x}", if is_stack { "bstack" } else { "bqueue" }, w, cap);
    // enough bits to run into the refusal, around every fill level of the last word
    let total = (cap as u32 + 1) * w;
    let n_ops = 2 + rng.next() % 8;
    let mut written = 0u32;
    for _ in 0..n_ops {
        let op = match rng.next() % 10 {
            0..=3 => {
                let k = match rng.next() % 4 { 0 => total.saturating_sub(written) + (rng.next() % 3) as u32, 1 => w, 2 => w - 1, _ => 1 + (rng.next() % (2 * w as u64)) as u32 };
                let k = k.min(300);
                written += k;
                format!("ws {}", show_bits(&rand_bits(rng, k as usize)))
            }
            4 | 5 => { written += 1; format!("w {:x}", rng.next() % 2) }
            6 => "len".to_string(),
            7 => "raw".to_string(),
            _ => if is_stack { "r".to_string() } else { "len".to_string() },
        };
        line.push_str(" | ");
        line.push_str(&op);
    }
    line.push_str(" | raw | len");
    if is_stack && rng.chance(1, 2) {
        for _ in 0..(rng.next() % 20) {
            line.push_str(" | r");
        }
        line.push_str(" | raw");
    }
    if rng.chance(2, 3) {
        line.push_str(" | export");
    }
    line
}

/// C16 over a sink that can refuse: the accepted bits, and only they, come back (stack: in reverse
/// order; queue: in the exported words), `len` counts exactly the accepted bits, and a refused
/// `write_bit` changes nothing
fn oracle_bounded<W: BitArray>(rng: &mut Rng, iters: usize, rep: &mut Report) {
    let w = W::BITS as usize;
    for _ in 0..iters {
        let cap = (rng.next() % 4) as usize;
        let n = ((cap + 1) * w + (rng.next() % (w as u64 + 3)) as usize).min(400);
        let n = if rng.chance(1, 4) { (rng.next() % (n as u64 + 1)) as usize } else { n };
        let bits = rand_bits(rng, n);
        let desc = |kind: &str| format!("bits.{} {:x} {:x} | ws {}", kind, w, cap, show_bits(&bits));
        // ---- stack ----
        set_case(&desc("bstack"));
        let r = guarded(|| {
            let mut c = StackCoder::<W, BoundedVec<W>>::from_compressed(BoundedVec { v: Vec::new(), cap }).ok()?;
            let mut accepted: Vec<bool> = Vec::new();
            let mut refused_at = None;
            for (i, &b) in bits.iter().enumerate() {
                let before = { let (bk, cw, m) = c.verif_raw(); (bk.v.clone(), cw, m) };
                match c.write_bit(b) {
                    Ok(()) => accepted.push(b),
                    Err(()) => {
                        let after = { let (bk, cw, m) = c.verif_raw(); (bk.v.clone(), cw, m) };
                        if before != after {
                            return Some(Err(format!("write {} refused but the coder changed", i)));
                        }
                        refused_at = Some(i);
                        // a retry is refused again and still changes nothing
                        if c.write_bit(b).is_ok() {
                            return Some(Err(format!("write {} refused, then accepted on retry with a full sink", i)));
                        }
                        break;
                    }
                }
            }
            if c.len() != accepted.len() {
                return Some(Err(format!("len() = {:x} after {:x} accepted bits (refusal at {:?})", c.len(), accepted.len(), refused_at)));
            }
            let mut back = Vec::new();
            while let Some(b) = c.read_bit().unwrap_infallible() {
                back.push(b);
                if back.len() > accepted.len() + 2 { break; }
            }
            back.reverse();
            if back != accepted {
                return Some(Err(format!("accepted {} but reading back (reversed) gives {} (refusal at {:?})", show_bits(&accepted), show_bits(&back), refused_at)));
            }
            Some(Ok(refused_at.is_some()))
        });
        rep.eval("C16");
        match r {
            Ok(Some(Ok(refused))) => { if refused { rep.count("C16.bounded.stack.refused"); } else { rep.count("C16.bounded.stack.all_accepted"); } }
            Ok(Some(Err(t))) => rep.fail("C16", format!("{} => {}", desc("bstack"), t)),
            Ok(None) => {}
            Err(class) => rep.fail("C16", format!("{} => {}", desc("bstack"), class)),
        }
        // ---- queue ----
        set_case(&desc("bqueue"));
        let r = guarded(|| {
            let mut c = QueueEncoder::<W, BoundedVec<W>>::from_compressed(BoundedVec { v: Vec::new(), cap });
            let mut accepted: Vec<bool> = Vec::new();
            let mut refused = false;
            for (i, &b) in bits.iter().enumerate() {
                let before = { let (bk, cw, m) = c.verif_raw(); (bk.v.clone(), cw, m) };
                match c.write_bit(b) {
                    Ok(()) => accepted.push(b),
                    Err(()) => {
                        let after = { let (bk, cw, m) = c.verif_raw(); (bk.v.clone(), cw, m) };
                        if before != after {
                            return Err(format!("write {} refused but the encoder changed", i));
                        }
                        refused = true;
                        break;
                    }
                }
            }
            if c.len() != accepted.len() {
                return Err(format!("len() = {:x} after {:x} accepted bits", c.len(), accepted.len()));
            }
            // content: the words in the sink plus the buffered word hold exactly the accepted bits
            let (bk, cw, mask) = c.verif_raw();
            let mut got: Vec<bool> = Vec::new();
            for &word in bk.v.iter() {
                for k in 0..w { got.push((to_u128(word) >> k) & 1 == 1); }
            }
            let m = to_u128(mask);
            if m != 0 {
                let top = 127 - m.leading_zeros() as usize;
                for k in 0..=top { got.push((to_u128(cw) >> k) & 1 == 1); }
            }
            if got != accepted {
                return Err(format!("accepted {} but the encoder holds {}", show_bits(&accepted), show_bits(&got)));
            }
            Ok(refused)
        });
        rep.eval("C16");
        match r {
            Ok(Ok(refused)) => { if refused { rep.count("C16.bounded.queue.refused"); } else { rep.count("C16.bounded.queue.all_accepted"); } }
            Ok(Err(t)) => rep.fail("C16", format!("{} => {}", desc("bqueue"), t)),
            Err(class) => rep.fail("C16", format!("{} => {}", desc("bqueue"), class)),
        }
    }
}

// ---------------------------------------------------------------------------------------
// test codebooks (exercise the default trait methods, which go through `SmallBitStack`)

/// overrides both methods: emits exactly the given bits in either form
struct NatBook<'a>(&'a [bool]);
/// overrides only `encode_symbol_suffix`; `encode_symbol_prefix` is the default method
struct OnlySuffix<'a>(&'a [bool]);
/// overrides only `encode_symbol_prefix`; `encode_symbol_suffix` is the default method
struct OnlyPrefix<'a>(&'a [bool]);

fn emit_all<E>(bits: &[bool], mut emit: impl FnMut(bool) -> Result<(), E>) -> Result<(), EncErr<E>> {
    for &b in bits {
        emit(b).map_err(CoderError::Backend)?;
    }
    Ok(())
}

impl Codebook for NatBook<'_> {
    type Symbol = ();
}
impl EncoderCodebook for NatBook<'_> {
    fn encode_symbol_prefix<E>(
        &self,
        _s: impl std::borrow::Borrow<()>,
        emit: impl FnMut(bool) -> Result<(), E>,
    ) -> Result<(), EncErr<E>> {
        emit_all(self.0, emit)
    }
    fn encode_symbol_suffix<E>(
        &self,
        _s: impl std::borrow::Borrow<()>,
        emit: impl FnMut(bool) -> Result<(), E>,
    ) -> Result<(), EncErr<E>> {
        emit_all(self.0, emit)
    }
}
impl Codebook for OnlySuffix<'_> {
    type Symbol = ();
}
impl EncoderCodebook for OnlySuffix<'_> {
    fn encode_symbol_suffix<E>(
        &self,
        _s: impl std::borrow::Borrow<()>,
        emit: impl FnMut(bool) -> Result<(), E>,
    ) -> Result<(), EncErr<E>> {
        emit_all(self.0, emit)
    }
}
impl Codebook for OnlyPrefix<'_> {
    type Symbol = ();
}
impl EncoderCodebook for OnlyPrefix<'_> {
    fn encode_symbol_prefix<E>(
        &self,
        _s: impl std::borrow::Borrow<()>,
        emit: impl FnMut(bool) -> Result<(), E>,
    ) -> Result<(), EncErr<E>> {
        emit_all(self.0, emit)
    }
}

// ---------------------------------------------------------------------------------------
// small helpers

fn show_bits(l: &[bool]) -> String {
    if l.is_empty() {
        "-".into()
    } else {
        l.iter().map(|&b| if b { '1' } else { '0' }).collect()
    }
}

fn parse_bits(s: &str) -> Option<Vec<bool>> {
    if s == "-" {
        return Some(vec![]);
    }
    s.chars()
        .map(|c| match c {
            '1' => Some(true),
            '0' => Some(false),
            _ => None,
        })
        .collect()
}

fn words<W: BitArray>(l: &[u128]) -> Vec<W> {
    l.iter().map(|&w| from_u128(w)).collect()
}

fn show_words<W: BitArray>(l: &[W]) -> String {
    show_list(l.iter().map(|&w| to_u128(w)))
}

fn show_opt_bit(b: Option<bool>) -> &'static str {
    match b {
        None => "none",
        Some(true) => "1",
        Some(false) => "0",
    }
}

fn ok_n(n: u128) -> bool {
    matches!(n, 8 | 16 | 32 | 64 | 128)
}

/// runs `$body` with the type alias `$N` bound to the unsigned integer with `$n` bits
macro_rules! with_n {
    ($n:expr, $N:ident => $body:expr) => {
        match $n {
            8 => {
                type $N = u8;
                $body
            }
            16 => {
                type $N = u16;
                $body
            }
            32 => {
                type $N = u32;
                $body
            }
            64 => {
                type $N = u64;
                $body
            }
            _ => {
                type $N = u128;
                $body
            }
        }
    };
}

fn show_sym<N: num_traits::PrimInt, I>(r: Result<N, CoderError<SymbolCodeError<I>, Infallible>>) -> String {
    match r {
        Ok(v) => hex(to_u128(v)),
        Err(CoderError::Frontend(SymbolCodeError::InvalidCodeword(_))) => "invalid".into(),
        Err(CoderError::Frontend(SymbolCodeError::OutOfCompressedData)) => "out_of_data".into(),
        Err(CoderError::Backend(e)) => match e {},
    }
}

fn fits(n: u128, v: u128) -> bool {
    n >= 128 || v < (1u128 << n)
}

// ---------------------------------------------------------------------------------------
// protocol runner

/// `eg`, `egs`, `nat`, `via`, `w`, `ws` on anything that can be written to
fn write_op<S, C>(c: &mut C, is_stack: bool, seg: &[&str]) -> Option<String>
where
    S: constriction::Semantics,
    C: WriteBitStream<S, WriteError = Infallible>,
{
    Some(match seg {
        ["w", b] => {
            let b = parse_hex(b)?;
            if b > 1 {
                return None;
            }
            c.write_bit(b == 1).unwrap_infallible();
            "ok".into()
        }
        ["ws", bs] => {
            for b in parse_bits(bs)? {
                c.write_bit(b).unwrap_infallible();
            }
            "ok".into()
        }
        ["eg", n, v] => {
            let n = parse_hex(n)?;
            let v = parse_hex(v)?;
            if !ok_n(n) || !fits(n, v) {
                return None;
            }
            with_n!(n, N => {
                c.encode_symbol(from_u128::<N>(v), ExpGolomb::<N>::new()).unwrap();
            });
            "ok".into()
        }
        ["egs", n, form, vs] => {
            let n = parse_hex(n)?;
            let form = parse_hex(form)?;
            let vs = parse_list(vs)?;
            if !ok_n(n) || vs.iter().any(|&v| !fits(n, v)) {
                return None;
            }
            if form > 3 || (form > 1 && !is_stack) {
                return None;
            }
            with_n!(n, N => {
                let book = ExpGolomb::<N>::new();
                let syms: Vec<N> = vs.iter().map(|&v| from_u128::<N>(v)).collect();
                // the `_reverse` forms exist on `StackCoder` only; they are `rev()` + the plain form
                match form {
                    0 => c.encode_symbols(syms.iter().map(|s| (s, &book))).unwrap(),
                    1 => c.encode_iid_symbols(syms.iter(), &book).unwrap(),
                    2 => c.encode_symbols(syms.iter().map(|s| (s, &book)).rev()).unwrap(),
                    _ => c.encode_iid_symbols(syms.iter().rev(), &book).unwrap(),
                }
            });
            "ok".into()
        }
        ["nat", bs] => {
            let bs = parse_bits(bs)?;
            c.encode_symbol((), NatBook(&bs)).unwrap();
            "ok".into()
        }
        ["via", bs] => {
            let bs = parse_bits(bs)?;
            if is_stack {
                c.encode_symbol((), OnlyPrefix(&bs)).unwrap();
            } else {
                c.encode_symbol((), OnlySuffix(&bs)).unwrap();
            }
            "ok".into()
        }
        _ => return None,
    })
}

/// `dg`, `dgs`, `r`, `drain` on any bit source
fn read_op<S, C>(c: &mut C, seg: &[&str]) -> Option<String>
where
    S: constriction::Semantics,
    C: ReadBitStream<S, ReadError = Infallible> + Iterator<Item = Result<bool, Infallible>>,
{
    Some(match seg {
        ["r"] => show_opt_bit(c.read_bit().unwrap_infallible()).into(),
        ["dg", n] => {
            let n = parse_hex(n)?;
            if !ok_n(n) {
                return None;
            }
            with_n!(n, N => show_sym(c.decode_symbol(ExpGolomb::<N>::new())))
        }
        ["dgs", n, form, k] => {
            let n = parse_hex(n)?;
            let form = parse_hex(form)?;
            let k = parse_hex(k)? as usize;
            if !ok_n(n) || form > 1 {
                return None;
            }
            with_n!(n, N => {
                let book = ExpGolomb::<N>::new();
                let mut out: Vec<u128> = Vec::new();
                let mut err: Option<String> = None;
                if form == 0 {
                    for r in c.decode_symbols((0..k).map(|_| &book)) {
                        match r {
                            Ok(v) => out.push(to_u128(v)),
                            Err(e) => { err = Some(show_sym::<N, _>(Err(e))); break; }
                        }
                    }
                } else {
                    for r in c.decode_iid_symbols(k, &book) {
                        match r {
                            Ok(v) => out.push(to_u128(v)),
                            Err(e) => { err = Some(show_sym::<N, _>(Err(e))); break; }
                        }
                    }
                }
                match err {
                    None => show_list(out),
                    Some(e) => format!("{} {}", show_list(out), e),
                }
            })
        }
        ["drain"] => {
            let bs: Vec<bool> = c.by_ref().map(|b| b.unwrap_infallible()).collect();
            show_bits(&bs)
        }
        _ => return None,
    })
}

fn raw_stack<W: BitArray>(c: &StackCoder<W>) -> String {
    let (b, cw, mask) = c.verif_raw();
    format!("{} {} {}", show_words(b), hex(to_u128(cw)), hex(to_u128(mask)))
}

fn raw_queue<W: BitArray>(c: &QueueEncoder<W>) -> String {
    let (b, cw, mask) = c.verif_raw();
    format!("{} {} {}", show_words(b), hex(to_u128(cw)), hex(to_u128(mask)))
}

fn raw_stack_dec<W: BitArray>(c: &StackDec<W>) -> String {
    let (b, cw, mask) = c.verif_raw();
    format!("{} {} {}", show_words(&b.buf()[..b.pos()]), hex(to_u128(cw)), hex(to_u128(mask)))
}

fn raw_qdec<W: BitArray>(c: &QDec<W>) -> String {
    let (b, cw, mask) = c.verif_raw();
    format!("{} {} {}", show_words(&b.buf()[b.pos()..]), hex(to_u128(cw)), hex(to_u128(mask)))
}

enum St<W: BitArray> {
    Stack(StackCoder<W>),
    StackDec(StackDec<W>),
    QEnc(QueueEncoder<W>),
    QDec(QDec<W>),
    Gone,
}

fn do_op<W: BitArray>(st: &mut St<W>, seg: &[&str]) -> Option<String> {
    match st {
        St::Stack(c) => Some(match seg {
            ["export"] => {
                let v = std::mem::take(c).into_compressed().unwrap_infallible();
                let shown = show_words(&v);
                match StackCoder::<W>::from_compressed(v) {
                    Ok(c2) => {
                        *c = c2;
                        format!("{} ok", shown)
                    }
                    Err(_) => format!("{} err", shown),
                }
            }
            ["getc"] => {
                let g = c.get_compressed();
                show_words(&g)
            }
            ["iter"] => {
                let bs: Vec<bool> = c.iter().map(|b| b.unwrap_infallible()).collect();
                show_bits(&bs)
            }
            ["todec"] => {
                let d = std::mem::take(c).into_decoder();
                *st = St::StackDec(d);
                "ok".into()
            }
            // `into_iterator()` consumes the coder; the history continues with a fresh one
            ["intoiter"] => {
                let bs: Vec<bool> = std::mem::take(c).into_iterator().map(|b| b.unwrap_infallible()).collect();
                show_bits(&bs)
            }
            ["intoiterk", k] => {
                let k = parse_hex(k)? as usize;
                let bs: Vec<bool> = std::mem::take(c).into_iterator().take(k).map(|b| b.unwrap_infallible()).collect();
                show_bits(&bs)
            }
            ["len"] => hex(c.len() as u128),
            ["empty"] => format!("{}", SymbolCoder::is_empty(c)),
            ["raw"] => raw_stack(c),
            _ => match read_op::<Stack, _>(c, seg) {
                Some(s) => s,
                None => write_op::<Stack, _>(c, true, seg)?,
            },
        }),
        St::StackDec(c) => Some(match seg {
            ["len"] => hex(c.len() as u128),
            ["empty"] => format!("{}", SymbolCoder::is_empty(c)),
            ["raw"] => raw_stack_dec(c),
            _ => read_op::<Stack, _>(c, seg)?,
        }),
        St::QEnc(c) => Some(match seg {
            ["export"] => {
                let v = std::mem::take(c).into_compressed().unwrap_infallible();
                let shown = show_words(&v);
                *c = QueueEncoder::<W>::from_compressed(v);
                format!("{} ok", shown)
            }
            ["getc"] => {
                let g = c.get_compressed();
                show_words(&g)
            }
            ["todec"] => {
                let d = std::mem::take(c).into_decoder().unwrap_infallible();
                *st = St::QDec(d);
                "ok".into()
            }
            // `into_overshooting_iter()` consumes the encoder; the history continues with a fresh one
            ["oiter"] => {
                let it = std::mem::take(c).into_overshooting_iter().unwrap_infallible();
                let bs: Vec<bool> = it.map(|b| b.unwrap_infallible()).collect();
                show_bits(&bs)
            }
            ["oiterk", k] => {
                let k = parse_hex(k)? as usize;
                let it = std::mem::take(c).into_overshooting_iter().unwrap_infallible();
                let bs: Vec<bool> = it.take(k).map(|b| b.unwrap_infallible()).collect();
                show_bits(&bs)
            }
            ["len"] => hex(c.len() as u128),
            ["empty"] => format!("{}", SymbolCoder::is_empty(c)),
            ["raw"] => raw_queue(c),
            _ => write_op::<Queue, _>(c, false, seg)?,
        }),
        St::QDec(d) => Some(match seg {
            ["mexh"] => format!("{}", d.maybe_exhausted()),
            ["clone"] => {
                *d = d.clone();
                "ok".into()
            }
            ["raw"] => raw_qdec(d),
            _ => read_op::<Queue, _>(d, seg)?,
        }),
        St::Gone => None,
    }
}

fn run_hist<W: BitArray>(is_stack: bool, segs: &[Vec<&str>]) -> String {
    let mut st: St<W> = match segs[1].as_slice() {
        ["new"] => {
            // `new()` and `Default::default()` must be the same coder (alternate by line length)
            let dflt = segs.iter().map(|x| x.len()).sum::<usize>() % 2 == 1;
            if is_stack {
                St::Stack(if dflt { Default::default() } else { StackCoder::new() })
            } else {
                St::QEnc(if dflt { Default::default() } else { QueueEncoder::new() })
            }
        }
        ["cap", n] => {
            let n = match parse_hex(n) {
                Some(n) => (n as usize).min(1 << 20),
                None => return "bad-op".into(),
            };
            if is_stack {
                St::Stack(StackCoder::with_bit_capacity(n))
            } else {
                St::QEnc(QueueEncoder::with_bit_capacity(n))
            }
        }
        ["compressed", ws] => {
            let l = match parse_list(ws) {
                Some(l) => l,
                None => return "bad-op".into(),
            };
            if l.iter().any(|&w| !fits(W::BITS as u128, w)) {
                return "bad-op".into();
            }
            if is_stack {
                match StackCoder::<W>::from_compressed(words::<W>(&l)) {
                    Ok(c) => St::Stack(c),
                    Err(_) => return "err".into(),
                }
            } else {
                St::QEnc(QueueEncoder::<W>::from_compressed(words::<W>(&l)))
            }
        }
        ["dec", ws] => {
            let l = match parse_list(ws) {
                Some(l) => l,
                None => return "bad-op".into(),
            };
            if is_stack || l.iter().any(|&w| !fits(W::BITS as u128, w)) {
                return "bad-op".into();
            }
            use constriction::backends::IntoReadWords;
            let cursor: Cursor<W, Vec<W>> = IntoReadWords::<W, Queue>::into_read_words(words::<W>(&l));
            St::QDec(QueueDecoder::from_compressed(cursor))
        }
        _ => return "bad-op".into(),
    };
    let mut outs: Vec<String> = vec!["ok".into()];
    for seg in &segs[2..] {
        let r = guarded(|| do_op(&mut st, seg.as_slice()));
        match r {
            Ok(Some(s)) => outs.push(s),
            Ok(None) => {
                outs.push("bad-op".into());
                break;
            }
            Err(class) => {
                outs.push(class.into());
                break;
            }
        }
    }
    outs.join(" | ")
}

// ---- sweeps -------------------------------------------------------------------------------

fn pat_bits(n: u32, pat: u64) -> Vec<bool> {
    (0..n).map(|i| pat >> i & 1 == 1).collect()
}

fn dig_list<W: BitArray>(h: u64, l: &[W]) -> u64 {
    l.iter().fold(digest_step(h, l.len() as u128), |h, &w| digest_step(h, to_u128(w)))
}

fn dig_bits(h: u64, l: &[bool]) -> u64 {
    l.iter().fold(digest_step(h, l.len() as u128), |h, &b| digest_step(h, b as u128))
}

fn dig_raw<W: BitArray, S: constriction::Semantics>(h: u64, c: &SymbolCoder<W, S, Vec<W>>) -> u64 {
    let (b, cw, mask) = c.verif_raw();
    digest_step(digest_step(dig_list(h, b), to_u128(cw)), to_u128(mask))
}

fn stack_of<W: BitArray>(bs: &[bool]) -> StackCoder<W> {
    let mut c = StackCoder::<W>::new();
    for &b in bs {
        c.write_bit(b).unwrap_infallible();
    }
    c
}

fn queue_of<W: BitArray>(bs: &[bool]) -> QueueEncoder<W> {
    let mut c = QueueEncoder::<W>::new();
    for &b in bs {
        c.write_bit(b).unwrap_infallible();
    }
    c
}

fn stack_case<W: BitArray>(mut h: u64, bs: &[bool]) -> u64 {
    let mut c = stack_of::<W>(bs);
    h = dig_raw(h, &c);
    h = digest_step(h, c.len() as u128);
    h = digest_step(h, c.is_empty() as u128);
    let it: Vec<bool> = c.iter().map(|b| b.unwrap_infallible()).collect();
    h = dig_bits(h, &it);
    {
        let g = c.get_compressed();
        h = dig_list(h, &g);
    }
    h = dig_raw(h, &c);
    c.write_bit(true).unwrap_infallible();
    let b = c.read_bit().unwrap_infallible();
    h = digest_step(h, match b { None => 2, Some(true) => 1, Some(false) => 0 });
    h = dig_raw(h, &c);
    // export / re-import on a fresh coder with the same content
    let ws = stack_of::<W>(bs).into_compressed().unwrap_infallible();
    h = dig_list(h, &ws);
    match StackCoder::<W>::from_compressed(ws) {
        Ok(mut c2) => {
            h = dig_raw(h, &c2);
            h = digest_step(h, c2.len() as u128);
            let l: Vec<bool> = c2.by_ref().map(|b| b.unwrap_infallible()).collect();
            h = dig_bits(h, &l);
            dig_raw(h, &c2)
        }
        Err(_) => digest_step(h, 0xfffb),
    }
}

fn queue_case<W: BitArray>(mut h: u64, bs: &[bool]) -> u64 {
    let mut c = queue_of::<W>(bs);
    h = dig_raw(h, &c);
    h = digest_step(h, c.len() as u128);
    h = digest_step(h, c.is_empty() as u128);
    {
        let g = c.get_compressed();
        h = dig_list(h, &g);
    }
    h = dig_raw(h, &c);
    c.write_bit(true).unwrap_infallible();
    h = dig_raw(h, &c);
    let ws = queue_of::<W>(bs).into_compressed().unwrap_infallible();
    h = dig_list(h, &ws);
    let mut c2 = QueueEncoder::<W>::from_compressed(ws);
    h = digest_step(h, c2.len() as u128);
    c2.write_bit(true).unwrap_infallible();
    h = dig_raw(h, &c2);
    let mut d = queue_of::<W>(bs).into_decoder().unwrap_infallible();
    h = digest_step(h, d.maybe_exhausted() as u128);
    let l: Vec<bool> = d.by_ref().map(|b| b.unwrap_infallible()).collect();
    h = dig_bits(h, &l);
    let (_, cw, mask) = d.verif_raw();
    h = digest_step(h, to_u128(cw));
    h = digest_step(h, to_u128(mask));
    digest_step(h, d.maybe_exhausted() as u128)
}

fn sweep<W: BitArray>(is_stack: bool, n: u32) -> String {
    let mut h = DIGEST_INIT;
    for pat in 0..(1u64 << n) {
        let bs = pat_bits(n, pat);
        h = if is_stack { stack_case::<W>(h, &bs) } else { queue_case::<W>(h, &bs) };
    }
    format!("{} {}", hex(1u128 << n), hex(h as u128))
}

/// the codebook alone: collect the `emit` calls
fn golomb_bits<N>(v: N) -> (Vec<bool>, Vec<bool>)
where
    N: num_traits::Unsigned + num_traits::PrimInt + num_traits::WrappingAdd + num_traits::WrappingSub,
{
    let book = ExpGolomb::<N>::new();
    let mut p = Vec::new();
    let mut s = Vec::new();
    book.encode_symbol_prefix(v, |b| {
        p.push(b);
        Ok::<(), Infallible>(())
    })
    .unwrap();
    book.encode_symbol_suffix(v, |b| {
        s.push(b);
        Ok::<(), Infallible>(())
    })
    .unwrap();
    (p, s)
}

/// decode from a plain bit iterator; returns (result, number of bits left in the iterator)
fn golomb_decode<N>(bits: &[bool]) -> (String, usize)
where
    N: num_traits::Unsigned + num_traits::PrimInt + num_traits::WrappingAdd + num_traits::WrappingSub,
{
    let book = ExpGolomb::<N>::new();
    let mut it = bits.iter().map(|&b| Ok::<bool, Infallible>(b));
    let r = book.decode_symbol(&mut it);
    (show_sym(r), it.count())
}

fn golomb_case<N>(mut h: u64, v: N) -> u64
where
    N: num_traits::Unsigned + num_traits::PrimInt + num_traits::WrappingAdd + num_traits::WrappingSub,
{
    let (p, s) = golomb_bits(v);
    h = dig_bits(h, &p);
    h = dig_bits(h, &s);
    let mut src = p.clone();
    src.extend([true, false, true]);
    let (r, left) = golomb_decode::<N>(&src);
    match parse_hex(&r) {
        Some(x) => digest_step(digest_step(h, x), left as u128),
        None => digest_step(digest_step(h, 0xfffd), left as u128),
    }
}

fn golomb_dec_case<N>(h: u64, bs: &[bool]) -> u64
where
    N: num_traits::Unsigned + num_traits::PrimInt + num_traits::WrappingAdd + num_traits::WrappingSub,
{
    let (r, left) = golomb_decode::<N>(bs);
    match parse_hex(&r) {
        Some(x) => digest_step(digest_step(h, x), left as u128),
        None => digest_step(digest_step(h, 0xfffd), left as u128),
    }
}

pub fn run(segs: &[Vec<&str>]) -> String {
    let head = &segs[0];
    match head.as_slice() {
        [kind @ ("bits.stack" | "bits.queue"), w] if segs.len() >= 2 => {
            let is_stack = *kind == "bits.stack";
            match parse_hex(w) {
                Some(8) => run_hist::<u8>(is_stack, segs),
                Some(16) => run_hist::<u16>(is_stack, segs),
                Some(32) => run_hist::<u32>(is_stack, segs),
                Some(64) => run_hist::<u64>(is_stack, segs),
                Some(_) => "unsupported".into(),
                None => "bad-op".into(),
            }
        }
        [kind @ ("bits.bstack" | "bits.bqueue"), w, cap] => {
            let is_stack = *kind == "bits.bstack";
            let cap = match parse_hex(cap) { Some(c) if c < 1 << 20 => c as usize, _ => return "bad-op".into() };
            match parse_hex(w) {
                Some(8) => run_bounded::<u8>(is_stack, cap, segs),
                Some(16) => run_bounded::<u16>(is_stack, cap, segs),
                Some(32) => run_bounded::<u32>(is_stack, cap, segs),
                Some(64) => run_bounded::<u64>(is_stack, cap, segs),
                Some(_) => "unsupported".into(),
                None => "bad-op".into(),
            }
        }
        [kind @ ("bits.stacksweep" | "bits.queuesweep"), w, n] if segs.len() == 1 => {
            let is_stack = *kind == "bits.stacksweep";
            match (parse_hex(w), parse_hex(n)) {
                (Some(w), Some(n)) => {
                    if n > 24 {
                        return "unsupported".into();
                    }
                    let n = n as u32;
                    match w {
                        8 => sweep::<u8>(is_stack, n),
                        16 => sweep::<u16>(is_stack, n),
                        32 => sweep::<u32>(is_stack, n),
                        64 => sweep::<u64>(is_stack, n),
                        _ => "unsupported".into(),
                    }
                }
                _ => "bad-op".into(),
            }
        }
        ["bits.golomb", n, v] if segs.len() == 1 => match (parse_hex(n), parse_hex(v)) {
            (Some(n), Some(v)) => {
                if !ok_n(n) || !fits(n, v) {
                    return "unsupported".into();
                }
                let (p, s) = with_n!(n, N => golomb_bits::<N>(from_u128::<N>(v)));
                format!("{} {}", show_bits(&p), show_bits(&s))
            }
            _ => "bad-op".into(),
        },
        ["bits.golombdec", n, bs] if segs.len() == 1 => match (parse_hex(n), parse_bits(bs)) {
            (Some(n), Some(bs)) => {
                if !ok_n(n) {
                    return "unsupported".into();
                }
                let (r, left) = with_n!(n, N => golomb_decode::<N>(&bs));
                format!("{} {}", r, hex(left as u128))
            }
            _ => "bad-op".into(),
        },
        ["bits.golombsweep", n, lo, hi] if segs.len() == 1 => {
            match (parse_hex(n), parse_hex(lo), parse_hex(hi)) {
                (Some(n), Some(lo), Some(hi)) => {
                    if !ok_n(n) || !fits(n, hi) || hi < lo {
                        return "unsupported".into();
                    }
                    let mut h = DIGEST_INIT;
                    with_n!(n, N => {
                        let mut v = lo;
                        loop {
                            h = golomb_case::<N>(h, from_u128::<N>(v));
                            if v == hi { break; }
                            v += 1;
                        }
                    });
                    format!("{} {}", hex(hi - lo + 1), hex(h as u128))
                }
                _ => "bad-op".into(),
            }
        }
        ["bits.golombdecsweep", n, l] if segs.len() == 1 => match (parse_hex(n), parse_hex(l)) {
            (Some(n), Some(l)) => {
                if !ok_n(n) || l > 24 {
                    return "unsupported".into();
                }
                let mut h = DIGEST_INIT;
                for pat in 0..(1u64 << l) {
                    let bs = pat_bits(l as u32, pat);
                    h = with_n!(n, N => golomb_dec_case::<N>(h, &bs));
                }
                format!("{} {}", hex(1u128 << l), hex(h as u128))
            }
            _ => "bad-op".into(),
        },
        _ => "bad-op".into(),
    }
}

// ---------------------------------------------------------------------------------------
// generation

fn rand_bits(rng: &mut Rng, n: usize) -> Vec<bool> {
    match rng.next() % 6 {
        0 => vec![false; n],
        1 => vec![true; n],
        2 => {
            // zeros with a single one (terminator look-alikes)
            let mut v = vec![false; n];
            if n > 0 {
                let i = rng.below(n as u128) as usize;
                v[i] = true;
            }
            v
        }
        _ => (0..n).map(|_| rng.chance(1, 2)).collect(),
    }
}

const WS: [u32; 4] = [8, 16, 32, 64];
const NS: [u32; 5] = [8, 16, 32, 64, 128];

fn max_of(n: u32) -> u128 {
    if n >= 128 {
        u128::MAX
    } else {
        (1u128 << n) - 1
    }
}

/// a symbol for `ExpGolomb<N>`: small values, powers of two ± 1, the top of the range
fn gen_sym(rng: &mut Rng, n: u32) -> u128 {
    let max = max_of(n);
    match rng.next() % 8 {
        0 => rng.below(8),
        1 => max - rng.below(3),
        2 | 3 => {
            let k = rng.below(n as u128) as u32;
            ((1u128 << k).wrapping_add(rng.below(3)).wrapping_sub(2)) & max
        }
        4 => rng.below(300) & max,
        _ => rng.bits_biased(n),
    }
}

fn gen_write_op(rng: &mut Rng, w: u32, is_stack: bool, pending: &mut Vec<u32>) -> String {
    match rng.next() % 16 {
        0..=3 => format!("w {}", rng.next() % 2),
        4..=7 => {
            let n = match rng.next() % 4 {
                0 => rng.below(4) as usize,
                1 => (w as usize).saturating_sub(2) + rng.below(5) as usize,
                2 => (2 * w as usize).saturating_sub(2) + rng.below(5) as usize,
                _ => rng.below(w as u128 + 3) as usize,
            };
            format!("ws {}", show_bits(&rand_bits(rng, n)))
        }
        8..=11 => {
            let n = *rng.pick(&NS);
            pending.push(n);
            format!("eg {:x} {:x}", n, gen_sym(rng, n))
        }
        12 => {
            let n = *rng.pick(&NS);
            let k = rng.below(4) as usize;
            let form = if is_stack { rng.below(4) } else { rng.below(2) };
            for _ in 0..k {
                pending.push(n);
            }
            let vs: Vec<u128> = (0..k).map(|_| gen_sym(rng, n)).collect();
            format!("egs {:x} {:x} {}", n, form, show_list(vs))
        }
        13 => {
            let n = rng.below(12) as usize;
            format!("nat {}", show_bits(&rand_bits(rng, n)))
        }
        _ => {
            // `via`: through SmallBitStack (usize words): sometimes longer than 64 / 128 bits
            let n = match rng.next() % 6 {
                0 => 62 + rng.below(5) as usize,
                1 => 126 + rng.below(5) as usize,
                _ => rng.below(20) as usize,
            };
            format!("via {}", show_bits(&rand_bits(rng, n)))
        }
    }
}

fn gen_read_op(rng: &mut Rng, pending: &mut Vec<u32>) -> String {
    match rng.next() % 12 {
        0..=4 => "r".into(),
        5..=8 => {
            // mostly decode with the width that was encoded last (valid), sometimes another one
            let n = if rng.chance(3, 4) { pending.pop().unwrap_or(*rng.pick(&NS)) } else { *rng.pick(&NS) };
            format!("dg {:x}", n)
        }
        9 => {
            let n = pending.last().copied().unwrap_or(*rng.pick(&NS));
            format!("dgs {:x} {:x} {:x}", n, rng.below(2), rng.below(4))
        }
        _ => "r".into(),
    }
}

fn gen_inspect_op(rng: &mut Rng, is_stack: bool) -> String {
    let ops: &[&str] = if is_stack {
        &["len", "empty", "raw", "getc", "iter", "export", "len", "raw"]
    } else {
        &["len", "empty", "raw", "getc", "export", "len", "raw", "getc"]
    };
    (*rng.pick(ops)).into()
}

fn gen_init(rng: &mut Rng, w: u32, is_stack: bool) -> String {
    match rng.next() % 8 {
        0..=3 => "new".into(),
        4 => format!("cap {:x}", rng.below(200)),
        _ => {
            let n = rng.below(5) as usize;
            let mut ws: Vec<u128> = (0..n).map(|_| rng.bits_biased(w)).collect();
            if is_stack {
                if let Some(l) = ws.last_mut() {
                    // mostly valid (non-zero last word); 1 in 8 keeps a zero last word -> `err`
                    if *l == 0 && rng.chance(7, 8) {
                        *l = 1 + rng.below(max_of(w));
                    }
                }
            }
            format!("compressed {}", show_list(ws))
        }
    }
}

fn gen_stack_history(rng: &mut Rng, w: u32, maxlen: usize) -> String {
    let mut line = format!("bits.stack {:x} | {}", w, gen_init(rng, w, true));
    let n = rng.next() as usize % (maxlen + 1);
    let mut pending: Vec<u32> = Vec::new();
    // phases: bias towards writing or towards reading so that the coder both grows over
    // several words and runs empty
    let mut write_bias = 10;
    for i in 0..n {
        if i % 6 == 0 {
            write_bias = *rng.pick(&[3u64, 8, 12, 14]);
        }
        let r = rng.next() % 20;
        let op = if r < write_bias {
            gen_write_op(rng, w, true, &mut pending)
        } else if r < 17 {
            gen_read_op(rng, &mut pending)
        } else if r == 19 && rng.chance(1, 4) {
            // consuming iterator in the middle of a history: the history goes on with a fresh coder
            pending.clear();
            if rng.chance(1, 2) { "intoiter".to_string() } else { format!("intoiterk {:x}", rng.below(2 * w as u128 + 3)) }
        } else {
            gen_inspect_op(rng, true)
        };
        line.push_str(" | ");
        line.push_str(&op);
    }
    match rng.next() % 6 {
        0 => line.push_str(" | todec | len | raw | drain | r | len | empty | raw"),
        1 => line.push_str(" | raw | len | drain | raw | r | empty"),
        2 => line.push_str(" | raw | len | iter | intoiter | raw | len | empty | r"),
        3 => line.push_str(&format!(" | raw | len | intoiterk {:x} | raw | len | w 1 | r | r", rng.below(2 * w as u128 + 3))),
        _ => line.push_str(" | raw | len | empty | export | raw | len | iter"),
    }
    line
}

fn gen_queue_history(rng: &mut Rng, w: u32, maxlen: usize) -> String {
    let mut line = format!("bits.queue {:x} | {}", w, gen_init(rng, w, false));
    let n = rng.next() as usize % (maxlen + 1);
    let mut pending: Vec<u32> = Vec::new();
    for _ in 0..n {
        let r = rng.next() % 20;
        let op = if r < 15 {
            gen_write_op(rng, w, false, &mut pending)
        } else if r == 19 && rng.chance(1, 4) {
            pending.clear();
            if rng.chance(1, 2) { "oiter".to_string() } else { format!("oiterk {:x}", rng.below(2 * w as u128 + 3)) }
        } else {
            gen_inspect_op(rng, false)
        };
        line.push_str(" | ");
        line.push_str(&op);
    }
    match rng.next() % 6 {
        0 => {
            line.push_str(" | raw | len | getc | oiter | raw | len | empty | w 1 | raw");
            return line;
        }
        1 => {
            line.push_str(&format!(" | raw | len | oiterk {:x} | raw | len | ws 101 | export", rng.below(2 * w as u128 + 3)));
            return line;
        }
        _ => {}
    }
    line.push_str(" | raw | len | empty | todec | raw | mexh");
    // decode in FIFO order what was encoded, interleaved with stray reads
    let m = rng.next() as usize % (maxlen + 1);
    pending.reverse();
    for _ in 0..m {
        let op = match rng.next() % 10 {
            0 => "mexh".to_string(),
            1 => "clone".to_string(),
            2 => "raw".to_string(),
            _ => gen_read_op(rng, &mut pending),
        };
        line.push_str(" | ");
        line.push_str(&op);
    }
    line.push_str(" | mexh | raw | drain | mexh | r | raw");
    line
}

/// every fill level `k` of the coder: export / guard / re-import / drain
fn gen_fill_levels(rng: &mut Rng, w: u32, reps: usize, out: &mut Vec<String>) {
    for k in 0..=(2 * w as usize + 2) {
        for _ in 0..reps {
            let bs = show_bits(&rand_bits(rng, k));
            out.push(format!(
                "bits.stack {:x} | new | ws {} | raw | len | empty | iter | getc | raw | len | w 1 | r | export | raw | len | drain | raw | export",
                w, bs
            ));
            out.push(format!(
                "bits.queue {:x} | new | ws {} | raw | len | empty | getc | raw | len | export | raw | len | w 1 | raw | todec | mexh | drain | mexh",
                w, bs
            ));
            // the consuming iterators at every fill level: all items, and a prefix of them
            out.push(format!("bits.stack {:x} | new | ws {} | iter | intoiter | raw | len | empty", w, bs));
            out.push(format!("bits.stack {:x} | new | ws {} | intoiterk {:x} | raw | r", w, bs, rng.below(k as u128 + 2)));
            out.push(format!("bits.queue {:x} | new | ws {} | oiter | raw | len | empty", w, bs));
            out.push(format!("bits.queue {:x} | new | ws {} | getc | oiterk {:x} | raw | w 1 | export", w, bs, rng.below(k as u128 + w as u128 + 2)));
        }
    }
}

/// truncated / over-long / malformed codewords for `ExpGolomb<N>`
fn gen_golomb_dec(rng: &mut Rng, n: u32, out: &mut Vec<String>) {
    let nn = n as usize;
    let mut push = |bs: Vec<bool>| out.push(format!("bits.golombdec {:x} {}", n, show_bits(&bs)));
    for zeros in [0usize, 1, nn - 1, nn, nn + 1, nn + 2, 2 * nn + 3] {
        // only zeros: the source ends while counting
        push(vec![false; zeros]);
        // zeros, the separator, then 0 .. zeros+1 payload bits of several kinds
        for payload in [0usize, 1, zeros.saturating_sub(1), zeros, zeros + 1] {
            for kind in 0..3 {
                let mut bs = vec![false; zeros];
                bs.push(true);
                for i in 0..payload {
                    bs.push(match kind {
                        0 => false,
                        1 => true,
                        _ => i + 1 == payload,
                    });
                }
                push(bs);
            }
        }
    }
    for _ in 0..20 {
        let k = rng.below(2 * n as u128 + 4) as usize;
        push(rand_bits(rng, k));
    }
}

fn boundary_syms(n: u32) -> Vec<u128> {
    let max = max_of(n);
    let mut v = vec![0u128, 1, 2, 3, max, max - 1, max - 2, max / 2, max / 2 + 1];
    for k in 1..n {
        let p = 1u128 << k;
        v.extend([p - 2, p - 1, p]);
    }
    v.sort();
    v.dedup();
    v
}

pub fn gen(rng: &mut Rng, tier: &str, out: &mut Vec<String>) {
    let thorough = tier == "thorough";
    // 1. complete sweeps at u8: every bit string of length n (all reachable (current_word, mask),
    //    every fill level 0..=2W+1 and beyond)
    let max_sweep = if thorough { 19 } else { 13 };
    for n in 0..=max_sweep {
        out.push(format!("bits.stacksweep 8 {:x}", n));
        out.push(format!("bits.queuesweep 8 {:x}", n));
    }
    // wider words: complete sweeps of short strings (fill levels 0..n of the first word)
    for w in [16u32, 32, 64] {
        for n in [0u32, 1, 2, 7, if thorough { 14 } else { 10 }] {
            out.push(format!("bits.stacksweep {:x} {:x}", w, n));
            out.push(format!("bits.queuesweep {:x} {:x}", w, n));
        }
    }
    // sinks that can refuse a write (bounded): the refusal lands on every fill level
    for _ in 0..(if thorough { 4000 } else { 300 }) {
        out.push(gen_bounded_line(rng));
    }
    if thorough {
        out.push("bits.stacksweep 10 12".to_string()); // u16, 18 bits: crosses the first word
        out.push("bits.queuesweep 10 12".to_string());
    }
    // 2. every fill level at every width, random patterns
    for w in WS {
        gen_fill_levels(rng, w, if thorough { 12 } else { 2 }, out);
    }
    // 3. random interleavings
    let per = if thorough { 6000 } else { 300 };
    for w in WS {
        for _ in 0..per {
            out.push(gen_stack_history(rng, w, 40));
            out.push(gen_queue_history(rng, w, 30));
        }
    }
    // 4. Exp-Golomb: all u8 / u16 symbols, boundary symbols of the wide types, malformed input
    out.push("bits.golombsweep 8 0 ff".to_string());
    for chunk in 0..16u32 {
        out.push(format!("bits.golombsweep 10 {:x} {:x}", chunk * 0x1000, chunk * 0x1000 + 0xfff));
    }
    for n in NS {
        for v in boundary_syms(n) {
            out.push(format!("bits.golomb {:x} {:x}", n, v));
        }
        let extra = if thorough { 2000 } else { 60 };
        for _ in 0..extra {
            out.push(format!("bits.golomb {:x} {:x}", n, gen_sym(rng, n)));
        }
        gen_golomb_dec(rng, n, out);
    }
    for l in 0..=(if thorough { 20 } else { 14 }) {
        out.push(format!("bits.golombdecsweep 8 {:x}", l));
    }
    for l in [0u32, 1, 5, if thorough { 18 } else { 12 }] {
        out.push(format!("bits.golombdecsweep 10 {:x}", l));
        out.push(format!("bits.golombdecsweep 20 {:x}", l));
    }
    // 5. malformed / glue
    out.push("bits.stack 8 | compressed 0".to_string());
    out.push("bits.stack 8 | compressed 5,0".to_string());
    out.push("bits.stack 8 | compressed - | r | len | empty | export | raw".to_string());
    out.push("bits.queue 8 | dec - | r | mexh | dg 8 | drain".to_string());
    out.push("bits.stack 8 | new | r | r | dg 8 | dg 80 | len | getc | raw | iter | drain".to_string());
    out.push("bits.stack 8 | new | frobnicate".to_string());
    out.push("bits.stack 7 | new".to_string());
    for w in WS {
        for _ in 0..(if thorough { 400 } else { 40 }) {
            // arbitrary words as a queue decoder's input: decode garbage
            let n = rng.below(6) as usize;
            let ws: Vec<u128> = (0..n).map(|_| rng.bits_biased(w)).collect();
            let mut line = format!("bits.queue {:x} | dec {}", w, show_list(ws));
            for _ in 0..rng.below(8) {
                let mut none = Vec::new();
                line.push_str(" | ");
                line.push_str(&gen_read_op(rng, &mut none));
            }
            line.push_str(" | raw | mexh | drain");
            out.push(line);
        }
    }
}

// ---------------------------------------------------------------------------------------
// implementation-level oracles (no reference to the Lean model)

/// textbook Exp-Golomb codeword of `v` for an `n`-bit symbol type, written independently of the
/// crate: `k` zeros followed by the `k+1` binary digits of `v + 1` (most significant first),
/// where `v + 1` is computed without wrap-around (bignum as a bit vector).
fn ref_codeword(n: u32, v: u128) -> Vec<bool> {
    // digits of v + 1, least significant first, n + 1 digits
    let mut digits: Vec<bool> = (0..n).map(|i| v >> i & 1 == 1).collect();
    digits.push(false);
    for d in digits.iter_mut() {
        if *d {
            *d = false;
        } else {
            *d = true;
            break;
        }
    }
    while digits.last() == Some(&false) {
        digits.pop();
    }
    let k = digits.len() - 1;
    let mut cw = vec![false; k];
    cw.extend(digits.iter().rev());
    cw
}

#[derive(Clone, Debug)]
enum Item {
    Bit(bool),
    Sym(u32, u128, usize),
}

fn oracle_stack<W: BitArray>(rng: &mut Rng, iters: usize, rep: &mut Report) {
    let w = W::BITS as u32;
    for _ in 0..iters {
        let mut coder = StackCoder::<W>::new();
        let mut twin = StackCoder::<W>::new(); // never inspected, never re-imported (C08)
        let mut ghost: Vec<bool> = Vec::new();
        let mut items: Vec<Item> = Vec::new();
        let mut desc = format!("bits.stack {:x} | new", w);
        let steps = rng.next() % 60;
        let mut write_bias = 10;
        let mut failed = false;
        for i in 0..steps {
            if i % 8 == 0 {
                write_bias = *rng.pick(&[4u64, 9, 13]);
            }
            let r = rng.next() % 20;
            if r < write_bias {
                if rng.chance(1, 2) {
                    let n = match rng.next() % 3 {
                        0 => 1,
                        1 => rng.below(w as u128 + 3) as usize,
                        _ => rng.below(4) as usize,
                    };
                    let bs = rand_bits(rng, n);
                    desc.push_str(&format!(" | ws {}", show_bits(&bs)));
                    for &b in &bs {
                        coder.write_bit(b).unwrap_infallible();
                        twin.write_bit(b).unwrap_infallible();
                        ghost.push(b);
                        items.push(Item::Bit(b));
                    }
                } else {
                    let n = *rng.pick(&NS);
                    let v = gen_sym(rng, n);
                    desc.push_str(&format!(" | eg {:x} {:x}", n, v));
                    with_n!(n, N => {
                        coder.encode_symbol(from_u128::<N>(v), ExpGolomb::<N>::new()).unwrap();
                        twin.encode_symbol(from_u128::<N>(v), ExpGolomb::<N>::new()).unwrap();
                    });
                    let cw = ref_codeword(n, v);
                    ghost.extend(cw.iter().rev());
                    items.push(Item::Sym(n, v, cw.len()));
                    rep.count(&format!("C16.eg.N{}", n));
                    if v == max_of(n) {
                        rep.count("C16.eg.max");
                    }
                }
            } else if r < 16 {
                match items.last().cloned() {
                    Some(Item::Sym(n, v, k)) => {
                        desc.push_str(&format!(" | dg {:x}", n));
                        let got = with_n!(n, N => show_sym(coder.decode_symbol(ExpGolomb::<N>::new())));
                        let _ = with_n!(n, N => show_sym(twin.decode_symbol(ExpGolomb::<N>::new())));
                        rep.eval("C16");
                        items.pop();
                        ghost.truncate(ghost.len() - k);
                        if got != hex(v) {
                            rep.fail("C16", format!("{} => decoded {} expected {:x}", desc, got, v));
                            failed = true;
                            break;
                        }
                    }
                    _ => {
                        desc.push_str(" | r");
                        let got = coder.read_bit().unwrap_infallible();
                        let _ = twin.read_bit().unwrap_infallible();
                        rep.eval("C16");
                        let exp = ghost.pop();
                        items.pop();
                        if exp.is_none() {
                            rep.count("C16.read_from_empty");
                        }
                        if got != exp {
                            rep.fail("C16", format!("{} => read {:?} expected {:?}", desc, got, exp));
                            failed = true;
                            break;
                        }
                    }
                }
            } else if r == 16 {
                // export -> re-import must preserve content (C16), at whatever fill level we are
                desc.push_str(" | export");
                let v = std::mem::take(&mut coder).into_compressed().unwrap_infallible();
                rep.eval("C16");
                rep.eval("C18");
                rep.count(&format!("C16.export.fill{}", ghost.len() % w as usize));
                if v.len() != ghost.len() / w as usize + 1 {
                    // format, not C16/C18: the correspondence flags format changes
                    rep.count("C16.export_format_differs");
                    rep.sample("C16.export_format_differs", || format!("{} => {} words exported for {} bits", desc, v.len(), ghost.len()));
                }
                match StackCoder::<W>::from_compressed(v) {
                    Ok(c) => coder = c,
                    Err(_) => {
                        rep.fail("C16", format!("{} => re-import of own export rejected", desc));
                        failed = true;
                        break;
                    }
                }
            } else {
                // inspections: must not change anything observable (C08) and must agree with the
                // ghost (C16 exact len, C18)
                let kind = rng.next() % 5;
                rep.eval("C08");
                match kind {
                    0 => {
                        desc.push_str(" | getc");
                        let g = coder.get_compressed();
                        let view: Vec<W> = g.to_vec();
                        drop(g);
                        rep.eval("C18");
                        // the view must be what finishing now would give
                        let mut fresh = StackCoder::<W>::new();
                        for &b in &ghost {
                            fresh.write_bit(b).unwrap_infallible();
                        }
                        let exp = fresh.into_compressed().unwrap_infallible();
                        if view != exp {
                            rep.fail("C08", format!("{} => guard shows {} but a coder with the same bits exports {}", desc, show_words(&view), show_words(&exp)));
                            failed = true;
                            break;
                        }
                        if coder.len() / w as usize + 1 != view.len() {
                            rep.count("C16.export_format_differs");
                        }
                        if coder.len() != ghost.len() {
                            rep.fail("C18", format!("{} | len => len {} / {} words in the view / {} bits written", desc, coder.len(), view.len(), ghost.len()));
                            failed = true;
                            break;
                        }
                    }
                    1 => {
                        desc.push_str(" | iter");
                        let bs: Vec<bool> = coder.iter().map(|b| b.unwrap_infallible()).collect();
                        let exp: Vec<bool> = ghost.iter().rev().copied().collect();
                        if bs != exp {
                            rep.fail("C08", format!("{} => iter yields {} expected {}", desc, show_bits(&bs), show_bits(&exp)));
                            failed = true;
                            break;
                        }
                    }
                    2 => {
                        desc.push_str(" | len");
                        rep.eval("C16");
                        rep.eval("C18");
                        if coder.len() != ghost.len() {
                            rep.fail("C16", format!("{} => {:x} expected {:x}", desc, coder.len(), ghost.len()));
                            failed = true;
                            break;
                        }
                    }
                    3 => {
                        desc.push_str(" | empty");
                        rep.eval("C18");
                        if coder.is_empty() != ghost.is_empty() {
                            rep.fail("C18", format!("{} => {} but {} bits are on the stack", desc, coder.is_empty(), ghost.len()));
                            failed = true;
                            break;
                        }
                    }
                    _ => {
                        desc.push_str(" | len");
                        let d = coder.as_decoder();
                        if d.len() != ghost.len() {
                            rep.fail("C18", format!("{} => as_decoder().len() = {} expected {}", desc, d.len(), ghost.len()));
                            failed = true;
                            break;
                        }
                    }
                }
            }
        }
        if failed {
            continue;
        }
        // final: both coders must hold the same bits = the ghost (C08 twin run, C16 LIFO)
        rep.eval("C08");
        rep.eval("C16");
        let a: Vec<bool> = coder.by_ref().map(|b| b.unwrap_infallible()).collect();
        let b: Vec<bool> = twin.by_ref().map(|b| b.unwrap_infallible()).collect();
        let exp: Vec<bool> = ghost.iter().rev().copied().collect();
        if a != exp {
            rep.fail("C16", format!("{} | drain => {} expected {}", desc, show_bits(&a), show_bits(&exp)));
        }
        if a != b {
            rep.fail("C08", format!("{} | drain => inspected coder holds {} but the uninspected twin {}", desc, show_bits(&a), show_bits(&b)));
        }
        if !coder.is_empty() || coder.len() != 0 {
            rep.fail("C18", format!("{} | drain | len | empty => not empty after draining", desc));
        }
        rep.sample("C16", || desc.clone());
        rep.sample("C08", || desc.clone());
        rep.count(&format!("C16.stack.hist.W{}", w));
    }
}

fn oracle_queue<W: BitArray>(rng: &mut Rng, iters: usize, rep: &mut Report) {
    let w = W::BITS as usize;
    for _ in 0..iters {
        let mut coder = QueueEncoder::<W>::new();
        let mut twin = QueueEncoder::<W>::new();
        let mut ghost: Vec<bool> = Vec::new();
        let mut items: Vec<Item> = Vec::new();
        let mut desc = format!("bits.queue {:x} | new", w);
        let steps = rng.next() % 40;
        let mut failed = false;
        for _ in 0..steps {
            let r = rng.next() % 20;
            if r < 8 {
                let n = match rng.next() % 3 {
                    0 => 1,
                    1 => rng.below(w as u128 + 3) as usize,
                    _ => rng.below(4) as usize,
                };
                let bs = rand_bits(rng, n);
                desc.push_str(&format!(" | ws {}", show_bits(&bs)));
                for &b in &bs {
                    coder.write_bit(b).unwrap_infallible();
                    twin.write_bit(b).unwrap_infallible();
                    ghost.push(b);
                    items.push(Item::Bit(b));
                }
            } else if r < 15 {
                let n = *rng.pick(&NS);
                let v = gen_sym(rng, n);
                desc.push_str(&format!(" | eg {:x} {:x}", n, v));
                with_n!(n, N => {
                    coder.encode_symbol(from_u128::<N>(v), ExpGolomb::<N>::new()).unwrap();
                    twin.encode_symbol(from_u128::<N>(v), ExpGolomb::<N>::new()).unwrap();
                });
                let cw = ref_codeword(n, v);
                ghost.extend(cw.iter());
                items.push(Item::Sym(n, v, cw.len()));
                if v == max_of(n) {
                    rep.count("C16.queue.eg.max");
                }
            } else if r == 15 {
                // export and continue on the exported words (padding becomes part of the content)
                desc.push_str(" | export");
                let v = std::mem::take(&mut coder).into_compressed().unwrap_infallible();
                let tv = std::mem::take(&mut twin).into_compressed().unwrap_infallible();
                rep.eval("C18");
                if v.len() != ghost.len().div_ceil(w) {
                    rep.fail("C18", format!("{} => {} words exported for {} bits", desc, v.len(), ghost.len()));
                    failed = true;
                    break;
                }
                while ghost.len() % w != 0 {
                    ghost.push(false);
                    items.push(Item::Bit(false));
                }
                coder = QueueEncoder::from_compressed(v);
                twin = QueueEncoder::from_compressed(tv);
            } else {
                rep.eval("C08");
                match rng.next() % 3 {
                    0 => {
                        desc.push_str(" | getc");
                        let g = coder.get_compressed();
                        let view: Vec<W> = g.to_vec();
                        drop(g);
                        rep.eval("C18");
                        let mut fresh = QueueEncoder::<W>::new();
                        for &b in &ghost {
                            fresh.write_bit(b).unwrap_infallible();
                        }
                        let exp = fresh.into_compressed().unwrap_infallible();
                        if view != exp {
                            rep.fail("C08", format!("{} => guard shows {} but a coder with the same bits exports {}", desc, show_words(&view), show_words(&exp)));
                            failed = true;
                            break;
                        }
                        if view.is_empty() != coder.is_empty() || view.len() != coder.len().div_ceil(w) {
                            rep.fail("C18", format!("{} | len | empty => len {} is_empty {} but the view has {} words", desc, coder.len(), coder.is_empty(), view.len()));
                            failed = true;
                            break;
                        }
                    }
                    1 => {
                        desc.push_str(" | len");
                        rep.eval("C16");
                        rep.eval("C18");
                        if coder.len() != ghost.len() {
                            rep.fail("C16", format!("{} => {:x} expected {:x}", desc, coder.len(), ghost.len()));
                            failed = true;
                            break;
                        }
                    }
                    _ => {
                        desc.push_str(" | empty");
                        rep.eval("C18");
                        if coder.is_empty() != ghost.is_empty() {
                            rep.fail("C18", format!("{} => {} but {} bits were written", desc, coder.is_empty(), ghost.len()));
                            failed = true;
                            break;
                        }
                    }
                }
            }
        }
        if failed {
            continue;
        }
        desc.push_str(" | todec");
        let mut dec = coder.into_decoder().unwrap_infallible();
        let mut tdec = twin.into_decoder().unwrap_infallible();
        // FIFO: items come back in the order written; symbols via decode_symbol, bits via read_bit
        let mut pos = 0usize;
        for it in &items {
            rep.eval("C16");
            match *it {
                Item::Bit(b) => {
                    desc.push_str(" | r");
                    let got = dec.read_bit().unwrap_infallible();
                    let tgot = tdec.read_bit().unwrap_infallible();
                    if rng.chance(1, 6) {
                        rep.eval("C08");
                        dec = dec.clone();
                        let _ = dec.maybe_exhausted();
                    }
                    if got != Some(b) || tgot != got {
                        rep.fail("C16", format!("{} => read {:?} (twin {:?}) expected {}", desc, got, tgot, b));
                        failed = true;
                        break;
                    }
                    pos += 1;
                }
                Item::Sym(n, v, k) => {
                    desc.push_str(&format!(" | dg {:x}", n));
                    let got = with_n!(n, N => show_sym(dec.decode_symbol(ExpGolomb::<N>::new())));
                    let tgot = with_n!(n, N => show_sym(tdec.decode_symbol(ExpGolomb::<N>::new())));
                    if got != hex(v) || tgot != got {
                        rep.fail("C16", format!("{} => decoded {} (twin {}) expected {:x}", desc, got, tgot, v));
                        failed = true;
                        break;
                    }
                    pos += k;
                }
            }
        }
        if failed {
            continue;
        }
        // what is left is zero padding up to the next word boundary, then the end
        rep.eval("C16");
        let restv: Vec<bool> = dec.by_ref().map(|b| b.unwrap_infallible()).collect();
        let pad = (w - ghost.len() % w) % w;
        if restv.len() != pad || restv.iter().any(|&b| b) || pos != ghost.len() {
            rep.fail("C16", format!("{} | drain => {} expected {} zero bits of padding", desc, show_bits(&restv), pad));
        }
        if !dec.maybe_exhausted() {
            rep.fail("C18", format!("{} | drain | mexh => false after reading everything", desc));
        }
        rep.sample("C16", || desc.clone());
        rep.count(&format!("C16.queue.hist.W{}", w));
    }
}

/// export -> re-import at every fill level and every bit pattern (exhaustive for short strings)
fn oracle_export_exhaustive<W: BitArray>(max_n: u32, rep: &mut Report) {
    let w = W::BITS;
    for n in 0..=max_n {
        for pat in 0..(1u64 << n) {
            let bs = pat_bits(n, pat);
            let v = stack_of::<W>(&bs).into_compressed().unwrap_infallible();
            rep.eval("C16");
            rep.eval("C18");
            let nwords = v.len();
            let last = v.last().copied();
            let shown = show_words(&v);
            let replay = || format!("bits.stack {:x} | new | ws {} | export | len | drain", w, show_bits(&bs));
            match StackCoder::<W>::from_compressed(v) {
                Ok(mut c) => {
                    let l = c.len();
                    let mut back: Vec<bool> = c.by_ref().map(|b| b.unwrap_infallible()).collect();
                    back.reverse();
                    if l != bs.len() || back != bs {
                        rep.fail("C16", format!("{} => exported {} re-imported len {:x} bits {}", replay(), shown, l, show_bits(&back)));
                    }
                }
                Err(_) => rep.fail("C16", format!("{} => exported {} rejected on re-import", replay(), shown)),
            }
            if nwords != bs.len() / w + 1 || last == Some(W::zero()) {
                rep.count("C16.export_format_differs");
                rep.sample("C16.export_format_differs", || format!("{} => exported {} for {} bits", replay(), shown, bs.len()));
            }
            // queue: export is the zero padded bit string; decoder yields the bits first
            rep.eval("C16");
            let mut d = queue_of::<W>(&bs).into_decoder().unwrap_infallible();
            let all: Vec<bool> = d.by_ref().map(|b| b.unwrap_infallible()).collect();
            let mut exp = bs.clone();
            while exp.len() % w != 0 {
                exp.push(false);
            }
            if all != exp {
                rep.fail("C16", format!("bits.queue {:x} | new | ws {} | todec | drain => {} expected {}", w, show_bits(&bs), show_bits(&all), show_bits(&exp)));
            }
        }
        rep.count(&format!("C16.export.exhaustive.W{}.len{}", w, n));
    }
}

fn oracle_export_random<W: BitArray>(rng: &mut Rng, reps: usize, rep: &mut Report) {
    let w = W::BITS;
    for k in 0..=(2 * w + 2) {
        for _ in 0..reps {
            let bs = rand_bits(rng, k);
            let v = stack_of::<W>(&bs).into_compressed().unwrap_infallible();
            rep.eval("C16");
            let shown = show_words(&v);
            let replay = || format!("bits.stack {:x} | new | ws {} | export | len | drain", w, show_bits(&bs));
            match StackCoder::<W>::from_compressed(v) {
                Ok(mut c) => {
                    let l = c.len();
                    let mut back: Vec<bool> = c.by_ref().map(|b| b.unwrap_infallible()).collect();
                    back.reverse();
                    if l != bs.len() || back != bs {
                        rep.fail("C16", format!("{} => exported {} re-imported len {:x} bits {}", replay(), shown, l, show_bits(&back)));
                    }
                }
                Err(_) => rep.fail("C16", format!("{} => exported {} rejected on re-import", replay(), shown)),
            }
        }
    }
}

/// bits of a word list, first word first, least significant bit first
fn unpack<W: BitArray>(ws: &[W]) -> Vec<bool> {
    let mut out = Vec::with_capacity(ws.len() * W::BITS);
    for &w in ws {
        let x = to_u128(w);
        for i in 0..W::BITS {
            out.push(x >> i & 1 == 1);
        }
    }
    out
}

/// a stack coder brought into its state by a history `phases = [(written, read back), …]`;
/// returns the coder, the reference content and the replay prefix. `None` (after reporting) if a
/// read already disagreed with the reference.
fn stack_after<W: BitArray>(
    rng: &mut Rng,
    phases: &[(usize, usize)],
    rep: &mut Report,
) -> Option<(StackCoder<W>, Vec<bool>, String)> {
    let w = W::BITS;
    let mut c = StackCoder::<W>::new();
    let mut ghost: Vec<bool> = Vec::new();
    let mut desc = format!("bits.stack {:x} | new", w);
    for &(n, r) in phases {
        let bs = rand_bits(rng, n);
        desc.push_str(&format!(" | ws {}", show_bits(&bs)));
        for &b in &bs {
            c.write_bit(b).unwrap_infallible();
            ghost.push(b);
        }
        for _ in 0..r {
            desc.push_str(" | r");
            let got = c.read_bit().unwrap_infallible();
            let exp = ghost.pop();
            rep.eval("C16");
            if got != exp {
                rep.fail("C16", format!("{} => read {:?} expected {:?}", desc, got, exp));
                return None;
            }
        }
    }
    Some((c, ghost, desc))
}

/// the stack coder `c` must hold exactly `ghost`: len, is_empty, and (consuming) the pops
fn expect_stack_content<W: BitArray>(mut c: StackCoder<W>, ghost: &[bool], desc: &str, rep: &mut Report) -> bool {
    rep.eval("C16");
    rep.eval("C18");
    let l = c.len();
    let e = SymbolCoder::is_empty(&c);
    let mut back: Vec<bool> = c.by_ref().map(|b| b.unwrap_infallible()).collect();
    back.reverse();
    if back != ghost {
        rep.fail("C16", format!("{} | drain => holds {} expected {}", desc, show_bits(&back), show_bits(ghost)));
        return false;
    }
    if l != ghost.len() || e != ghost.is_empty() {
        rep.fail("C18", format!("{} | len | empty => len {:x} is_empty {} but {} bits are on the stack", desc, l, e, ghost.len()));
        return false;
    }
    true
}

/// Format of the exported words (payload bits, terminator, zero padding, `len / W + 1` words),
/// compared with a reference packing.  This is **not** part of C16/C08/C18 (an export in another
/// format that re-imports to the same content satisfies them), so a difference is only counted:
/// `HIST C16.export_format_differs` + a sample; the correspondence flags any format change.
fn note_stack_export_format<W: BitArray>(v: &[W], ghost: &[bool], desc: &str, rep: &mut Report) {
    let mut exp = ghost.to_vec();
    exp.push(true);
    while exp.len() % W::BITS != 0 {
        exp.push(false);
    }
    if unpack(v) != exp {
        rep.count("C16.export_format_differs");
        rep.sample("C16.export_format_differs", || {
            format!("{} => exported {} for the content {} (reference packing: payload, terminator, zero padding)", desc, show_words(v), show_bits(ghost))
        });
    }
}

/// export → re-import, double export and guard-then-export on a stack coder that was brought
/// into its state by writes **and reads** (in particular: nothing pending in `current_word`
/// while the backend holds words, which plain write-then-export never reaches)
fn stack_export_variants<W: BitArray>(rng: &mut Rng, phases: &[(usize, usize)], rep: &mut Report) {
    // (1) export -> re-import
    if let Some((c, ghost, desc)) = stack_after::<W>(rng, phases, rep) {
        let desc = format!("{} | export", desc);
        let l = c.len();
        if l != ghost.len() {
            rep.fail("C18", format!("{} => len {:x} before the export, {} bits written and not read back", desc, l, ghost.len()));
        }
        let v = c.into_compressed().unwrap_infallible();
        note_stack_export_format(&v, &ghost, &desc, rep);
        rep.eval("C16");
        {
            match StackCoder::<W>::from_compressed(v.clone()) {
                Ok(c2) => {
                    // (2) … and once more: export of the re-imported coder is the same words
                    if expect_stack_content(c2, &ghost, &desc, rep) {
                        let c3 = match StackCoder::<W>::from_compressed(v.clone()) {
                            Ok(c3) => c3,
                            Err(_) => {
                                rep.fail("C16", format!("{} => second re-import of the same words rejected", desc));
                                return;
                            }
                        };
                        let desc2 = format!("{} | export", desc);
                        let v2 = c3.into_compressed().unwrap_infallible();
                        rep.eval("C16");
                        if v2 != v {
                            rep.fail("C16", format!("{} => second export {} differs from the first {}", desc2, show_words(&v2), show_words(&v)));
                        } else if let Ok(mut c4) = StackCoder::<W>::from_compressed(v2) {
                            // keep using it: push and pop across the old boundary
                            let extra = rand_bits(rng, 1 + (rng.0 % 3) as usize);
                            let mut g = ghost.clone();
                            for &b in &extra {
                                c4.write_bit(b).unwrap_infallible();
                                g.push(b);
                            }
                            expect_stack_content(c4, &g, &format!("{} | ws {}", desc2, show_bits(&extra)), rep);
                        } else {
                            rep.fail("C16", format!("{} => second re-import rejected", desc2));
                        }
                    }
                }
                Err(_) => rep.fail("C16", format!("{} => re-import of own export {} rejected", desc, show_words(&v))),
            }
        }
    }
    // (3) guard, drop, then export (C08: the guard shows what the export returns and changes nothing)
    if let Some((mut c, ghost, desc)) = stack_after::<W>(rng, phases, rep) {
        let desc = format!("{} | getc", desc);
        rep.eval("C08");
        let view: Vec<W> = c.get_compressed().to_vec();
        note_stack_export_format(&view, &ghost, &desc, rep);
        if c.len() != ghost.len() || SymbolCoder::is_empty(&c) != ghost.is_empty() {
            rep.fail("C08", format!("{} | len | empty => len {:x} is_empty {} after the guard, content has {} bits", desc, c.len(), SymbolCoder::is_empty(&c), ghost.len()));
            return;
        }
        let again: Vec<W> = c.get_compressed().to_vec();
        let desc = format!("{} | getc | export", desc);
        let v = c.into_compressed().unwrap_infallible();
        rep.eval("C08");
        if again != view || v != view {
            rep.fail("C08", format!("{} => first guard {} second guard {} export {}", desc, show_words(&view), show_words(&again), show_words(&v)));
            return;
        }
        match StackCoder::<W>::from_compressed(v) {
            Ok(c2) => {
                expect_stack_content(c2, &ghost, &desc, rep);
            }
            Err(_) => rep.fail("C16", format!("{} => re-import rejected", desc)),
        }
    }
    // (4) guard, drop, then keep writing / reading: same as a twin that was never inspected
    if let Some((mut c, ghost, desc)) = stack_after::<W>(rng, phases, rep) {
        rep.eval("C08");
        let _ = c.get_compressed().len();
        let _ = c.iter().count();
        let d = c.as_decoder();
        if d.len() != ghost.len() {
            rep.fail("C18", format!("{} | getc | iter => as_decoder().len() = {:x}, content has {} bits", desc, d.len(), ghost.len()));
        }
        let extra = rand_bits(rng, (rng.0 % (W::BITS as u64 + 2)) as usize);
        let mut g = ghost.clone();
        for &b in &extra {
            c.write_bit(b).unwrap_infallible();
            g.push(b);
        }
        let desc = format!("{} | getc | iter | ws {}", desc, show_bits(&extra));
        if !expect_stack_content(c, &g, &desc, rep) {
            rep.fail("C08", format!("{} => content differs from the uninspected reference", desc));
        }
    }
}

/// every (bits written, bits read back) pair up to three words, then random multi-phase
/// histories biased towards exact word multiples
fn oracle_stack_directed<W: BitArray>(rng: &mut Rng, random_hist: usize, rep: &mut Report) {
    let w = W::BITS;
    // non-empty contents first (their failures are the informative ones), emptied coders last
    for n in 1..=(3 * w + 1) {
        for r in 0..n {
            stack_export_variants::<W>(rng, &[(n, r)], rep);
            if (n - r) % w == 0 {
                rep.count(&format!("C16.directed.flushed_state.W{}", w));
            }
        }
    }
    for n in 0..=(3 * w + 1) {
        stack_export_variants::<W>(rng, &[(n, n)], rep);
    }
    // reading more than was written (down to empty and beyond)
    for n in [0usize, 1, w - 1, w, w + 1, 2 * w] {
        stack_export_variants::<W>(rng, &[(n, n + 2)], rep);
    }
    for _ in 0..random_hist {
        let mut phases = Vec::new();
        let mut held = 0usize;
        for _ in 0..(1 + rng.next() % 3) {
            let n = rng.below(2 * w as u128 + 3) as usize;
            held += n;
            let r = match rng.next() % 4 {
                0 => held % w,                          // down to a word boundary
                1 => (held % w + w).min(held),          // one word further
                2 => held,                              // everything
                _ => rng.below(held as u128 + 1) as usize,
            };
            let r = r.min(held);
            held -= r;
            phases.push((n, r));
        }
        stack_export_variants::<W>(rng, &phases, rep);
    }
    rep.count(&format!("C16.directed.stack.W{}", w));
}

/// queue: `into_compressed` / `get_compressed` / `into_decoder` after every write count up to
/// three words (incl. exact word multiples), continuing after an export, decoder reads across
/// word boundaries, `maybe_exhausted` along the way
fn oracle_queue_directed<W: BitArray>(rng: &mut Rng, reps: usize, rep: &mut Report) {
    let w = W::BITS;
    for n in (1..=(3 * w + 1)).chain(0..1) {
        for _ in 0..reps {
            let bs = rand_bits(rng, n);
            let desc = format!("bits.queue {:x} | new | ws {}", w, show_bits(&bs));
            let mut padded = bs.clone();
            while padded.len() % w != 0 {
                padded.push(false);
            }
            // export: zero padded payload, ceil(n / W) words, agrees with len / is_empty and the guard
            let mut c = queue_of::<W>(&bs);
            rep.eval("C16");
            rep.eval("C18");
            rep.eval("C08");
            let l = c.len();
            let e = SymbolCoder::is_empty(&c);
            let view: Vec<W> = c.get_compressed().to_vec();
            let l2 = c.len();
            let v = c.into_compressed().unwrap_infallible();
            if view != v || l2 != l {
                rep.fail("C08", format!("{} | getc | len | export => guard {} export {} len {:x} -> {:x}", desc, show_words(&view), show_words(&v), l, l2));
                continue;
            }
            if unpack(&v) != padded || v.len() != n.div_ceil(w) {
                // format, not C16: the FIFO check through the decoder below is the property
                rep.count("C16.export_format_differs");
                rep.sample("C16.export_format_differs", || format!("{} | export => {} (reference: the zero padded bits)", desc, show_words(&v)));
                // the property itself: the decoder hands out the written bits first, in order
                let mut d = queue_of::<W>(&bs).into_decoder().unwrap_infallible();
                let got: Vec<bool> = d.by_ref().map(|b| b.unwrap_infallible()).take(n).collect();
                if got != bs {
                    rep.fail("C16", format!("{} | todec | drain => {} expected the written bits first", desc, show_bits(&got)));
                }
                continue;
            }
            if l != n || e != (n == 0) || e != v.is_empty() {
                rep.fail("C18", format!("{} | len | empty | export => len {:x} is_empty {} export has {} words", desc, l, e, v.len()));
                continue;
            }
            // continue on the exported words, then decode everything across the word boundaries
            let more = rand_bits(rng, (rng.0 % (w as u64 + 2)) as usize);
            let mut c2 = QueueEncoder::<W>::from_compressed(v);
            rep.eval("C16");
            if c2.len() != padded.len() {
                rep.fail("C18", format!("{} | export | len => {:x} expected {:x}", desc, c2.len(), padded.len()));
                continue;
            }
            for &b in &more {
                c2.write_bit(b).unwrap_infallible();
            }
            let mut all = padded.clone();
            all.extend(more.iter());
            let total = all.len();
            while all.len() % w != 0 {
                all.push(false);
            }
            let desc2 = format!("{} | export | ws {} | todec", desc, show_bits(&more));
            let mut d = c2.into_decoder().unwrap_infallible();
            let mut ok = true;
            for (i, &b) in all.iter().enumerate() {
                // not exhausted while a whole unread word or an unread one bit is left
                let words_left = all.len() - i > w - (i % w) || (i % w == 0);
                let one_left = all[i..].iter().any(|&x| x);
                let m = d.maybe_exhausted();
                rep.eval("C18");
                if (one_left || (i % w == 0)) && m {
                    rep.fail("C18", format!("{} | r*{:x} | mexh => true with unread data left", desc2, i));
                    ok = false;
                    break;
                }
                let _ = words_left;
                let got = d.read_bit().unwrap_infallible();
                if got != Some(b) {
                    rep.fail("C16", format!("{} | r*{:x} => bit {} is {:?} expected {}", desc2, i + 1, i, got, b));
                    ok = false;
                    break;
                }
                if i + 1 == total && total % w != 0 {
                    // consumed precisely the payload: only padding of the current word is left
                    rep.eval("C18");
                    if !d.maybe_exhausted() {
                        rep.fail("C18", format!("{} | r*{:x} | mexh => false after exactly the payload", desc2, i + 1));
                        ok = false;
                        break;
                    }
                }
            }
            if ok {
                rep.eval("C16");
                if d.read_bit().unwrap_infallible().is_some() || !d.maybe_exhausted() {
                    rep.fail("C16", format!("{} | drain | r | mexh => data after the last word / not exhausted", desc2));
                }
            }
        }
    }
    rep.count(&format!("C16.directed.queue.W{}", w));
}

/// C08 twin run around `get_compressed()`.  A coder is brought into a state by `make` (plain
/// writes; writes followed by reads — in particular back to exactly a word boundary, which
/// leaves "nothing pending, backend non-empty"; or `from_compressed` of exported data); `ghost`
/// is the content it then holds (reference, first written first) and `desc` the protocol line
/// that builds it.  Then one or two guard views are taken and dropped and everything observable
/// is compared with a twin that was built the same way and never inspected, **and** with the
/// reference content: the view itself (= what the twin exports), `len` / `is_empty`, and — after
/// writing `more` bits to both — the final export and what reading everything back yields.
/// Tags: every difference from the twin is C08; lost / changed content and a wrong `len` are also
/// C16 ("what is read back equals what was written", exact length) — for a history that happens
/// to contain an inspection; wrong `len` / `is_empty` also C18.
/// One function per coder because `get_compressed` is not generic.
fn guard_twin_stack<W: BitArray>(
    desc: &str,
    make: &dyn Fn() -> StackCoder<W>,
    ghost: &[bool],
    views: usize,
    more: &[bool],
    rep: &mut Report,
) {
    for readback in [false, true] {
        let mut c = make();
        let mut twin = make();
        let mut d = desc.to_string();
        for _ in 0..views {
            d.push_str(" | getc");
            rep.eval("C08");
            set_case(&d);
            let view: Vec<W> = c.get_compressed().to_vec();
            let exp = make().into_compressed().unwrap_infallible();
            if view != exp {
                rep.fail("C08", format!("{} => guard shows {} but an uninspected twin with the same history exports {}", d, show_words(&view), show_words(&exp)));
                return;
            }
        }
        // (a) size / emptiness
        rep.eval("C08");
        rep.eval("C16");
        rep.eval("C18");
        set_case(&format!("{} | len | empty", d));
        let (l, e, tl, te) = (c.len(), SymbolCoder::is_empty(&c), twin.len(), SymbolCoder::is_empty(&twin));
        if l != tl || e != te || l != ghost.len() || e != ghost.is_empty() {
            let msg = format!("{} | len | empty => {:x} {} but the uninspected twin reports {:x} {} and {:x} bits were written and not read back", d, l, e, tl, te, ghost.len());
            if l != tl || e != te {
                rep.fail("C08", msg.clone());
            }
            if l != ghost.len() {
                rep.fail("C16", msg.clone());
            }
            rep.fail("C18", msg);
            return;
        }
        // (b) keep writing, then finish
        if !more.is_empty() {
            d.push_str(&format!(" | ws {}", show_bits(more)));
        }
        set_case(&d);
        for &b in more {
            c.write_bit(b).unwrap_infallible();
            twin.write_bit(b).unwrap_infallible();
        }
        let mut all = ghost.to_vec();
        all.extend(more.iter());
        let mut all_rev = all.clone();
        all_rev.reverse();
        rep.eval("C08");
        rep.eval("C16");
        if !readback {
            d.push_str(" | export");
            set_case(&d);
            let v = c.into_compressed().unwrap_infallible();
            let tv = twin.into_compressed().unwrap_infallible();
            if v != tv {
                rep.fail("C08", format!("{} => {} but the uninspected twin exports {}", d, show_words(&v), show_words(&tv)));
            }
            // the export of the inspected coder must still carry the content
            set_case(&format!("{} | drain", d));
            let shown = show_words(&v);
            match StackCoder::<W>::from_compressed(v) {
                Ok(c2) => {
                    let back: Vec<bool> = c2.map(|b| b.unwrap_infallible()).collect();
                    if back != all_rev {
                        rep.fail("C16", format!("{} | drain => exported {}, which re-imports as {} but {} was written and not read back", d, shown, show_bits(&back), show_bits(&all_rev)));
                        return;
                    }
                }
                Err(_) => {
                    rep.fail("C16", format!("{} => exported {}, which from_compressed rejects", d, shown));
                    return;
                }
            }
        } else {
            d.push_str(" | drain");
            set_case(&d);
            let got: Vec<bool> = c.by_ref().map(|b| b.unwrap_infallible()).collect();
            let tgot: Vec<bool> = twin.by_ref().map(|b| b.unwrap_infallible()).collect();
            if got != tgot {
                rep.fail("C08", format!("{} => {} but the uninspected twin yields {}", d, show_bits(&got), show_bits(&tgot)));
            }
            if got != all_rev {
                rep.fail("C16", format!("{} => {} but {} was written and not read back (expected in reverse order)", d, show_bits(&got), show_bits(&all)));
                return;
            }
            if c.len() != 0 || !SymbolCoder::is_empty(&c) {
                rep.fail("C18", format!("{} | len | empty => {:x} {} after reading everything back", d, c.len(), SymbolCoder::is_empty(&c)));
                return;
            }
        }
    }
}

fn guard_twin_queue<W: BitArray>(
    desc: &str,
    make: &dyn Fn() -> QueueEncoder<W>,
    ghost: &[bool],
    views: usize,
    more: &[bool],
    rep: &mut Report,
) {
    for readback in [false, true] {
        let mut c = make();
        let mut twin = make();
        let mut d = desc.to_string();
        for _ in 0..views {
            d.push_str(" | getc");
            rep.eval("C08");
            set_case(&d);
            let view: Vec<W> = c.get_compressed().to_vec();
            let exp = make().into_compressed().unwrap_infallible();
            if view != exp {
                rep.fail("C08", format!("{} => guard shows {} but an uninspected twin with the same history exports {}", d, show_words(&view), show_words(&exp)));
                return;
            }
        }
        rep.eval("C08");
        rep.eval("C16");
        rep.eval("C18");
        set_case(&format!("{} | len | empty", d));
        let (l, e, tl, te) = (c.len(), SymbolCoder::is_empty(&c), twin.len(), SymbolCoder::is_empty(&twin));
        if l != tl || e != te || l != ghost.len() || e != ghost.is_empty() {
            let msg = format!("{} | len | empty => {:x} {} but the uninspected twin reports {:x} {} and {:x} bits were written", d, l, e, tl, te, ghost.len());
            if l != tl || e != te {
                rep.fail("C08", msg.clone());
            }
            if l != ghost.len() {
                rep.fail("C16", msg.clone());
            }
            rep.fail("C18", msg);
            return;
        }
        if !more.is_empty() {
            d.push_str(&format!(" | ws {}", show_bits(more)));
        }
        set_case(&d);
        for &b in more {
            c.write_bit(b).unwrap_infallible();
            twin.write_bit(b).unwrap_infallible();
        }
        let mut all = ghost.to_vec();
        all.extend(more.iter());
        rep.eval("C08");
        rep.eval("C16");
        if !readback {
            d.push_str(" | export");
            set_case(&d);
            let v = c.into_compressed().unwrap_infallible();
            let tv = twin.into_compressed().unwrap_infallible();
            if v != tv {
                rep.fail("C08", format!("{} => {} but the uninspected twin exports {}", d, show_words(&v), show_words(&tv)));
            }
            // the export of the inspected encoder must still carry the content, in order
            let shown = show_words(&v);
            use constriction::backends::IntoReadWords;
            let cursor: Cursor<W, Vec<W>> = IntoReadWords::<W, Queue>::into_read_words(v);
            let back: Vec<bool> = QueueDecoder::from_compressed(cursor).map(|b| b.unwrap_infallible()).collect();
            if back.len() < all.len() || back[..all.len()] != all[..] || back.len() >= all.len() + W::BITS {
                rep.fail("C16", format!("{} => exported {}, which decodes as {} but {} was written", d, shown, show_bits(&back), show_bits(&all)));
                return;
            }
        } else {
            d.push_str(" | todec");
            set_case(&d);
            // read back with the decoder's own inspections (clone, maybe_exhausted) interleaved
            let mut dec = c.into_decoder().unwrap_infallible();
            let mut tdec = twin.into_decoder().unwrap_infallible();
            let mut got = Vec::new();
            let mut tgot = Vec::new();
            let mut i = 0usize;
            loop {
                if i % 5 == 2 {
                    rep.eval("C08");
                    dec = dec.clone();
                    let _ = dec.maybe_exhausted();
                }
                i += 1;
                match dec.read_bit().unwrap_infallible() {
                    Some(b) => got.push(b),
                    None => break,
                }
            }
            while let Some(b) = tdec.read_bit().unwrap_infallible() {
                tgot.push(b);
            }
            if got != tgot {
                rep.fail("C08", format!("{} | drain => {} but the uninspected twin yields {}", d, show_bits(&got), show_bits(&tgot)));
            }
            if got.len() < all.len() || got[..all.len()] != all[..] || got.len() >= all.len() + W::BITS {
                rep.fail("C16", format!("{} | drain => {} does not consist of the written bits {} and less than a word of padding", d, show_bits(&got), show_bits(&all)));
                return;
            }
            if !dec.maybe_exhausted() {
                rep.fail("C18", format!("{} | drain | mexh => false after reading everything", d));
                return;
            }
        }
    }
}

/// the setups of the guard-twin class (non-empty coders first):
///  * n plain writes, n in 0..=3·BITS+2;
///  * n writes then r reads, with n - r a non-zero multiple of BITS **reached by reading**
///    (k·BITS content for k = 1, 2 and every r in 1..=BITS+1), plus "down to the boundary" and a
///    random r for every n;
///  * coders obtained by `from_compressed` of exported data of n bits (stack: same content;
///    queue encoder: the zero padded content), n in 0..=3·BITS+2;
/// each × 1 or 2 guard views × m ∈ {0, 1, BITS} further bits.
fn oracle_guard_twin<W: BitArray>(rng: &mut Rng, reps: usize, rep: &mut Report) {
    let w = W::BITS;
    let wx = w as u32;
    let variants = |rng: &mut Rng| -> Vec<(usize, Vec<bool>)> {
        let mut v = Vec::new();
        for views in [1usize, 2] {
            for m in [0usize, 1, w] {
                v.push((views, rand_bits(rng, m)));
            }
        }
        v
    };
    let _ = wx;
    // --- 1. read back to a word boundary (stack only: the queue encoder cannot read)
    for k in [1usize, 2] {
        for r in 1..=(w + 1) {
            for _ in 0..reps {
                let n = k * w + r;
                let bs = rand_bits(rng, n);
                let ghost = bs[..n - r].to_vec();
                let desc = format!("bits.stack {:x} | new | ws {}{}", w, show_bits(&bs), " | r".repeat(r));
                let make = || {
                    let mut c = stack_of::<W>(&bs);
                    for _ in 0..r {
                        c.read_bit().unwrap_infallible();
                    }
                    c
                };
                for (views, more) in variants(rng) {
                    guard_twin_stack::<W>(&desc, &make, &ghost, views, &more, rep);
                }
                rep.count(&format!("C08.guard_twin.read_to_boundary.W{}", w));
            }
        }
    }
    // --- 2. from_compressed of exported data
    for n in (1..=(3 * w + 2)).chain(0..1) {
        for _ in 0..reps {
            let bs = rand_bits(rng, n);
            let words = stack_of::<W>(&bs).into_compressed().unwrap_infallible();
            let desc = format!("bits.stack {:x} | compressed {}", w, show_words(&words));
            let make = || match StackCoder::<W>::from_compressed(words.clone()) {
                Ok(c) => c,
                Err(_) => StackCoder::<W>::new(),
            };
            if make().len() == n {
                // (if the re-import itself is wrong, the export oracles report it)
                for (views, more) in variants(rng) {
                    guard_twin_stack::<W>(&desc, &make, &bs, views, &more, rep);
                }
            }
            let qwords = queue_of::<W>(&bs).into_compressed().unwrap_infallible();
            let qghost = unpack(&qwords);
            let qdesc = format!("bits.queue {:x} | compressed {}", w, show_words(&qwords));
            let qmake = || QueueEncoder::<W>::from_compressed(qwords.clone());
            for (views, more) in variants(rng) {
                guard_twin_queue::<W>(&qdesc, &qmake, &qghost, views, &more, rep);
            }
            rep.count(&format!("C08.guard_twin.from_compressed.W{}", w));
        }
    }
    // --- 3. plain writes, and writes followed by reads (down to the boundary / random)
    for n in (1..=(3 * w + 2)).chain(0..1) {
        for rep_i in 0..reps {
            let bs = rand_bits(rng, n);
            let desc = format!("bits.stack {:x} | new | ws {}", w, show_bits(&bs));
            let make = || stack_of::<W>(&bs);
            let qdesc = format!("bits.queue {:x} | new | ws {}", w, show_bits(&bs));
            let qmake = || queue_of::<W>(&bs);
            for (views, more) in variants(rng) {
                guard_twin_queue::<W>(&qdesc, &qmake, &bs, views, &more, rep);
                guard_twin_stack::<W>(&desc, &make, &bs, views, &more, rep);
            }
            if n % w == 0 && n > 0 {
                rep.count(&format!("C08.guard_twin.word_multiple.W{}", w));
            }
            let r = if rep_i % 2 == 0 { n % w } else { rng.below(n as u128 + 1) as usize };
            if r > 0 {
                let ghost = bs[..n - r].to_vec();
                let desc = format!("{}{}", desc, " | r".repeat(r));
                let make = || {
                    let mut c = stack_of::<W>(&bs);
                    for _ in 0..r {
                        c.read_bit().unwrap_infallible();
                    }
                    c
                };
                for (views, more) in variants(rng) {
                    guard_twin_stack::<W>(&desc, &make, &ghost, views, &more, rep);
                }
            }
        }
    }
    rep.count(&format!("C08.guard_twin.W{}", w));
    rep.count(&format!("C16.guard_twin.W{}", w));
    rep.count(&format!("C18.guard_twin.W{}", w));
}

/// The consuming iterators: `StackCoder::into_iterator()` yields exactly the bits on the stack,
/// last written first (LIFO), then ends; `QueueEncoder::into_overshooting_iter()` yields the
/// written bits in order (FIFO), then overshoots with the zero padding of the last word, then
/// ends.  Both equal repeated `read_bit()` on a twin's decoder, and the non-consuming views taken
/// before (`iter()`, `get_compressed()`) do not change what they yield (C08).
fn oracle_into_iters<W: BitArray>(rng: &mut Rng, reps: usize, rep: &mut Report) {
    let w = W::BITS;
    for n in (1..=(3 * w + 2)).chain(0..1) {
        for rep_i in 0..reps {
            // ---- stack, after n writes and r reads (r = 0, down to a word boundary, random)
            let r = match rep_i % 3 {
                0 => 0,
                1 => n % w,
                _ => rng.below(n as u128 + 1) as usize,
            };
            let mut phases_desc = String::new();
            let bs = rand_bits(rng, n);
            let mut ghost = bs.clone();
            let mk = |inspect: bool| -> StackCoder<W> {
                let mut c = stack_of::<W>(&bs);
                for _ in 0..r {
                    c.read_bit().unwrap_infallible();
                }
                if inspect {
                    let _ = c.iter().count();
                    let _ = c.get_compressed().len();
                }
                c
            };
            for _ in 0..r {
                ghost.pop();
                phases_desc.push_str(" | r");
            }
            let desc = format!("bits.stack {:x} | new | ws {}{}", w, show_bits(&bs), phases_desc);
            let expect: Vec<bool> = ghost.iter().rev().copied().collect();
            rep.eval("C16");
            rep.count("C16.op.into_iterator");
            let got: Vec<bool> = mk(false).into_iterator().map(|b| b.unwrap_infallible()).collect();
            if got != expect {
                rep.fail("C16", format!("{} | intoiter => {} expected the bits on the stack in LIFO order {}", desc, show_bits(&got), show_bits(&expect)));
                continue;
            }
            // = repeated read_bit
            rep.eval("C16");
            let mut twin = mk(false);
            let mut reads = Vec::new();
            while let Some(b) = twin.read_bit().unwrap_infallible() {
                reads.push(b);
            }
            if reads != got || twin.read_bit().unwrap_infallible().is_some() {
                rep.fail("C16", format!("{} | intoiter => {} but repeated read_bit yields {}", desc, show_bits(&got), show_bits(&reads)));
                continue;
            }
            // the `Iterator` impl of the coder itself, used through `IntoIterator` (`for … in`)
            rep.eval("C16");
            rep.count("C16.op.for_loop_into_iter");
            let mut looped = Vec::new();
            for b in mk(false) {
                looped.push(b.unwrap_infallible());
            }
            if looped != got {
                rep.fail("C16", format!("{} | drain => {} but into_iterator yields {}", desc, show_bits(&looped), show_bits(&got)));
                continue;
            }
            // C08: iter() / get_compressed() before do not change what it yields; a prefix is a prefix
            rep.eval("C08");
            let k = rng.below(n as u128 + 2) as usize;
            let insp: Vec<bool> = mk(true).into_iterator().map(|b| b.unwrap_infallible()).collect();
            let part: Vec<bool> = mk(true).into_iterator().take(k).map(|b| b.unwrap_infallible()).collect();
            if insp != got || part[..] != got[..k.min(got.len())] {
                rep.fail("C08", format!("{} | iter | getc | intoiterk {:x} => {} / all {} but uninspected {}", desc, k, show_bits(&part), show_bits(&insp), show_bits(&got)));
                continue;
            }

            // ---- queue, after n writes
            let desc = format!("bits.queue {:x} | new | ws {}", w, show_bits(&bs));
            rep.eval("C16");
            rep.count("C16.op.into_overshooting_iter");
            let got: Vec<bool> = queue_of::<W>(&bs).into_overshooting_iter().unwrap_infallible().map(|b| b.unwrap_infallible()).collect();
            if got.len() < n || got[..n] != bs[..] {
                rep.fail("C16", format!("{} | oiter => {} does not start with the written bits", desc, show_bits(&got)));
                continue;
            }
            // documented overshoot: zero bits up to the next word boundary, then the end
            if got.len() != n.div_ceil(w) * w || got[n..].iter().any(|&b| b) {
                rep.fail("C16", format!("{} | oiter => {}: after the {} written bits the iterator must overshoot with zero bits up to the word boundary only", desc, show_bits(&got), n));
                continue;
            }
            if n % w == 0 {
                rep.count("C16.op.into_overshooting_iter.no_overshoot");
            }
            rep.eval("C16");
            let mut d = queue_of::<W>(&bs).into_decoder().unwrap_infallible();
            let mut reads = Vec::new();
            while let Some(b) = d.read_bit().unwrap_infallible() {
                reads.push(b);
            }
            if reads != got {
                rep.fail("C16", format!("{} | oiter => {} but repeated read_bit on into_decoder() yields {}", desc, show_bits(&got), show_bits(&reads)));
                continue;
            }
            rep.eval("C08");
            let mut qi = queue_of::<W>(&bs);
            let _ = qi.get_compressed().len();
            let _ = qi.len();
            let k = rng.below(got.len() as u128 + 2) as usize;
            let part: Vec<bool> = qi.into_overshooting_iter().unwrap_infallible().take(k).map(|b| b.unwrap_infallible()).collect();
            if part[..] != got[..k.min(got.len())] {
                rep.fail("C08", format!("{} | getc | len | oiterk {:x} => {} but uninspected {}", desc, k, show_bits(&part), show_bits(&got)));
                continue;
            }
        }
    }
    // `SymbolCodeError::into_coder_error` (the plumbing behind "invalid codewords are rejected")
    rep.eval("C16");
    rep.count("C16.op.into_coder_error");
    let e1 = SymbolCodeError::<u8>::InvalidCodeword(7).into_coder_error::<()>();
    let e2 = SymbolCodeError::<u8>::OutOfCompressedData.into_coder_error::<()>();
    let ok = matches!(e1, CoderError::Frontend(SymbolCodeError::InvalidCodeword(7)))
        && matches!(e2, CoderError::Frontend(SymbolCodeError::OutOfCompressedData));
    if !ok {
        rep.fail("C16", "SymbolCodeError::into_coder_error does not wrap the error as CoderError::Frontend".to_string());
    }
}

fn check_golomb<N>(n: u32, v: u128, rng: &mut Rng, rep: &mut Report)
where
    N: num_traits::Unsigned + num_traits::PrimInt + num_traits::WrappingAdd + num_traits::WrappingSub,
{
    rep.eval("C16");
    let (p, s) = golomb_bits::<N>(from_u128::<N>(v));
    let exp = ref_codeword(n, v);
    let mut srev = s.clone();
    srev.reverse();
    if p != exp || srev != exp {
        rep.fail("C16", format!("bits.golomb {:x} {:x} => {} {} expected codeword {}", n, v, show_bits(&p), show_bits(&s), show_bits(&exp)));
        return;
    }
    // prefix form: decode from a bit iterator followed by arbitrary trailing bits
    let trailing = rand_bits(rng, (rng.0 % 5) as usize);
    let mut src = p.clone();
    src.extend(trailing.iter());
    let (r, left) = golomb_decode::<N>(&src);
    if r != hex(v) || left != trailing.len() {
        rep.fail("C16", format!("bits.golombdec {:x} {} => {} with {} bits left, expected {:x} with {} left", n, show_bits(&src), r, left, v, trailing.len()));
    }
    // suffix form on a stack with bits below; the bits below must survive
    let below = rand_bits(rng, (rng.0 % 11) as usize);
    let mut c = stack_of::<u8>(&below);
    c.encode_symbol(from_u128::<N>(v), ExpGolomb::<N>::new()).unwrap();
    let got = show_sym(c.decode_symbol(ExpGolomb::<N>::new()));
    let mut rest: Vec<bool> = c.by_ref().map(|b| b.unwrap_infallible()).collect();
    rest.reverse();
    if got != hex(v) || rest != below {
        rep.fail("C16", format!("bits.stack 8 | new | ws {} | eg {:x} {:x} | dg {:x} | drain => {} / {}", show_bits(&below), n, v, n, got, show_bits(&rest)));
    }
    // prefix form through a queue
    let mut q = queue_of::<u16>(&below);
    q.encode_symbol(from_u128::<N>(v), ExpGolomb::<N>::new()).unwrap();
    for &b in &trailing {
        q.write_bit(b).unwrap_infallible();
    }
    let mut d = q.into_decoder().unwrap_infallible();
    for &b in &below {
        if d.read_bit().unwrap_infallible() != Some(b) {
            rep.fail("C16", format!("bits.queue 10 | new | ws {} | eg {:x} {:x} => leading bits differ", show_bits(&below), n, v));
            return;
        }
    }
    let got = show_sym(d.decode_symbol(ExpGolomb::<N>::new()));
    let after: Vec<bool> = d.by_ref().map(|b| b.unwrap_infallible()).take(trailing.len()).collect();
    if got != hex(v) || after != trailing {
        rep.fail("C16", format!("bits.queue 10 | new | ws {} | eg {:x} {:x} | ws {} | todec … dg => {} then {}", show_bits(&below), n, v, show_bits(&trailing), got, show_bits(&after)));
    }
}

/// every bit string that is not a codeword prefix-extension must be rejected, every accepted
/// one must re-encode to the consumed bits
fn check_golomb_decode<N>(n: u32, bs: &[bool], rep: &mut Report)
where
    N: num_traits::Unsigned + num_traits::PrimInt + num_traits::WrappingAdd + num_traits::WrappingSub,
{
    rep.eval("C16");
    let (r, left) = golomb_decode::<N>(bs);
    let consumed = bs.len() - left;
    match parse_hex(&r) {
        Some(v) => {
            let cw = ref_codeword(n, v);
            if !fits(n as u128, v) || cw[..] != bs[..consumed] {
                rep.fail("C16", format!("bits.golombdec {:x} {} => accepted as {:x} but that symbol's codeword is {}", n, show_bits(bs), v, show_bits(&cw)));
            }
            rep.count("C16.golombdec.accepted");
        }
        None => {
            // rejected: no codeword of an n-bit symbol may be a prefix of bs
            let zeros = bs.iter().take_while(|&&b| !b).count();
            let complete = zeros < bs.len() && bs.len() >= 2 * zeros + 1;
            if complete && zeros <= n as usize {
                // k zeros, k+1 digits: the value is v+1 in [2^k, 2^(k+1)); valid iff v+1 <= 2^n
                let digits = &bs[zeros..2 * zeros + 1];
                let is_pow = digits[1..].iter().all(|&b| !b);
                if zeros < n as usize || is_pow {
                    rep.fail("C16", format!("bits.golombdec {:x} {} => rejected a valid codeword", n, show_bits(bs)));
                }
            }
            rep.count("C16.golombdec.rejected");
        }
    }
}

/// code words longer than one and two `usize` words through the *provided* `encode_symbol_suffix` /
/// `encode_symbol_prefix` (which reverse the code word on a `SmallBitStack`): a stack coder fed by a
/// codebook that only knows its prefix form must hand the bits back in code-word order, a queue fed
/// by one that only knows its suffix form in reversed order
fn oracle_long_codewords<W: BitArray>(rng: &mut Rng, rep: &mut Report) {
    for len in [0usize, 1, 63, 64, 65, 127, 128, 129, 130, 191, 192, 193, 256, 257, 400] {
        let bs = rand_bits(rng, len);
        let desc = format!("bits.stack {:x} | new | via {}", W::BITS, show_bits(&bs));
        set_case(&desc);
        rep.eval("C16");
        rep.count("C16.long_codeword_via_default_method");
        let r = guarded(|| {
            let mut c = StackCoder::<W>::new();
            c.encode_symbol((), OnlyPrefix(&bs)).unwrap();
            let n = c.len();
            let mut back = Vec::new();
            while let Some(b) = c.read_bit().unwrap_infallible() {
                back.push(b);
            }
            (n, back)
        });
        match r {
            Ok((n, back)) => {
                if n != len || back != bs {
                    rep.fail("C16", format!("{} | len | drain => len {:x}, bits {} but the code word is {} ({} bits): a stack hands a code word written through the default suffix method back in code-word order", desc, n, show_bits(&back), show_bits(&bs), len));
                }
            }
            Err(class) => rep.fail("C16", format!("{} => {}", desc, class)),
        }
        let desc = format!("bits.queue {:x} | new | via {} | todec | drain", W::BITS, show_bits(&bs));
        set_case(&desc);
        rep.eval("C16");
        let r = guarded(|| {
            let mut c = QueueEncoder::<W>::new();
            c.encode_symbol((), OnlySuffix(&bs)).unwrap();
            let mut d = c.into_decoder().unwrap_infallible();
            let mut back = Vec::new();
            for _ in 0..len {
                match d.read_bit().unwrap_infallible() {
                    Some(b) => back.push(b),
                    None => break,
                }
            }
            back
        });
        match r {
            Ok(back) => {
                let want: Vec<bool> = bs.iter().rev().copied().collect();
                if back != want {
                    rep.fail("C16", format!("{} => bits {} but the reversed code word is {}", desc, show_bits(&back), show_bits(&want)));
                }
            }
            Err(class) => rep.fail("C16", format!("{} => {}", desc, class)),
        }
    }
}

pub fn oracle(rng: &mut Rng, tier: &str, rep: &mut Report) {
    let thorough = tier == "thorough";
    for _ in 0..(if thorough { 20 } else { 2 }) {
        oracle_long_codewords::<u8>(rng, rep);
        oracle_long_codewords::<u32>(rng, rep);
        oracle_long_codewords::<u64>(rng, rep);
    }
    // directed cases first: their replays are the shortest
    let greps = if thorough { 8 } else { 1 };
    let breps = if thorough { 20000 } else { 800 };
    oracle_bounded::<u8>(rng, breps, rep);
    oracle_bounded::<u16>(rng, breps, rep);
    oracle_bounded::<u32>(rng, breps, rep);
    oracle_bounded::<u64>(rng, breps, rep);
    oracle_guard_twin::<u8>(rng, greps, rep);
    oracle_guard_twin::<u16>(rng, greps, rep);
    oracle_guard_twin::<u32>(rng, greps, rep);
    oracle_guard_twin::<u64>(rng, greps, rep);
    let ireps = if thorough { 12 } else { 3 };
    oracle_into_iters::<u8>(rng, ireps, rep);
    oracle_into_iters::<u16>(rng, ireps, rep);
    oracle_into_iters::<u32>(rng, ireps, rep);
    oracle_into_iters::<u64>(rng, ireps, rep);
    let hist = if thorough { 20000 } else { 1000 };
    oracle_stack_directed::<u8>(rng, hist, rep);
    oracle_stack_directed::<u16>(rng, hist, rep);
    oracle_stack_directed::<u32>(rng, hist, rep);
    oracle_stack_directed::<u64>(rng, hist, rep);
    let qreps = if thorough { 20 } else { 2 };
    oracle_queue_directed::<u8>(rng, qreps, rep);
    oracle_queue_directed::<u16>(rng, qreps, rep);
    oracle_queue_directed::<u32>(rng, qreps, rep);
    oracle_queue_directed::<u64>(rng, qreps, rep);
    let iters = if thorough { 20000 } else { 1000 };
    oracle_stack::<u8>(rng, iters, rep);
    oracle_stack::<u16>(rng, iters, rep);
    oracle_stack::<u32>(rng, iters, rep);
    oracle_stack::<u64>(rng, iters, rep);
    oracle_queue::<u8>(rng, iters, rep);
    oracle_queue::<u16>(rng, iters, rep);
    oracle_queue::<u32>(rng, iters, rep);
    oracle_queue::<u64>(rng, iters, rep);
    oracle_export_exhaustive::<u8>(if thorough { 18 } else { 13 }, rep);
    oracle_export_exhaustive::<u16>(if thorough { 17 } else { 10 }, rep);
    oracle_export_random::<u8>(rng, 20, rep);
    oracle_export_random::<u16>(rng, 20, rep);
    oracle_export_random::<u32>(rng, 20, rep);
    oracle_export_random::<u64>(rng, 20, rep);
    // Exp-Golomb: all u8 and u16 symbols, boundary and random symbols of the wide types
    for v in 0..=0xffu128 {
        check_golomb::<u8>(8, v, rng, rep);
    }
    for v in 0..=0xffffu128 {
        check_golomb::<u16>(16, v, rng, rep);
    }
    for n in [32u32, 64, 128] {
        let mut vs = boundary_syms(n);
        for _ in 0..(if thorough { 20000 } else { 1000 }) {
            vs.push(gen_sym(rng, n));
        }
        for v in vs {
            if v == max_of(n) {
                rep.count(&format!("C16.golomb.max.N{}", n));
            }
            with_n!(n, N => check_golomb::<N>(n, v, rng, rep));
        }
    }
    // invalid codewords: every bit string up to length 2N+2 at u8, directed ones elsewhere
    for l in 0..=(if thorough { 19 } else { 15 }) {
        for pat in 0..(1u64 << l) {
            check_golomb_decode::<u8>(8, &pat_bits(l, pat), rep);
        }
    }
    for n in [16u32, 32, 64, 128] {
        let mut lines = Vec::new();
        gen_golomb_dec(rng, n, &mut lines);
        for line in lines {
            let bs = parse_bits(line.split(' ').nth(2).unwrap()).unwrap();
            with_n!(n, N => check_golomb_decode::<N>(n, &bs, rep));
        }
    }
}
