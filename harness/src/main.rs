//! Correspondence / oracle harness for constriction.  See /verif/DESIGN.md §2, §4.
//!
//!   cvharness gen <component> <seed> <tier>      ops lines -> stdout
//!   cvharness run                                 ops lines on stdin -> implementation outputs on stdout
//!   cvharness oracle <component> <seed> <tier>    implementation-level oracles; failures -> stdout
#![allow(unused)]
mod util;
mod rawmodel;

/// A component module, or an inert stand-in when its cargo feature is off.
macro_rules! component {
    ($name:ident, $feat:literal) => {
        #[cfg(feature = $feat)]
        mod $name;
        #[cfg(not(feature = $feat))]
        mod $name {
            use crate::util::*;
            pub fn run(_segs: &[Vec<&str>]) -> String {
                "bad-op".into()
            }
            pub fn gen(_rng: &mut Rng, _tier: &str, _out: &mut Vec<String>) {}
            pub fn oracle(_rng: &mut Rng, _tier: &str, _rep: &mut Report) {}
        }
    };
}
component!(ans, "ans");
component!(range, "range");
component!(chain, "chain");
component!(cat, "cat");
component!(quant, "quant");
component!(bits, "bits");
component!(huff, "huff");
component!(backend, "backend");
mod pyfront;

use std::io::{BufRead, Write};
use util::*;

fn run_line(line: &str) -> String {
    let segs = segments(line);
    let kind = segs.first().and_then(|s| s.first()).copied().unwrap_or("");
    let r = guarded(|| {
        if kind.starts_with("ans") {
            ans::run(&segs)
        } else if kind.starts_with("range") {
            range::run(&segs)
        } else if kind.starts_with("chain") {
            chain::run(&segs)
        } else if kind.starts_with("cat") {
            cat::run(&segs)
        } else if kind.starts_with("quant") {
            quant::run(&segs)
        } else if kind.starts_with("bits") {
            bits::run(&segs)
        } else if kind.starts_with("huff") {
            huff::run(&segs)
        } else if kind.starts_with("backend") {
            backend::run(&segs)
        } else {
            "bad-op".to_string()
        }
    });
    match r {
        Ok(s) => s,
        Err(class) => class.to_string(),
    }
}

fn main() {
    install_panic_hook();
    let args: Vec<String> = std::env::args().collect();
    let stdout = std::io::stdout();
    let mut out = std::io::BufWriter::new(stdout.lock());
    match args.get(1).map(|s| s.as_str()) {
        Some("gen") => {
            let comp = args[2].as_str();
            let seed: u64 = args[3].parse().unwrap();
            let tier = args.get(4).map(|s| s.as_str()).unwrap_or("quick");
            let mut rng = Rng::new(seed);
            let mut lines = Vec::new();
            match comp {
                "ans" => ans::gen(&mut rng, tier, &mut lines),
                "range" => range::gen(&mut rng, tier, &mut lines),
                "chain" => chain::gen(&mut rng, tier, &mut lines),
                "cat" => cat::gen(&mut rng, tier, &mut lines),
                "quant" => quant::gen(&mut rng, tier, &mut lines),
                "bits" => bits::gen(&mut rng, tier, &mut lines),
                "huff" => huff::gen(&mut rng, tier, &mut lines),
                "backend" => backend::gen(&mut rng, tier, &mut lines),
                _ => {
                    eprintln!("unknown component {}", comp);
                    std::process::exit(2);
                }
            }
            for l in lines {
                writeln!(out, "{}", l).unwrap();
            }
        }
        Some("run") => {
            let stdin = std::io::stdin();
            for line in stdin.lock().lines() {
                let line = line.unwrap();
                let l = line.trim();
                if l.is_empty() || l.starts_with('#') {
                    writeln!(out, "{}", l).unwrap();
                } else {
                    writeln!(out, "{}", run_line(l)).unwrap();
                }
                // flush per line so that an abort (UB check) is attributable to the next line
                out.flush().unwrap();
            }
        }
        Some("probe") => {
            // Single calls that may never return; `check` runs them under a time limit.
            match args.get(2).map(|s| s.as_str()) {
                Some("binomial-inverse") => {
                    // known finding D24: the dependency's `Binomial::inverse` (the hint of the
                    // quantile search) does not terminate for some valid parameters
                    use constriction::stream::model::{DecoderModel, DefaultLeakyQuantizer};
                    let n: usize = args.get(3).and_then(|s| s.parse().ok()).unwrap_or(920);
                    let p: f64 = args.get(4).and_then(|s| s.parse().ok()).unwrap_or(0.4399495634132061);
                    let q = DefaultLeakyQuantizer::<f64, i32>::new(0..=n as i32);
                    let m = q.quantize(probability::distribution::Binomial::new(n, p));
                    let r = DecoderModel::<24>::quantile_function(&m, (1u32 << 24) - 1);
                    writeln!(out, "returned {} {} {}", r.0, r.1, r.2.get()).unwrap();
                }
                _ => {
                    eprintln!("unknown probe");
                    std::process::exit(2);
                }
            }
        }
        Some("pyfront") => {
            // cvharness pyfront <cases.jsonl>: Rust-API answers for cases produced via the Python front end
            let mut rep = Report::default();
            pyfront::run_cases(args[2].as_str(), &mut rep);
            for (k, v) in &rep.evals {
                writeln!(out, "EVAL {} {}", k, v).unwrap();
            }
            for (k, v) in &rep.hist {
                writeln!(out, "HIST {} {}", k, v).unwrap();
            }
            for (k, v) in &rep.samples {
                for t in v {
                    writeln!(out, "SAMPLE {} {}", k, t).unwrap();
                }
            }
            for (k, v) in &rep.fails {
                writeln!(out, "FAIL {} {}", k, v).unwrap();
            }
        }
        Some("oracle") => {
            let comp = args[2].as_str();
            let seed: u64 = args[3].parse().unwrap();
            let tier = args.get(4).map(|s| s.as_str()).unwrap_or("quick");
            let mut rng = Rng::new(seed ^ 0x5eed_0fac1e);
            let mut rep = Report::default();
            match comp {
                "ans" => ans::oracle(&mut rng, tier, &mut rep),
                "range" => range::oracle(&mut rng, tier, &mut rep),
                "chain" => chain::oracle(&mut rng, tier, &mut rep),
                "cat" => cat::oracle(&mut rng, tier, &mut rep),
                "quant" => quant::oracle(&mut rng, tier, &mut rep),
                "bits" => bits::oracle(&mut rng, tier, &mut rep),
                "huff" => huff::oracle(&mut rng, tier, &mut rep),
                "backend" => backend::oracle(&mut rng, tier, &mut rep),
                _ => {
                    eprintln!("unknown component {}", comp);
                    std::process::exit(2);
                }
            }
            for (k, v) in &rep.evals {
                writeln!(out, "EVAL {} {}", k, v).unwrap();
            }
            for (k, v) in &rep.hist {
                writeln!(out, "HIST {} {}", k, v).unwrap();
            }
            for (k, v) in &rep.samples {
                for t in v {
                    writeln!(out, "SAMPLE {} {}", k, t).unwrap();
                }
            }
            for (k, v) in &rep.fails {
                writeln!(out, "FAIL {} {}", k, v).unwrap();
            }
        }
        _ => {
            eprintln!("usage: cvharness gen|run|oracle …");
            std::process::exit(2);
        }
    }
}
