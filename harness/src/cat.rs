//! Component `cat`: integer (fixed-point) entropy models — protocol runner (real code), case
//! generator, implementation-level oracles.  Lean twin: `lean/CV/Driver/Cat.lean`.
//!
//! ```text
//! cat.contig   B P probs infer            | op | op …
//! cat.ncdec    B P syms probs infer       | op …
//! cat.ncenc    B P syms probs infer       | op …
//! cat.lookup   B P probs infer            | op …
//! cat.nclookup B P syms probs infer       | op …
//! cat.uniform  B P range                  | op …
//! cat.fast     kind B P n syms            (kind ∈ dec enc lookup; n weights 1.0; D13 glue)
//! cat.valsweep B P n infer vals           (all tables of length n over `vals`, or `all`)
//! cat.unisweep B P lo hi                  (all ranges in [lo, hi))
//! cat.bsearch  arr q                      (`slice::binary_search_by` as the models call it)
//! ```
//! ops: `table support syms`, `enc s`, `has s`, `dec q`, `encs l`, `decs l`, `decsweep lo hi`,
//! `encsweep lo hi`, conversions `view tolookup togenenc togendec togenlookup ascontig
//! intocontig asnc intonc`.
#![allow(unused)]
use std::collections::BTreeMap;

use constriction::stream::model::{
    ContiguousCategoricalEntropyModel, ContiguousLookupDecoderModel, DecoderModel, EncoderModel,
    IterableEntropyModel, NonContiguousCategoricalDecoderModel,
    NonContiguousCategoricalEncoderModel, NonContiguousLookupDecoderModel, UniformModel,
};
use constriction::{BitArray, NonZeroBitArray};
use num_traits::AsPrimitive;

use crate::util::*;

type Triple = (usize, u128, u128);

/// A constructed model of any representation, behind the public traits only.
pub trait DynModel {
    /// `symbol_table().collect()`; `None` = not an `IterableEntropyModel`
    fn table(&self) -> Option<Vec<Triple>> {
        None
    }
    /// `left_cumulative_and_probability`; outer `None` = not an `EncoderModel`
    fn enc(&self, _s: usize) -> Option<Option<(u128, u128)>> {
        None
    }
    /// `quantile_function`; `None` = not a `DecoderModel`
    fn dec(&self, _q: u128) -> Option<Triple> {
        None
    }
    fn support(&self) -> Option<usize> {
        None
    }
    fn conv(&self, _op: &str) -> Conv {
        Conv::Na
    }
    fn kind(&self) -> &'static str;
}

pub enum Conv {
    Na,
    Unsupported,
    Ok(Box<dyn DynModel>),
}

fn nz<Pr: BitArray>(p: Pr::NonZero) -> u128 {
    to_u128(p.get())
}

fn triple<Pr: BitArray>(t: (usize, Pr, Pr::NonZero)) -> Triple {
    (t.0, to_u128(t.1), nz::<Pr>(t.2))
}

fn table_of<'m, M, const P: usize>(m: &'m M) -> Vec<Triple>
where
    M: IterableEntropyModel<'m, P, Symbol = usize>,
{
    m.symbol_table().map(triple::<M::Probability>).collect()
}

fn enc_of<M, const P: usize>(m: &M, s: usize) -> Option<(u128, u128)>
where
    M: EncoderModel<P, Symbol = usize>,
{
    m.left_cumulative_and_probability(s)
        .map(|(c, p)| (to_u128(c), nz::<M::Probability>(p)))
}

fn dec_of<M, const P: usize>(m: &M, q: u128) -> Triple
where
    M: DecoderModel<P, Symbol = usize>,
{
    triple::<M::Probability>(m.quantile_function(from_u128(q)))
}

/// a constructor is run with the symbols as an exact-size (`TrustedLen`) iterator and once more as an
/// iterator without an exact size (`filter`; `Zip` takes a different code path for those): the two
/// must agree; if only one accepts, the accepted model is returned so that the acceptance shows
fn both_iter_kinds<T>(a: Result<T, ()>, b: Result<T, ()>) -> Result<T, ()> {
    match (a, b) {
        (Ok(m), Ok(_)) => Ok(m),
        (Err(()), Err(())) => Err(()),
        (Ok(m), Err(())) | (Err(()), Ok(m)) => Ok(m),
    }
}

/// the `…_fast` constructors with `n` equal `f64` weights (D13 glue)
pub trait ProbFast: Sized {
    fn fast_ncdec<const P: usize>(syms: &[usize], n: usize) -> Result<Box<dyn DynModel>, ()>;
    fn fast_ncenc<const P: usize>(syms: &[usize], n: usize) -> Result<Box<dyn DynModel>, ()>;
}

macro_rules! impl_prob_fast {
    ($Pr:ty) => {
        impl ProbFast for $Pr {
            fn fast_ncdec<const P: usize>(syms: &[usize], n: usize) -> Result<Box<dyn DynModel>, ()> {
                let w = vec![1.0f64; n];
                both_iter_kinds(
                    NonContiguousCategoricalDecoderModel::<usize, $Pr, Vec<($Pr, usize)>, P>::from_symbols_and_floating_point_probabilities_fast::<f64>(syms.iter().copied(), &w, None),
                    NonContiguousCategoricalDecoderModel::<usize, $Pr, Vec<($Pr, usize)>, P>::from_symbols_and_floating_point_probabilities_fast::<f64>(syms.iter().copied().filter(|_| true), &w, None),
                )
                .map(|m| Box::new(NcDecW::<$Pr, P> { m, view: false }) as Box<dyn DynModel>)
            }
            fn fast_ncenc<const P: usize>(syms: &[usize], n: usize) -> Result<Box<dyn DynModel>, ()> {
                let w = vec![1.0f64; n];
                both_iter_kinds(
                    NonContiguousCategoricalEncoderModel::<usize, $Pr, P>::from_symbols_and_floating_point_probabilities_fast::<f64>(syms.iter().copied(), &w, None),
                    NonContiguousCategoricalEncoderModel::<usize, $Pr, P>::from_symbols_and_floating_point_probabilities_fast::<f64>(syms.iter().copied().filter(|_| true), &w, None),
                )
                .map(|m| Box::new(NcEncW::<$Pr, P> { m }) as Box<dyn DynModel>)
            }
        }
    };
}
impl_prob_fast!(u8);
impl_prob_fast!(u16);
impl_prob_fast!(u32);
impl_prob_fast!(u64);

/// Probability types; `u32` and `u64` have no lookup models (`Probability: Into<usize>`).
pub trait Prob: BitArray + AsPrimitive<usize> + ProbFast + 'static
where
    usize: AsPrimitive<Self>,
{
    fn contig_to_lookup<Cdf: AsRef<[Self]>, const P: usize>(
        m: &ContiguousCategoricalEntropyModel<Self, Cdf, P>,
    ) -> Conv;
    fn ncdec_to_lookup<Cdf: AsRef<[(Self, usize)]>, const P: usize>(
        m: &NonContiguousCategoricalDecoderModel<usize, Self, Cdf, P>,
    ) -> Conv;
    fn generic_lookup<'m, M, const P: usize>(m: &'m M) -> Conv
    where
        M: IterableEntropyModel<'m, P, Symbol = usize, Probability = Self>;
    fn new_lookup<const P: usize>(probs: &[u128], infer: bool) -> Option<Result<Box<dyn DynModel>, ()>>;
    fn new_nclookup<const P: usize>(
        syms: &[usize],
        probs: &[u128],
        infer: bool,
    ) -> Option<Result<Box<dyn DynModel>, ()>>;
    fn fast_nclookup<const P: usize>(syms: &[usize], n: usize) -> Option<Result<Box<dyn DynModel>, ()>>;
    fn adv_borrow<const P: usize>(kind: &str, syms: &[usize], first: &[u128], later: &[u128], infer: bool) -> Built;
    fn adv_hint<const P: usize>(kind: &str, syms: &[usize], probs: &[u128], infer: bool, lo: usize, hi: Option<usize>) -> Built;
}

// ---- wrappers -------------------------------------------------------------------------

struct ContigW<Pr: BitArray, const P: usize> {
    m: ContiguousCategoricalEntropyModel<Pr, Vec<Pr>, P>,
    view: bool,
}

fn generic_conv<'m, M, Pr, const P: usize>(m: &'m M, op: &str) -> Conv
where
    Pr: Prob,
    usize: AsPrimitive<Pr>,
    M: IterableEntropyModel<'m, P, Symbol = usize, Probability = Pr>,
{
    match op {
        "togenenc" => Conv::Ok(Box::new(NcEncW::<Pr, P> { m: m.to_generic_encoder_model() })),
        "togendec" => Conv::Ok(Box::new(NcDecW::<Pr, P> { m: m.to_generic_decoder_model(), view: false })),
        "togenlookup" => Pr::generic_lookup::<M, P>(m),
        _ => Conv::Na,
    }
}

fn contig_conv<Pr, Cdf, const P: usize>(m: &ContiguousCategoricalEntropyModel<Pr, Cdf, P>, op: &str) -> Conv
where
    Pr: Prob,
    usize: AsPrimitive<Pr>,
    Cdf: AsRef<[Pr]>,
{
    match op {
        "tolookup" => Pr::contig_to_lookup(m),
        _ => generic_conv::<_, Pr, P>(m, op),
    }
}

impl<Pr: Prob, const P: usize> DynModel for ContigW<Pr, P>
where
    usize: AsPrimitive<Pr>,
{
    fn table(&self) -> Option<Vec<Triple>> {
        Some(if self.view { table_of::<_, P>(&self.m.as_view()) } else { table_of::<_, P>(&self.m) })
    }
    fn enc(&self, s: usize) -> Option<Option<(u128, u128)>> {
        Some(if self.view { enc_of::<_, P>(&self.m.as_view(), s) } else { enc_of::<_, P>(&self.m, s) })
    }
    fn dec(&self, q: u128) -> Option<Triple> {
        Some(if self.view { dec_of::<_, P>(&self.m.as_view(), q) } else { dec_of::<_, P>(&self.m, q) })
    }
    fn support(&self) -> Option<usize> {
        Some(if self.view { self.m.as_view().support_size() } else { self.m.support_size() })
    }
    fn conv(&self, op: &str) -> Conv {
        match op {
            "view" => Conv::Ok(Box::new(ContigW::<Pr, P> { m: self.m.clone(), view: true })),
            _ => {
                if self.view {
                    contig_conv(&self.m.as_view(), op)
                } else {
                    contig_conv(&self.m, op)
                }
            }
        }
    }
    fn kind(&self) -> &'static str {
        "contig"
    }
}

struct NcDecW<Pr: BitArray, const P: usize> {
    m: NonContiguousCategoricalDecoderModel<usize, Pr, Vec<(Pr, usize)>, P>,
    view: bool,
}

fn ncdec_conv<Pr, Cdf, const P: usize>(
    m: &NonContiguousCategoricalDecoderModel<usize, Pr, Cdf, P>,
    op: &str,
) -> Conv
where
    Pr: Prob,
    usize: AsPrimitive<Pr>,
    Cdf: AsRef<[(Pr, usize)]>,
{
    match op {
        "tolookup" => Pr::ncdec_to_lookup(m),
        _ => generic_conv::<_, Pr, P>(m, op),
    }
}

impl<Pr: Prob, const P: usize> DynModel for NcDecW<Pr, P>
where
    usize: AsPrimitive<Pr>,
{
    fn table(&self) -> Option<Vec<Triple>> {
        Some(if self.view { table_of::<_, P>(&self.m.as_view()) } else { table_of::<_, P>(&self.m) })
    }
    fn dec(&self, q: u128) -> Option<Triple> {
        Some(if self.view { dec_of::<_, P>(&self.m.as_view(), q) } else { dec_of::<_, P>(&self.m, q) })
    }
    fn support(&self) -> Option<usize> {
        Some(if self.view { self.m.as_view().support_size() } else { self.m.support_size() })
    }
    fn conv(&self, op: &str) -> Conv {
        match op {
            "view" => Conv::Ok(Box::new(NcDecW::<Pr, P> { m: self.m.clone(), view: true })),
            _ => {
                if self.view {
                    ncdec_conv(&self.m.as_view(), op)
                } else {
                    ncdec_conv(&self.m, op)
                }
            }
        }
    }
    fn kind(&self) -> &'static str {
        "ncdec"
    }
}

struct NcEncW<Pr: BitArray, const P: usize> {
    m: NonContiguousCategoricalEncoderModel<usize, Pr, P>,
}

impl<Pr: Prob, const P: usize> DynModel for NcEncW<Pr, P>
where
    usize: AsPrimitive<Pr>,
{
    fn enc(&self, s: usize) -> Option<Option<(u128, u128)>> {
        Some(enc_of::<_, P>(&self.m, s))
    }
    fn support(&self) -> Option<usize> {
        Some(self.m.support_size())
    }
    fn kind(&self) -> &'static str {
        "ncenc"
    }
}

struct UniformW<Pr: BitArray, const P: usize> {
    m: UniformModel<Pr, P>,
}

impl<Pr: Prob, const P: usize> DynModel for UniformW<Pr, P>
where
    usize: AsPrimitive<Pr>,
{
    fn table(&self) -> Option<Vec<Triple>> {
        Some(table_of::<_, P>(&self.m))
    }
    fn enc(&self, s: usize) -> Option<Option<(u128, u128)>> {
        Some(enc_of::<_, P>(&self.m, s))
    }
    fn dec(&self, q: u128) -> Option<Triple> {
        Some(dec_of::<_, P>(&self.m, q))
    }
    fn conv(&self, op: &str) -> Conv {
        generic_conv::<_, Pr, P>(&self.m, op)
    }
    fn kind(&self) -> &'static str {
        "uniform"
    }
}

/// lookup wrappers exist only for `Pr: Into<usize>`
struct LookupW<Pr: BitArray, const P: usize> {
    m: ContiguousLookupDecoderModel<Pr, Vec<Pr>, Box<[Pr]>, P>,
    view: bool,
}

/// queries go through `as_contiguous_categorical()` on every call
struct LookupAsContigW<Pr: BitArray, const P: usize> {
    m: ContiguousLookupDecoderModel<Pr, Vec<Pr>, Box<[Pr]>, P>,
}

struct NcLookupW<Pr: BitArray, const P: usize> {
    m: NonContiguousLookupDecoderModel<usize, Pr, Vec<(Pr, usize)>, Box<[Pr]>, P>,
    view: bool,
}

struct NcLookupAsNcW<Pr: BitArray, const P: usize> {
    m: NonContiguousLookupDecoderModel<usize, Pr, Vec<(Pr, usize)>, Box<[Pr]>, P>,
}

/// probability item with an unstable (but perfectly safe) `Borrow` impl: the first call
/// answers `first`, every later call `later`
pub struct Flaky<Pr> {
    first: Pr,
    later: Pr,
    calls: std::cell::Cell<usize>,
}

impl<Pr> Flaky<Pr> {
    fn new(first: Pr, later: Pr) -> Self {
        Flaky { first, later, calls: std::cell::Cell::new(0) }
    }
    fn get(&self) -> &Pr {
        let n = self.calls.get();
        self.calls.set(n + 1);
        if n == 0 {
            &self.first
        } else {
            &self.later
        }
    }
}

macro_rules! impl_flaky_borrow {
    ($($Pr:ty),*) => {$(
        impl std::borrow::Borrow<$Pr> for Flaky<$Pr> {
            fn borrow(&self) -> &$Pr {
                self.get()
            }
        }
    )*};
}
impl_flaky_borrow!(u8, u16, u32, u64);

/// symbol iterator whose `size_hint` is whatever the test says
pub struct HintIter {
    inner: std::vec::IntoIter<usize>,
    lo: usize,
    hi: Option<usize>,
}

impl Iterator for HintIter {
    type Item = usize;
    fn next(&mut self) -> Option<usize> {
        self.inner.next()
    }
    fn size_hint(&self) -> (usize, Option<usize>) {
        (self.lo, self.hi)
    }
}

macro_rules! adv_borrow_impl {
    ($Pr:ty, $P:ident, $lookup:tt, $kind:expr, $syms:expr, $first:expr, $later:expr, $infer:expr) => {{
        let items = || -> Vec<Flaky<$Pr>> {
            $first.iter().zip($later.iter()).map(|(&a, &b)| Flaky::new(from_u128::<$Pr>(a), from_u128::<$Pr>(b))).collect()
        };
        match $kind {
            "contig" => wrap(
                ContiguousCategoricalEntropyModel::<$Pr, Vec<$Pr>, $P>::from_nonzero_fixed_point_probabilities(items(), $infer)
                    .map(|m| ContigW::<$Pr, $P> { m, view: false }),
            ),
            "ncdec" => wrap(
                NonContiguousCategoricalDecoderModel::<usize, $Pr, Vec<($Pr, usize)>, $P>::from_symbols_and_nonzero_fixed_point_probabilities($syms.iter().copied(), items(), $infer)
                    .map(|m| NcDecW::<$Pr, $P> { m, view: false }),
            ),
            "ncenc" => wrap(
                NonContiguousCategoricalEncoderModel::<usize, $Pr, $P>::from_symbols_and_nonzero_fixed_point_probabilities($syms.iter().copied(), items(), $infer)
                    .map(|m| NcEncW::<$Pr, $P> { m }),
            ),
            "lookup" => adv_borrow_impl!(@lookup $lookup, $Pr, $P, items(), $infer),
            "nclookup" => adv_borrow_impl!(@nclookup $lookup, $Pr, $P, $syms, items(), $infer),
            _ => Built::Unsupported,
        }
    }};
    (@lookup true, $Pr:ty, $P:ident, $items:expr, $infer:expr) => {
        wrap(
            ContiguousLookupDecoderModel::<$Pr, Vec<$Pr>, Box<[$Pr]>, $P>::from_nonzero_fixed_point_probabilities($items, $infer)
                .map(|m| LookupW::<$Pr, $P> { m, view: false }),
        )
    };
    (@lookup false, $Pr:ty, $P:ident, $items:expr, $infer:expr) => {
        Built::Unsupported
    };
    (@nclookup true, $Pr:ty, $P:ident, $syms:expr, $items:expr, $infer:expr) => {
        wrap(
            NonContiguousLookupDecoderModel::<usize, $Pr, Vec<($Pr, usize)>, Box<[$Pr]>, $P>::from_symbols_and_nonzero_fixed_point_probabilities($syms.iter().copied(), $items, $infer)
                .map(|m| NcLookupW::<$Pr, $P> { m, view: false }),
        )
    };
    (@nclookup false, $Pr:ty, $P:ident, $syms:expr, $items:expr, $infer:expr) => {
        Built::Unsupported
    };
}

macro_rules! adv_hint_impl {
    ($Pr:ty, $P:ident, $lookup:tt, $kind:expr, $syms:expr, $probs:expr, $infer:expr, $lo:expr, $hi:expr) => {{
        let it = || HintIter { inner: $syms.to_vec().into_iter(), lo: $lo, hi: $hi };
        let ps: Vec<$Pr> = $probs.iter().map(|&q| from_u128::<$Pr>(q)).collect();
        match $kind {
            "ncdec" => wrap(
                NonContiguousCategoricalDecoderModel::<usize, $Pr, Vec<($Pr, usize)>, $P>::from_symbols_and_nonzero_fixed_point_probabilities(it(), ps.iter(), $infer)
                    .map(|m| NcDecW::<$Pr, $P> { m, view: false }),
            ),
            "ncenc" => wrap(
                NonContiguousCategoricalEncoderModel::<usize, $Pr, $P>::from_symbols_and_nonzero_fixed_point_probabilities(it(), ps.iter(), $infer)
                    .map(|m| NcEncW::<$Pr, $P> { m }),
            ),
            "nclookup" => adv_hint_impl!(@nclookup $lookup, $Pr, $P, it(), ps, $infer),
            _ => Built::Unsupported,
        }
    }};
    (@nclookup true, $Pr:ty, $P:ident, $it:expr, $ps:expr, $infer:expr) => {
        wrap(
            NonContiguousLookupDecoderModel::<usize, $Pr, Vec<($Pr, usize)>, Box<[$Pr]>, $P>::from_symbols_and_nonzero_fixed_point_probabilities($it, $ps.iter(), $infer)
                .map(|m| NcLookupW::<$Pr, $P> { m, view: false }),
        )
    };
    (@nclookup false, $Pr:ty, $P:ident, $it:expr, $ps:expr, $infer:expr) => {
        Built::Unsupported
    };
}

macro_rules! impl_lookup_wrappers {
    ($Pr:ty) => {
        impl<const P: usize> DynModel for LookupW<$Pr, P> {
            fn table(&self) -> Option<Vec<Triple>> {
                Some(if self.view { table_of::<_, P>(&self.m.as_view()) } else { table_of::<_, P>(&self.m) })
            }
            fn dec(&self, q: u128) -> Option<Triple> {
                Some(if self.view { dec_of::<_, P>(&self.m.as_view(), q) } else { dec_of::<_, P>(&self.m, q) })
            }
            fn conv(&self, op: &str) -> Conv {
                match op {
                    "view" => Conv::Ok(Box::new(LookupW::<$Pr, P> { m: self.m.clone(), view: true })),
                    "ascontig" => Conv::Ok(Box::new(LookupAsContigW::<$Pr, P> { m: self.m.clone() })),
                    "intocontig" => Conv::Ok(Box::new(ContigW::<$Pr, P> {
                        m: self.m.clone().into_contiguous_categorical(),
                        view: false,
                    })),
                    _ => {
                        if self.view {
                            generic_conv::<_, $Pr, P>(&self.m.as_view(), op)
                        } else {
                            generic_conv::<_, $Pr, P>(&self.m, op)
                        }
                    }
                }
            }
            fn kind(&self) -> &'static str {
                "lookup"
            }
        }

        impl<const P: usize> DynModel for LookupAsContigW<$Pr, P> {
            fn table(&self) -> Option<Vec<Triple>> {
                Some(table_of::<_, P>(&self.m.as_contiguous_categorical()))
            }
            fn enc(&self, s: usize) -> Option<Option<(u128, u128)>> {
                Some(enc_of::<_, P>(&self.m.as_contiguous_categorical(), s))
            }
            fn dec(&self, q: u128) -> Option<Triple> {
                Some(dec_of::<_, P>(&self.m.as_contiguous_categorical(), q))
            }
            fn support(&self) -> Option<usize> {
                Some(self.m.as_contiguous_categorical().support_size())
            }
            fn conv(&self, op: &str) -> Conv {
                match op {
                    "view" => Conv::Ok(Box::new(LookupAsContigW::<$Pr, P> { m: self.m.clone() })),
                    _ => contig_conv(&self.m.as_contiguous_categorical(), op),
                }
            }
            fn kind(&self) -> &'static str {
                "contig"
            }
        }

        impl<const P: usize> DynModel for NcLookupW<$Pr, P> {
            fn table(&self) -> Option<Vec<Triple>> {
                Some(if self.view { table_of::<_, P>(&self.m.as_view()) } else { table_of::<_, P>(&self.m) })
            }
            fn dec(&self, q: u128) -> Option<Triple> {
                Some(if self.view { dec_of::<_, P>(&self.m.as_view(), q) } else { dec_of::<_, P>(&self.m, q) })
            }
            fn conv(&self, op: &str) -> Conv {
                match op {
                    "view" => Conv::Ok(Box::new(NcLookupW::<$Pr, P> { m: self.m.clone(), view: true })),
                    "asnc" => Conv::Ok(Box::new(NcLookupAsNcW::<$Pr, P> { m: self.m.clone() })),
                    "intonc" => Conv::Ok(Box::new(NcDecW::<$Pr, P> {
                        m: self.m.clone().into_non_contiguous_categorical(),
                        view: false,
                    })),
                    _ => {
                        if self.view {
                            generic_conv::<_, $Pr, P>(&self.m.as_view(), op)
                        } else {
                            generic_conv::<_, $Pr, P>(&self.m, op)
                        }
                    }
                }
            }
            fn kind(&self) -> &'static str {
                "nclookup"
            }
        }

        impl<const P: usize> DynModel for NcLookupAsNcW<$Pr, P> {
            fn table(&self) -> Option<Vec<Triple>> {
                Some(table_of::<_, P>(&self.m.as_non_contiguous_categorical()))
            }
            fn dec(&self, q: u128) -> Option<Triple> {
                Some(dec_of::<_, P>(&self.m.as_non_contiguous_categorical(), q))
            }
            fn support(&self) -> Option<usize> {
                Some(self.m.as_non_contiguous_categorical().support_size())
            }
            fn conv(&self, op: &str) -> Conv {
                match op {
                    "view" => Conv::Ok(Box::new(NcLookupAsNcW::<$Pr, P> { m: self.m.clone() })),
                    _ => ncdec_conv(&self.m.as_non_contiguous_categorical(), op),
                }
            }
            fn kind(&self) -> &'static str {
                "ncdec"
            }
        }

        impl Prob for $Pr {
            fn contig_to_lookup<Cdf: AsRef<[Self]>, const P: usize>(
                m: &ContiguousCategoricalEntropyModel<Self, Cdf, P>,
            ) -> Conv {
                Conv::Ok(Box::new(LookupW::<$Pr, P> { m: m.to_lookup_decoder_model(), view: false }))
            }
            fn ncdec_to_lookup<Cdf: AsRef<[(Self, usize)]>, const P: usize>(
                m: &NonContiguousCategoricalDecoderModel<usize, Self, Cdf, P>,
            ) -> Conv {
                Conv::Ok(Box::new(NcLookupW::<$Pr, P> { m: m.to_lookup_decoder_model(), view: false }))
            }
            fn generic_lookup<'m, M, const P: usize>(m: &'m M) -> Conv
            where
                M: IterableEntropyModel<'m, P, Symbol = usize, Probability = Self>,
            {
                Conv::Ok(Box::new(NcLookupW::<$Pr, P> { m: m.to_generic_lookup_decoder_model(), view: false }))
            }
            fn new_lookup<const P: usize>(probs: &[u128], infer: bool) -> Option<Result<Box<dyn DynModel>, ()>> {
                let probs: Vec<$Pr> = probs.iter().map(|&p| from_u128(p)).collect();
                Some(
                    ContiguousLookupDecoderModel::<$Pr, Vec<$Pr>, Box<[$Pr]>, P>::from_nonzero_fixed_point_probabilities(
                        probs.iter(),
                        infer,
                    )
                    .map(|m| Box::new(LookupW::<$Pr, P> { m, view: false }) as Box<dyn DynModel>),
                )
            }
            fn new_nclookup<const P: usize>(
                syms: &[usize],
                probs: &[u128],
                infer: bool,
            ) -> Option<Result<Box<dyn DynModel>, ()>> {
                let probs: Vec<$Pr> = probs.iter().map(|&p| from_u128(p)).collect();
                Some(
                    NonContiguousLookupDecoderModel::<usize, $Pr, Vec<($Pr, usize)>, Box<[$Pr]>, P>::from_symbols_and_nonzero_fixed_point_probabilities(
                        syms.iter().copied(),
                        probs.iter(),
                        infer,
                    )
                    .map(|m| Box::new(NcLookupW::<$Pr, P> { m, view: false }) as Box<dyn DynModel>),
                )
            }
            fn fast_nclookup<const P: usize>(syms: &[usize], n: usize) -> Option<Result<Box<dyn DynModel>, ()>> {
                let w = vec![1.0f64; n];
                Some(
                    both_iter_kinds(
                        NonContiguousLookupDecoderModel::<usize, $Pr, Vec<($Pr, usize)>, Box<[$Pr]>, P>::from_symbols_and_floating_point_probabilities_fast::<f64>(syms.iter().copied(), &w, None),
                        NonContiguousLookupDecoderModel::<usize, $Pr, Vec<($Pr, usize)>, Box<[$Pr]>, P>::from_symbols_and_floating_point_probabilities_fast::<f64>(syms.iter().copied().filter(|_| true), &w, None),
                    )
                    .map(|m| Box::new(NcLookupW::<$Pr, P> { m, view: false }) as Box<dyn DynModel>),
                )
            }
            fn adv_borrow<const P: usize>(kind: &str, syms: &[usize], first: &[u128], later: &[u128], infer: bool) -> Built {
                adv_borrow_impl!($Pr, P, true, kind, syms, first, later, infer)
            }
            fn adv_hint<const P: usize>(kind: &str, syms: &[usize], probs: &[u128], infer: bool, lo: usize, hi: Option<usize>) -> Built {
                adv_hint_impl!($Pr, P, true, kind, syms, probs, infer, lo, hi)
            }
        }
    };
}
impl_lookup_wrappers!(u8);
impl_lookup_wrappers!(u16);

macro_rules! impl_prob_no_lookup {
    ($Pr:ty) => {
impl Prob for $Pr {
    fn contig_to_lookup<Cdf: AsRef<[Self]>, const P: usize>(
        _m: &ContiguousCategoricalEntropyModel<Self, Cdf, P>,
    ) -> Conv {
        Conv::Unsupported
    }
    fn ncdec_to_lookup<Cdf: AsRef<[(Self, usize)]>, const P: usize>(
        _m: &NonContiguousCategoricalDecoderModel<usize, Self, Cdf, P>,
    ) -> Conv {
        Conv::Unsupported
    }
    fn generic_lookup<'m, M, const P: usize>(_m: &'m M) -> Conv
    where
        M: IterableEntropyModel<'m, P, Symbol = usize, Probability = Self>,
    {
        Conv::Unsupported
    }
    fn new_lookup<const P: usize>(_probs: &[u128], _infer: bool) -> Option<Result<Box<dyn DynModel>, ()>> {
        None
    }
    fn new_nclookup<const P: usize>(
        _syms: &[usize],
        _probs: &[u128],
        _infer: bool,
    ) -> Option<Result<Box<dyn DynModel>, ()>> {
        None
    }
    fn fast_nclookup<const P: usize>(_syms: &[usize], _n: usize) -> Option<Result<Box<dyn DynModel>, ()>> {
        None
    }
            fn adv_borrow<const P: usize>(kind: &str, syms: &[usize], first: &[u128], later: &[u128], infer: bool) -> Built {
                adv_borrow_impl!($Pr, P, false, kind, syms, first, later, infer)
            }
            fn adv_hint<const P: usize>(kind: &str, syms: &[usize], probs: &[u128], infer: bool, lo: usize, hi: Option<usize>) -> Built {
                adv_hint_impl!($Pr, P, false, kind, syms, probs, infer, lo, hi)
            }

}

    };
}
impl_prob_no_lookup!(u32);
impl_prob_no_lookup!(u64);

// ---- constructors ---------------------------------------------------------------------

/// what a constructor segment asks for
#[derive(Clone, Debug)]
pub enum Ctor {
    Contig { probs: Vec<u128>, infer: bool },
    NcDec { syms: Vec<usize>, probs: Vec<u128>, infer: bool },
    NcEnc { syms: Vec<usize>, probs: Vec<u128>, infer: bool },
    Lookup { probs: Vec<u128>, infer: bool },
    NcLookup { syms: Vec<usize>, probs: Vec<u128>, infer: bool },
    Uniform { range: usize },
    Fast { kind: String, n: usize, syms: Vec<usize> },
    /// `from_iterable_entropy_model` / `to_generic_*` of an `IterableEntropyModel` whose
    /// `symbol_table()` is exactly `table` (valid or not); target ∈ dec enc lookup gdec genc
    FromTable { target: String, table: Vec<(usize, u128, u128)> },
    /// fixed-point constructor `kind` whose probability items have an unstable `Borrow` impl:
    /// item `i` answers `first[i]` to the first `borrow()` and `later[i]` afterwards
    AdvBorrow { kind: String, syms: Vec<usize>, first: Vec<u128>, later: Vec<u128>, infer: bool },
    /// non-contiguous constructor `kind` with a symbol iterator whose `size_hint` is `(lo, hi)`
    AdvHint { kind: String, syms: Vec<usize>, probs: Vec<u128>, infer: bool, lo: usize, hi: Option<usize> },
}

pub enum Built {
    Ok(Box<dyn DynModel>),
    Rejected,
    Unsupported,
}

fn wrap<T: DynModel + 'static>(r: Result<T, ()>) -> Built {
    match r {
        Ok(m) => Built::Ok(Box::new(m)),
        Err(()) => Built::Rejected,
    }
}

fn opt_built(r: Option<Result<Box<dyn DynModel>, ()>>) -> Built {
    match r {
        None => Built::Unsupported,
        Some(Ok(m)) => Built::Ok(m),
        Some(Err(())) => Built::Rejected,
    }
}

fn build_impl<Pr: Prob, const P: usize>(c: &Ctor) -> Built
where
    usize: AsPrimitive<Pr>,
{
    let conv = |ps: &Vec<u128>| -> Vec<Pr> { ps.iter().map(|&p| from_u128(p)).collect() };
    match c {
        Ctor::Contig { probs, infer } => {
            let ps = conv(probs);
            wrap(
                ContiguousCategoricalEntropyModel::<Pr, Vec<Pr>, P>::from_nonzero_fixed_point_probabilities(ps.iter(), *infer)
                    .map(|m| ContigW::<Pr, P> { m, view: false }),
            )
        }
        Ctor::NcDec { syms, probs, infer } => {
            let ps = conv(probs);
            wrap(
                NonContiguousCategoricalDecoderModel::<usize, Pr, Vec<(Pr, usize)>, P>::from_symbols_and_nonzero_fixed_point_probabilities(
                    syms.iter().copied(),
                    ps.iter(),
                    *infer,
                )
                .map(|m| NcDecW::<Pr, P> { m, view: false }),
            )
        }
        Ctor::NcEnc { syms, probs, infer } => {
            let ps = conv(probs);
            wrap(
                NonContiguousCategoricalEncoderModel::<usize, Pr, P>::from_symbols_and_nonzero_fixed_point_probabilities(
                    syms.iter().copied(),
                    ps.iter(),
                    *infer,
                )
                .map(|m| NcEncW::<Pr, P> { m }),
            )
        }
        Ctor::Lookup { probs, infer } => opt_built(Pr::new_lookup::<P>(probs, *infer)),
        Ctor::NcLookup { syms, probs, infer } => opt_built(Pr::new_nclookup::<P>(syms, probs, *infer)),
        Ctor::Uniform { range } => Built::Ok(Box::new(UniformW::<Pr, P> { m: UniformModel::<Pr, P>::new(*range) })),
        Ctor::Fast { kind, n, syms } => {
            match kind.as_str() {
                "dec" => match Pr::fast_ncdec::<P>(syms, *n) {
                    Ok(m) => Built::Ok(m),
                    Err(()) => Built::Rejected,
                },
                "enc" => match Pr::fast_ncenc::<P>(syms, *n) {
                    Ok(m) => Built::Ok(m),
                    Err(()) => Built::Rejected,
                },
                _ => opt_built(Pr::fast_nclookup::<P>(syms, *n)),
            }
        }
        Ctor::FromTable { target, table } => adv_from_table::<Pr, P>(target, table),
        Ctor::AdvBorrow { kind, syms, first, later, infer } => Pr::adv_borrow::<P>(kind, syms, first, later, *infer),
        Ctor::AdvHint { kind, syms, probs, infer, lo, hi } => Pr::adv_hint::<P>(kind, syms, probs, *infer, *lo, *hi),
    }
}

/// `(Probability::BITS, PRECISION)` pairs compiled into the harness
pub const BPS: &[(u32, &[u32])] = &[
    (8, &[1, 2, 3, 4, 7, 8]),
    (16, &[1, 2, 3, 4, 8, 12, 15, 16]),
    (32, &[1, 2, 3, 4, 12, 16, 24, 31, 32]),
    // `PRECISION == usize::BITS`: `wrapping_pow2::<usize>(PRECISION)` is 0 in `UniformModel::new`
    (64, &[1, 24, 63, 64]),
];

macro_rules! dispatch_bp {
    ($b:expr, $p:expr, $f:ident, $($arg:expr),*) => {
        match ($b, $p) {
            (8, 1) => Some($f::<u8, 1>($($arg),*)),
            (8, 2) => Some($f::<u8, 2>($($arg),*)),
            (8, 3) => Some($f::<u8, 3>($($arg),*)),
            (8, 4) => Some($f::<u8, 4>($($arg),*)),
            (8, 7) => Some($f::<u8, 7>($($arg),*)),
            (8, 8) => Some($f::<u8, 8>($($arg),*)),
            (16, 1) => Some($f::<u16, 1>($($arg),*)),
            (16, 2) => Some($f::<u16, 2>($($arg),*)),
            (16, 3) => Some($f::<u16, 3>($($arg),*)),
            (16, 4) => Some($f::<u16, 4>($($arg),*)),
            (16, 8) => Some($f::<u16, 8>($($arg),*)),
            (16, 12) => Some($f::<u16, 12>($($arg),*)),
            (16, 15) => Some($f::<u16, 15>($($arg),*)),
            (16, 16) => Some($f::<u16, 16>($($arg),*)),
            (32, 1) => Some($f::<u32, 1>($($arg),*)),
            (32, 2) => Some($f::<u32, 2>($($arg),*)),
            (32, 3) => Some($f::<u32, 3>($($arg),*)),
            (32, 4) => Some($f::<u32, 4>($($arg),*)),
            (32, 12) => Some($f::<u32, 12>($($arg),*)),
            (32, 16) => Some($f::<u32, 16>($($arg),*)),
            (32, 24) => Some($f::<u32, 24>($($arg),*)),
            (32, 31) => Some($f::<u32, 31>($($arg),*)),
            (32, 32) => Some($f::<u32, 32>($($arg),*)),
            (64, 1) => Some($f::<u64, 1>($($arg),*)),
            (64, 24) => Some($f::<u64, 24>($($arg),*)),
            (64, 63) => Some($f::<u64, 63>($($arg),*)),
            (64, 64) => Some($f::<u64, 64>($($arg),*)),
            _ => None,
        }
    };
}

/// build a model with the real constructors; `None` = (B, P) not compiled in
pub fn build(b: u32, p: u32, c: &Ctor) -> Option<Built> {
    dispatch_bp!(b, p, build_impl, c)
}

// ---- protocol runner ------------------------------------------------------------------

fn show_triple(t: &Triple) -> String {
    format!("{:x}:{:x}:{:x}", t.0, t.1, t.2)
}

fn show_table(t: &[Triple]) -> String {
    if t.is_empty() {
        "-".into()
    } else {
        t.iter().map(show_triple).collect::<Vec<_>>().join(",")
    }
}

fn parse_bool(s: &str) -> Option<bool> {
    match s {
        "1" => Some(true),
        "0" => Some(false),
        _ => None,
    }
}

fn usizes(l: Vec<u128>) -> Vec<usize> {
    l.into_iter().map(|x| x as usize).collect()
}

fn parse_ctor(seg: &[&str]) -> Option<(u32, u32, Ctor)> {
    let b = parse_hex(seg.get(1)?)? as u32;
    match seg {
        ["cat.contig", _, p, probs, infer] => Some((
            b,
            parse_hex(p)? as u32,
            Ctor::Contig { probs: parse_list(probs)?, infer: parse_bool(infer)? },
        )),
        ["cat.ncdec", _, p, syms, probs, infer] => Some((
            b,
            parse_hex(p)? as u32,
            Ctor::NcDec { syms: usizes(parse_list(syms)?), probs: parse_list(probs)?, infer: parse_bool(infer)? },
        )),
        ["cat.ncenc", _, p, syms, probs, infer] => Some((
            b,
            parse_hex(p)? as u32,
            Ctor::NcEnc { syms: usizes(parse_list(syms)?), probs: parse_list(probs)?, infer: parse_bool(infer)? },
        )),
        ["cat.lookup", _, p, probs, infer] => Some((
            b,
            parse_hex(p)? as u32,
            Ctor::Lookup { probs: parse_list(probs)?, infer: parse_bool(infer)? },
        )),
        ["cat.nclookup", _, p, syms, probs, infer] => Some((
            b,
            parse_hex(p)? as u32,
            Ctor::NcLookup { syms: usizes(parse_list(syms)?), probs: parse_list(probs)?, infer: parse_bool(infer)? },
        )),
        ["cat.uniform", _, p, range] => Some((b, parse_hex(p)? as u32, Ctor::Uniform { range: parse_hex(range)? as usize })),
        _ => None,
    }
}

fn parse_fast(seg: &[&str]) -> Option<(u32, u32, Ctor)> {
    match seg {
        ["cat.fast", kind, b, p, n, syms] => {
            if !["dec", "enc", "lookup"].contains(kind) {
                return None;
            }
            Some((
                parse_hex(b)? as u32,
                parse_hex(p)? as u32,
                Ctor::Fast { kind: kind.to_string(), n: parse_hex(n)? as usize, syms: usizes(parse_list(syms)?) },
            ))
        }
        _ => None,
    }
}

fn show_digest(count: u128, h: u64) -> String {
    format!("{:x} {:x}", count, h)
}

/// one op on the current model; `Err(class)` = panic (history stops)
fn do_op(m: &mut Box<dyn DynModel>, seg: &[&str]) -> Result<Option<String>, &'static str> {
    guarded(|| -> Option<String> {
        Some(match seg {
            ["table"] => match m.table() {
                Some(t) => show_table(&t),
                None => "n/a".into(),
            },
            ["syms"] => match m.table() {
                Some(t) => show_list(t.iter().map(|t| t.0 as u128)),
                None => "n/a".into(),
            },
            ["support"] => match m.support() {
                Some(n) => hex(n as u128),
                None => "n/a".into(),
            },
            ["enc", s] => match m.enc(parse_hex(s)? as usize) {
                None => "n/a".into(),
                Some(None) => "none".into(),
                Some(Some((c, p))) => format!("{:x} {:x}", c, p),
            },
            ["has", s] => match m.enc(parse_hex(s)? as usize) {
                None => "n/a".into(),
                Some(r) => format!("{}", r.is_some()),
            },
            ["dec", q] => match m.dec(parse_hex(q)?) {
                None => "n/a".into(),
                Some(t) => format!("{:x} {:x} {:x}", t.0, t.1, t.2),
            },
            ["encs", l] => {
                let l = parse_list(l)?;
                let mut out = Vec::new();
                for s in l {
                    match m.enc(s as usize) {
                        None => return Some("n/a".into()),
                        Some(None) => out.push("x".to_string()),
                        Some(Some((c, p))) => out.push(format!("{:x}:{:x}", c, p)),
                    }
                }
                if out.is_empty() {
                    "-".into()
                } else {
                    out.join(",")
                }
            }
            ["decs", l] => {
                let l = parse_list(l)?;
                let mut out = Vec::new();
                for q in l {
                    match m.dec(q) {
                        None => return Some("n/a".into()),
                        Some(t) => out.push(show_triple(&t)),
                    }
                }
                if out.is_empty() {
                    "-".into()
                } else {
                    out.join(",")
                }
            }
            ["decsweep", lo, hi] => {
                let (lo, hi) = (parse_hex(lo)?, parse_hex(hi)?);
                let mut h = DIGEST_INIT;
                let mut q = lo;
                while q < hi {
                    match m.dec(q) {
                        None => return Some("n/a".into()),
                        Some(t) => {
                            h = digest_step(digest_step(digest_step(h, t.0 as u128), t.1), t.2);
                        }
                    }
                    q += 1;
                }
                show_digest(hi.saturating_sub(lo), h)
            }
            ["encsweep", lo, hi] => {
                let (lo, hi) = (parse_hex(lo)?, parse_hex(hi)?);
                let mut h = DIGEST_INIT;
                let mut s = lo;
                while s < hi {
                    match m.enc(s as usize) {
                        None => return Some("n/a".into()),
                        Some(None) => h = digest_step(h, 0),
                        Some(Some((c, p))) => h = digest_step(digest_step(digest_step(h, 1), c), p),
                    }
                    s += 1;
                }
                show_digest(hi.saturating_sub(lo), h)
            }
            [op] if ["view", "tolookup", "togenenc", "togendec", "togenlookup", "ascontig", "intocontig", "asnc", "intonc"].contains(op) => {
                match m.conv(op) {
                    Conv::Na => "n/a".into(),
                    Conv::Unsupported => "unsupported".into(),
                    Conv::Ok(n) => {
                        *m = n;
                        "ok".into()
                    }
                }
            }
            _ => return None,
        })
    })
}

fn run_hist(b: u32, p: u32, c: &Ctor, ops: &[Vec<&str>]) -> String {
    let built = match guarded(|| build(b, p, c)) {
        Err(class) => return class.into(),
        Ok(None) => return "unsupported".into(),
        Ok(Some(x)) => x,
    };
    let mut m = match built {
        Built::Rejected => return "rejected".into(),
        Built::Unsupported => return "unsupported".into(),
        Built::Ok(m) => m,
    };
    let mut outs = vec!["ok".to_string()];
    for seg in ops {
        if let ["audit", syms] = seg.as_slice() {
            // harness-only op (never generated for the correspondence)
            let syms = match parse_list(syms) {
                Some(l) => usizes(l),
                None => {
                    outs.push("bad-op".into());
                    break;
                }
            };
            outs.push(audit(m.as_ref(), b, p, &syms));
            continue;
        }
        match do_op(&mut m, seg) {
            Ok(Some(s)) => outs.push(s),
            Ok(None) => {
                outs.push("bad-op".into());
                break;
            }
            Err(class) => {
                outs.push(class.into());
                break;
            }
        }
    }
    outs.join(" | ")
}

// ---- sweeps ---------------------------------------------------------------------------

fn next_idx(k: usize, idx: &mut [usize]) -> bool {
    for i in idx.iter_mut() {
        if *i + 1 < k {
            *i += 1;
            return true;
        }
        *i = 0;
    }
    false
}

fn valsweep_impl<Pr: Prob, const P: usize>(n: usize, infer: bool, vals: &[u128]) -> String
where
    usize: AsPrimitive<Pr>,
{
    let vals: Vec<Pr> = vals.iter().map(|&v| from_u128(v)).collect();
    let mut idx = vec![0usize; n];
    let (mut count, mut acc, mut h) = (0u128, 0u128, DIGEST_INIT);
    let mut probs: Vec<Pr> = vec![Pr::zero(); n];
    loop {
        for (p, &i) in probs.iter_mut().zip(idx.iter()) {
            *p = vals[i];
        }
        match ContiguousCategoricalEntropyModel::<Pr, Vec<Pr>, P>::from_nonzero_fixed_point_probabilities(probs.iter(), infer) {
            Err(()) => h = digest_step(h, 0),
            Ok(m) => {
                acc += 1;
                h = digest_step(h, 1);
                // the cdf is private; reconstruct it from the public symbol table:
                // left cumulatives followed by `wrapping_pow2(P)`
                for (_, c, _) in m.symbol_table() {
                    h = digest_step(h, to_u128(c));
                }
                let total = if P as u32 >= Pr::BITS as u32 { 0 } else { 1u128 << P };
                h = digest_step(h, total);
            }
        }
        count += 1;
        if !next_idx(vals.len(), &mut idx) {
            break;
        }
    }
    format!("{:x} {:x} {:x}", count, acc, h)
}

fn unisweep_impl<Pr: Prob, const P: usize>(lo: usize, hi: usize) -> String
where
    usize: AsPrimitive<Pr>,
{
    let mut h = DIGEST_INIT;
    for range in lo..hi {
        match guarded(|| UniformModel::<Pr, P>::new(range)) {
            Err(_) => h = digest_step(h, 0),
            Ok(u) => {
                // ppb and last_symbol are private: observe them through the public API
                let (_, _, ppb) = u.quantile_function(Pr::zero());
                let last = range - 1; // `new` asserts that `last_symbol` round-trips
                h = digest_step(digest_step(digest_step(h, 1), nz::<Pr>(ppb)), last as u128);
                for s in 0..range + 2 {
                    match guarded(|| enc_of::<_, P>(&u, s)) {
                        Ok(Some((c, p))) => h = digest_step(digest_step(digest_step(h, 1), c), p),
                        Ok(None) => h = digest_step(h, 0),
                        Err(_) => h = digest_step(h, 2),
                    }
                }
                if P <= 12 {
                    for q in 0..(1u128 << P) {
                        match guarded(|| dec_of::<_, P>(&u, q)) {
                            Ok(t) => h = digest_step(digest_step(digest_step(h, t.0 as u128), t.1), t.2),
                            Err(_) => h = digest_step(h, 2),
                        }
                    }
                }
            }
        }
    }
    format!("{:x} {:x}", hi.saturating_sub(lo), h)
}

pub fn run(segs: &[Vec<&str>]) -> String {
    let head = &segs[0];
    match head.as_slice() {
        ["cat.valsweep", b, p, n, infer, vals] if segs.len() == 1 => {
            let f = || -> Option<String> {
                let (b, p, n) = (parse_hex(b)? as u32, parse_hex(p)? as u32, parse_hex(n)? as usize);
                let infer = parse_bool(infer)?;
                let vals: Vec<u128> = if *vals == "all" { (0..pow2(b)).collect() } else { parse_list(vals)? };
                if vals.is_empty() {
                    return None;
                }
                Some(dispatch_bp!(b, p, valsweep_impl, n, infer, &vals).unwrap_or("unsupported".into()))
            };
            f().unwrap_or("bad-op".into())
        }
        ["cat.unisweep", b, p, lo, hi] if segs.len() == 1 => {
            let f = || -> Option<String> {
                let (b, p) = (parse_hex(b)? as u32, parse_hex(p)? as u32);
                let (lo, hi) = (parse_hex(lo)? as usize, parse_hex(hi)? as usize);
                Some(dispatch_bp!(b, p, unisweep_impl, lo, hi).unwrap_or("unsupported".into()))
            };
            f().unwrap_or("bad-op".into())
        }
        ["cat.bsearch", arr, q] if segs.len() == 1 => {
            let f = || -> Option<String> {
                let a = parse_list(arr)?;
                let q = parse_hex(q)?;
                // exactly the call the cdf-based models make
                let r = a.binary_search_by(|&x| {
                    if x <= q {
                        core::cmp::Ordering::Less
                    } else {
                        core::cmp::Ordering::Greater
                    }
                });
                Some(match r {
                    Err(i) => hex(i as u128),
                    Ok(_) => "ub:unreachable".into(),
                })
            };
            f().unwrap_or("bad-op".into())
        }
        _ => {
            let parsed = match head.first() {
                Some(&"cat.fast") => parse_fast(head),
                Some(&"cat.fromtable") | Some(&"cat.adv.borrow") | Some(&"cat.adv.hint") => parse_adv(head),
                _ => parse_ctor(head),
            };
            match parsed {
                None => "bad-op".into(),
                Some((b, p, c)) => run_hist(b, p, &c, &segs[1..]),
            }
        }
    }
}

include!("cat_gen.rs");
include!("cat_oracle.rs");
include!("cat_alias.rs");
include!("cat_adv.rs");
