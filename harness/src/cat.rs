//! Component `cat`: protocol runner (real code), case generator, implementation-level oracles.
//! (stub; owned by the component's author)
#![allow(unused)]
use crate::util::*;

pub fn run(_segs: &[Vec<&str>]) -> String {
    "bad-op".into()
}

pub fn gen(_rng: &mut Rng, _tier: &str, _out: &mut Vec<String>) {}

pub fn oracle(_rng: &mut Rng, _tier: &str, _rep: &mut Report) {}
