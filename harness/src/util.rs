//! Shared helpers: hex I/O, PRNG, panic capture, type-combination tables.
use std::cell::RefCell;
use std::panic::{self, AssertUnwindSafe};

pub fn parse_hex(s: &str) -> Option<u128> {
    if s.is_empty() {
        return None;
    }
    u128::from_str_radix(s, 16).ok()
}

pub fn parse_list(s: &str) -> Option<Vec<u128>> {
    if s == "-" {
        return Some(vec![]);
    }
    s.split(',').map(parse_hex).collect()
}

pub fn hex(x: u128) -> String {
    format!("{:x}", x)
}

pub fn show_list<I: IntoIterator<Item = u128>>(it: I) -> String {
    let v: Vec<String> = it.into_iter().map(hex).collect();
    if v.is_empty() {
        "-".to_string()
    } else {
        v.join(",")
    }
}

pub fn segments(line: &str) -> Vec<Vec<&str>> {
    line.split('|')
        .map(|s| s.split(' ').filter(|t| !t.is_empty()).collect())
        .collect()
}

pub fn from_u128<T: num_traits::PrimInt>(x: u128) -> T {
    // truncating conversion (like `as`)
    let bits = 8 * std::mem::size_of::<T>();
    let x = if bits >= 128 { x } else { x & ((1u128 << bits) - 1) };
    T::from(x).unwrap()
}

pub fn to_u128<T: num_traits::PrimInt>(x: T) -> u128 {
    x.to_u128().unwrap()
}

/// splitmix64 / xorshift based PRNG; every random choice of a run derives from one seed.
#[derive(Clone)]
pub struct Rng(pub u64);

impl Rng {
    pub fn new(seed: u64) -> Self {
        Rng(seed ^ 0x9e37_79b9_7f4a_7c15)
    }
    pub fn next(&mut self) -> u64 {
        self.0 = self.0.wrapping_add(0x9e37_79b9_7f4a_7c15);
        let mut z = self.0;
        z = (z ^ (z >> 30)).wrapping_mul(0xbf58_476d_1ce4_e5b9);
        z = (z ^ (z >> 27)).wrapping_mul(0x94d0_49bb_1331_11eb);
        z ^ (z >> 31)
    }
    pub fn next128(&mut self) -> u128 {
        ((self.next() as u128) << 64) | self.next() as u128
    }
    /// uniform in `0..n` (n > 0)
    pub fn below(&mut self, n: u128) -> u128 {
        self.next128() % n
    }
    pub fn range(&mut self, lo: u128, hi_incl: u128) -> u128 {
        lo + self.below(hi_incl - lo + 1)
    }
    pub fn chance(&mut self, num: u64, den: u64) -> bool {
        self.next() % den < num
    }
    pub fn pick<'a, T>(&mut self, xs: &'a [T]) -> &'a T {
        &xs[(self.next() % xs.len() as u64) as usize]
    }
    pub fn fork(&mut self) -> Rng {
        Rng(self.next())
    }
    /// a "boundary-biased" value below 2^bits
    pub fn bits_biased(&mut self, bits: u32) -> u128 {
        let max = if bits >= 128 { u128::MAX } else { (1u128 << bits) - 1 };
        match self.next() % 8 {
            0 => 0,
            1 => max,
            2 => 1,
            3 => max.saturating_sub((self.next() % 3) as u128),
            4 => {
                let k = self.next() % bits as u64;
                ((1u128 << k) + (self.next() % 3) as u128).wrapping_sub(1) & max
            }
            _ => self.next128() & max,
        }
    }
}

thread_local! {
    static LAST_PANIC: RefCell<String> = RefCell::new(String::new());
    static QUIET: RefCell<bool> = RefCell::new(false);
    static CASE: RefCell<String> = RefCell::new(String::new());
}

/// Breadcrumb for non-unwinding panics (std's UB checks abort the process): an oracle announces the
/// case it is about to run (a complete protocol line); if the process then aborts, the panic hook
/// prints it as `ABORT-CASE <line>` and `check` reports that line as the failing input.
pub fn set_case(desc: &str) {
    CASE.with(|c| {
        let mut c = c.borrow_mut();
        c.clear();
        c.push_str(desc);
    });
}

pub fn install_panic_hook() {
    panic::set_hook(Box::new(|info| {
        let msg = if let Some(s) = info.payload().downcast_ref::<&str>() {
            s.to_string()
        } else if let Some(s) = info.payload().downcast_ref::<String>() {
            s.clone()
        } else {
            "?".to_string()
        };
        if !QUIET.with(|q| *q.borrow()) {
            eprintln!("harness panic: {} at {:?}", msg, info.location());
        }
        if !QUIET.with(|q| *q.borrow()) || msg.contains("unsafe precondition") || msg.contains("cannot unwind") {
            // the process is about to abort (UB check / panic in a nounwind context)
            let case = CASE.with(|c| c.borrow().clone());
            let loc = info.location().map(|l| format!("{}:{}", l.file(), l.line())).unwrap_or_default();
            let first = msg.split('\n').next().unwrap_or("").to_string();
            eprintln!("ABORT-CASE {} => process abort: {} at {}", if case.is_empty() { "(no case announced)" } else { &case }, first, loc);
        }
        LAST_PANIC.with(|p| *p.borrow_mut() = msg);
    }));
}

pub fn last_panic() -> String {
    LAST_PANIC.with(|p| p.borrow().clone())
}

pub fn classify_panic(msg: &str) -> &'static str {
    if msg.contains("shift") && msg.contains("overflow") {
        "panic:shift"
    } else if msg.contains("with overflow") {
        "panic:overflow"
    } else {
        "panic:other"
    }
}

/// Runs `f`; a panic becomes `Err(class)`.
pub fn guarded<T>(f: impl FnOnce() -> T) -> Result<T, &'static str> {
    let was = QUIET.with(|q| q.replace(true));
    let r = panic::catch_unwind(AssertUnwindSafe(f));
    QUIET.with(|q| *q.borrow_mut() = was);
    match r {
        Ok(v) => Ok(v),
        Err(_) => Err(classify_panic(&last_panic())),
    }
}

/// FNV-1a style fold shared with the Lean driver (`digestStep`).
pub fn digest_step(mut h: u64, mut v: u128) -> u64 {
    loop {
        h = (h ^ (v & 0xff) as u64).wrapping_mul(0x100000001b3);
        if v < 256 {
            return h;
        }
        v >>= 8;
    }
}
pub const DIGEST_INIT: u64 = 0xcbf29ce484222325;

/// Marker types for the (Word, State) combinations compiled into the harness, and the
/// (Probability, PRECISION) pairs available for each.  A component implements its own
/// dispatch trait for every marker by passing a callback macro to `for_each_combo!`.
#[macro_export]
macro_rules! for_each_combo {
    ($callback:ident) => {
        $callback!(C8x16, u8, u16; u8 => [1, 2, 3, 4, 5, 7, 8]);
        $callback!(C8x32, u8, u32; u8 => [1, 2, 3, 4, 5, 7, 8]);
        $callback!(C8x64, u8, u64; u8 => [1, 3, 8]);
        $callback!(C16x32, u16, u32; u8 => [1, 4, 8]; u16 => [1, 2, 7, 8, 12, 15, 16]);
        $callback!(C16x64, u16, u64; u8 => [8]; u16 => [1, 8, 12, 16]);
        $callback!(C32x64, u32, u64; u8 => [8]; u16 => [12, 16]; u32 => [1, 8, 16, 24, 31, 32]);
        $callback!(C32x128, u32, u128; u16 => [16]; u32 => [1, 24, 32]);
        $callback!(C64x128, u64, u128; u16 => [12]; u32 => [1, 24, 32]);
    };
}

pub struct C8x16;
pub struct C8x32;
pub struct C8x64;
pub struct C16x32;
pub struct C16x64;
pub struct C32x64;
pub struct C32x128;
pub struct C64x128;

/// `(W, S, [(B, [P…])…])` as data, for generators.
pub fn combos() -> Vec<(u32, u32, Vec<(u32, Vec<u32>)>)> {
    vec![
        (8, 16, vec![(8, vec![1, 2, 3, 4, 5, 7, 8])]),
        (8, 32, vec![(8, vec![1, 2, 3, 4, 5, 7, 8])]),
        (8, 64, vec![(8, vec![1, 3, 8])]),
        (16, 32, vec![(8, vec![1, 4, 8]), (16, vec![1, 2, 7, 8, 12, 15, 16])]),
        (16, 64, vec![(8, vec![8]), (16, vec![1, 8, 12, 16])]),
        (32, 64, vec![(8, vec![8]), (16, vec![12, 16]), (32, vec![1, 8, 16, 24, 31, 32])]),
        (32, 128, vec![(16, vec![16]), (32, vec![1, 24, 32])]),
        (64, 128, vec![(16, vec![12]), (32, vec![1, 24, 32])]),
    ]
}

pub fn pow2(k: u32) -> u128 {
    if k >= 128 {
        0
    } else {
        1u128 << k
    }
}

/// What an implementation-level oracle campaign did.  Printed by `main` as
/// `EVAL <prop> <n>`, `HIST <key> <n>`, `SAMPLE <prop> <text>`, `FAIL <prop> <replay text>`.
#[derive(Default)]
pub struct Report {
    pub evals: std::collections::BTreeMap<String, u64>,
    pub hist: std::collections::BTreeMap<String, u64>,
    pub samples: std::collections::BTreeMap<String, Vec<String>>,
    pub fails: Vec<(String, String)>,
}

impl Report {
    pub fn eval(&mut self, prop: &str) {
        *self.evals.entry(prop.to_string()).or_insert(0) += 1;
    }
    pub fn count(&mut self, key: &str) {
        *self.hist.entry(key.to_string()).or_insert(0) += 1;
    }
    pub fn sample(&mut self, prop: &str, text: impl FnOnce() -> String) {
        let v = self.samples.entry(prop.to_string()).or_default();
        if v.len() < 3 {
            v.push(text());
        }
    }
    /// `replay` must be a single line that identifies the failing input completely
    pub fn fail(&mut self, prop: &str, replay: String) {
        // capped per property (not globally): a flood of failures of one property must not crowd
        // out the failing inputs of another one found later in the same campaign
        let n = self.fails.iter().filter(|(p, _)| p == prop).count();
        if n < 60 {
            self.fails.push((prop.to_string(), replay.replace('\n', " ")));
        } else {
            *self.hist.entry(format!("{}.failures_not_listed", prop)).or_insert(0) += 1;
        }
    }
}


/// The provided `Iterator` methods a type may override (`nth`, hence `skip` / `step_by`; `last`,
/// `count`, `size_hint`) must agree with plain `next()` iteration.  `mk` builds a fresh iterator over
/// the same items each time; `show` renders an item.  The adaptor methods are called on the
/// iterator itself (not behind a `map`, which would fall back to the default `nth`).
pub fn iter_forms<I: Iterator>(mk: &mut dyn FnMut() -> I, show: &dyn Fn(I::Item) -> String, rng: &mut Rng) -> Result<usize, String> {
    let base: Vec<String> = {
        let mut it = mk();
        let mut v = Vec::new();
        while let Some(x) = it.next() {
            v.push(show(x));
            if v.len() > 1 << 20 {
                return Err("iterator does not end".into());
            }
        }
        v
    };
    let n = base.len();
    let mut checks = 0usize;
    let (lo, hi) = mk().size_hint();
    checks += 1;
    if lo > n || hi.map(|h| h < n).unwrap_or(false) {
        return Err(format!("size_hint() = ({}, {:?}) but the iterator yields {} items", lo, hi, n));
    }
    let mut ks: Vec<usize> = vec![0, 1, 2, n.saturating_sub(1), n, n + 1];
    ks.push(rng.below(n as u128 + 2) as usize);
    for &k in &ks {
        checks += 3;
        let mut it = mk();
        let got = it.nth(k).map(|x| show(x));
        if got.as_ref() != base.get(k) {
            return Err(format!("nth({}) = {:?} but next() iteration gives {:?} there", k, got, base.get(k)));
        }
        let rest: Vec<String> = it.map(|x| show(x)).collect();
        let want: Vec<String> = base.iter().skip(k + 1).cloned().collect();
        if rest != want {
            return Err(format!("after nth({}) the iterator continues with {:?}, expected {:?}", k, &rest[..rest.len().min(4)], &want[..want.len().min(4)]));
        }
        let got = mk().skip(k).next().map(|x| show(x));
        if got.as_ref() != base.get(k) {
            return Err(format!("skip({}).next() = {:?} but next() iteration gives {:?} there", k, got, base.get(k)));
        }
    }
    for s in [1usize, 2, 3, n.max(1), n + 1] {
        checks += 1;
        let got: Vec<String> = mk().step_by(s).map(|x| show(x)).collect();
        let want: Vec<String> = base.iter().step_by(s).cloned().collect();
        if got != want {
            return Err(format!("step_by({}) yields {:?}…, expected {:?}…", s, &got[..got.len().min(4)], &want[..want.len().min(4)]));
        }
    }
    checks += 2;
    if mk().last().map(|x| show(x)).as_ref() != base.last() {
        return Err("last() differs from the last item of next() iteration".into());
    }
    let c = mk().count();
    if c != n {
        return Err(format!("count() = {} but next() iteration yields {} items", c, n));
    }
    Ok(checks)
}
