//! Component `range`: protocol runner (real code), case generator, implementation-level oracles
//! for `RangeEncoder` / `RangeDecoder` (src/stream/queue.rs).
#![allow(unused)]
use std::num::NonZeroUsize;

use constriction::backends::{BoundedReadWords, Cursor, ReadWords, WriteWords};
use constriction::stream::queue::{EncoderSituation, RangeCoderState, RangeDecoder, RangeEncoder};
use constriction::stream::{Code, Decode, Encode, IntoDecoder, TryCodingError};
use constriction::{BitArray, CoderError, NonZeroBitArray, Pos, Queue, Seek};
use num_traits::AsPrimitive;

use crate::rawmodel::{RawEnc, TableModel};
use crate::util::*;

type Enc<C> = RangeEncoder<<C as RangeCombo>::W, <C as RangeCombo>::S>;
type Dec<C> =
    RangeDecoder<<C as RangeCombo>::W, <C as RangeCombo>::S, Cursor<<C as RangeCombo>::W, Vec<<C as RangeCombo>::W>>>;

pub trait RangeCombo {
    type W: BitArray + Into<Self::S>;
    type S: BitArray + AsPrimitive<Self::W>;
    /// `None` = this (B, P) is not compiled in
    fn enc(c: &mut RangeEncoder<Self::W, Self::S>, b: u32, p: u32, cp: Option<(u128, u128)>) -> Option<String>;
    /// encode symbol `s` with the table model
    fn enc_sym(c: &mut RangeEncoder<Self::W, Self::S>, b: u32, p: u32, cdf: &[u128], s: usize) -> Option<String>;
    fn dec<Bk: ReadWords<Self::W, Queue>>(d: &mut RangeDecoder<Self::W, Self::S, Bk>, b: u32, p: u32, cdf: &[u128]) -> Option<String>;
    /// encode symbol `s` with the table model into an encoder over any sink (`full` = the sink
    /// refused a word)
    fn enc_sym_any<Bk: WriteWords<Self::W>>(c: &mut RangeEncoder<Self::W, Self::S, Bk>, b: u32, p: u32, cdf: &[u128], s: usize) -> Option<String>;
    /// batch forms: 0 = encode_symbols, 2 = try_encode_symbols (`Err` item at `err_at`),
    /// 4 = encode_iid_symbols
    fn enc_batch(c: &mut RangeEncoder<Self::W, Self::S>, b: u32, p: u32, form: u32, cdf: &[u128], syms: &[usize], err_at: Option<usize>) -> Option<String>;
    /// 0 = decode_symbols, 1 = try_decode_symbols (`Err` item at `err_at`), 2 = decode_iid_symbols
    fn dec_batch<Bk: ReadWords<Self::W, Queue>>(d: &mut RangeDecoder<Self::W, Self::S, Bk>, b: u32, p: u32, form: u32, cdf: &[u128], n: usize, err_at: Option<usize>) -> Option<String>;
}

fn enc_result<E>(r: Result<(), CoderError<constriction::DefaultEncoderFrontendError, E>>) -> String {
    match r {
        Ok(()) => "ok".into(),
        Err(CoderError::Frontend(_)) => "impossible".into(),
        Err(CoderError::Backend(_)) => "full".into(),
    }
}

fn enc_impl<W, S, Pr, const P: usize>(c: &mut RangeEncoder<W, S>, cp: Option<(u128, u128)>) -> String
where
    W: BitArray + Into<S> + AsPrimitive<Pr>,
    S: BitArray + AsPrimitive<W>,
    Pr: BitArray + Into<W>,
{
    let m = RawEnc::<Pr, P> { cp: cp.map(|(c, p)| (from_u128(c), from_u128(p))) };
    enc_result(c.encode_symbol(0usize, m))
}

fn enc_sym_impl<W, S, Pr, const P: usize>(c: &mut RangeEncoder<W, S>, cdf: &[u128], s: usize) -> String
where
    W: BitArray + Into<S> + AsPrimitive<Pr>,
    S: BitArray + AsPrimitive<W>,
    Pr: BitArray + Into<W>,
{
    let m = TableModel::<Pr, P>::new(cdf.to_vec());
    enc_result(c.encode_symbol(s, &m))
}

fn dec_impl<W, S, Pr, Bk, const P: usize>(d: &mut RangeDecoder<W, S, Bk>, cdf: &[u128]) -> String
where
    W: BitArray + Into<S> + AsPrimitive<Pr>,
    S: BitArray + AsPrimitive<W>,
    Pr: BitArray + Into<W>,
    Bk: ReadWords<W, Queue>,
{
    let m = TableModel::<Pr, P>::new(cdf.to_vec());
    match d.decode_symbol(&m) {
        Ok(s) => hex(s as u128),
        Err(CoderError::Frontend(_)) => "invalid_data".into(),
        Err(CoderError::Backend(_)) => "readerr".into(),
    }
}

fn enc_sym_any_impl<W, S, Pr, Bk, const P: usize>(c: &mut RangeEncoder<W, S, Bk>, cdf: &[u128], s: usize) -> String
where
    W: BitArray + Into<S> + AsPrimitive<Pr>,
    S: BitArray + AsPrimitive<W>,
    Pr: BitArray + Into<W>,
    Bk: WriteWords<W>,
{
    let m = TableModel::<Pr, P>::new(cdf.to_vec());
    enc_result(c.encode_symbol(s, &m))
}

fn enc_batch_impl<W, S, Pr, const P: usize>(c: &mut RangeEncoder<W, S>, form: u32, cdf: &[u128], syms: &[usize], err_at: Option<usize>) -> String
where
    W: BitArray + Into<S> + AsPrimitive<Pr>,
    S: BitArray + AsPrimitive<W>,
    Pr: BitArray + Into<W>,
{
    let m = TableModel::<Pr, P>::new(cdf.to_vec());
    let tr = |r: Result<(), TryCodingError<_, ()>>| match r {
        Ok(()) => "ok".to_string(),
        Err(TryCodingError::InvalidEntropyModel(())) => "modelerr".to_string(),
        Err(TryCodingError::CodingError(e)) => enc_result(Err(e)),
    };
    match form {
        0 => enc_result(c.encode_symbols(syms.iter().map(|&s| (s, &m)))),
        2 => tr(c.try_encode_symbols(syms.iter().enumerate().map(|(i, &s)| if Some(i) == err_at { Err(()) } else { Ok((s, &m)) }))),
        4 => enc_result(c.encode_iid_symbols(syms.iter().copied(), &m)),
        _ => "bad-op".into(),
    }
}

fn dec_batch_impl<W, S, Pr, Bk, const P: usize>(d: &mut RangeDecoder<W, S, Bk>, form: u32, cdf: &[u128], n: usize, err_at: Option<usize>) -> String
where
    W: BitArray + Into<S> + AsPrimitive<Pr>,
    S: BitArray + AsPrimitive<W>,
    Pr: BitArray + Into<W>,
    Bk: ReadWords<W, Queue>,
{
    let m = TableModel::<Pr, P>::new(cdf.to_vec());
    let mut out: Vec<u128> = Vec::new();
    let coding = |out: &Vec<u128>, e: CoderError<_, _>| match e {
        CoderError::Frontend(_) => format!("{} invalid_data", show_list(out.clone())),
        CoderError::Backend(_) => format!("{} readerr", show_list(out.clone())),
    };
    match form {
        0 => {
            for r in d.decode_symbols((0..n).map(|_| &m)) {
                match r {
                    Ok(s) => out.push(s as u128),
                    Err(e) => return coding(&out, e),
                }
            }
        }
        1 => {
            let it = (0..n).map(|i| if Some(i) == err_at { Err(()) } else { Ok(&m) });
            for r in d.try_decode_symbols(it) {
                match r {
                    Ok(s) => out.push(s as u128),
                    Err(TryCodingError::InvalidEntropyModel(())) => return format!("{} modelerr", show_list(out)),
                    Err(TryCodingError::CodingError(e)) => return coding(&out, e),
                }
            }
        }
        2 => {
            for r in d.decode_iid_symbols(n, &m) {
                match r {
                    Ok(s) => out.push(s as u128),
                    Err(e) => return coding(&out, e),
                }
            }
        }
        _ => return "bad-op".into(),
    }
    show_list(out)
}

macro_rules! impl_range_combo {
    ($name:ident, $W:ty, $S:ty; $($B:ty => [$($P:literal),*]);*) => {
        impl RangeCombo for $name {
            type W = $W;
            type S = $S;
            fn enc(c: &mut RangeEncoder<$W, $S>, b: u32, p: u32, cp: Option<(u128, u128)>) -> Option<String> {
                match (b, p) {
                    $($( (bb, $P) if bb == <$B>::BITS => Some(enc_impl::<$W, $S, $B, $P>(c, cp)), )*)*
                    _ => None,
                }
            }
            fn enc_sym(c: &mut RangeEncoder<$W, $S>, b: u32, p: u32, cdf: &[u128], s: usize) -> Option<String> {
                match (b, p) {
                    $($( (bb, $P) if bb == <$B>::BITS => Some(enc_sym_impl::<$W, $S, $B, $P>(c, cdf, s)), )*)*
                    _ => None,
                }
            }
            fn dec<Bk: ReadWords<$W, Queue>>(d: &mut RangeDecoder<$W, $S, Bk>, b: u32, p: u32, cdf: &[u128]) -> Option<String> {
                match (b, p) {
                    $($( (bb, $P) if bb == <$B>::BITS => Some(dec_impl::<$W, $S, $B, Bk, $P>(d, cdf)), )*)*
                    _ => None,
                }
            }
            fn enc_sym_any<Bk: WriteWords<$W>>(c: &mut RangeEncoder<$W, $S, Bk>, b: u32, p: u32, cdf: &[u128], s: usize) -> Option<String> {
                match (b, p) {
                    $($( (bb, $P) if bb == <$B>::BITS => Some(enc_sym_any_impl::<$W, $S, $B, Bk, $P>(c, cdf, s)), )*)*
                    _ => None,
                }
            }
            fn enc_batch(c: &mut RangeEncoder<$W, $S>, b: u32, p: u32, form: u32, cdf: &[u128], syms: &[usize], err_at: Option<usize>) -> Option<String> {
                match (b, p) {
                    $($( (bb, $P) if bb == <$B>::BITS => Some(enc_batch_impl::<$W, $S, $B, $P>(c, form, cdf, syms, err_at)), )*)*
                    _ => None,
                }
            }
            fn dec_batch<Bk: ReadWords<$W, Queue>>(d: &mut RangeDecoder<$W, $S, Bk>, b: u32, p: u32, form: u32, cdf: &[u128], n: usize, err_at: Option<usize>) -> Option<String> {
                match (b, p) {
                    $($( (bb, $P) if bb == <$B>::BITS => Some(dec_batch_impl::<$W, $S, $B, Bk, $P>(d, form, cdf, n, err_at)), )*)*
                    _ => None,
                }
            }
        }
    };
}
crate::for_each_combo!(impl_range_combo);

fn words<W: BitArray>(l: &[u128]) -> Vec<W> {
    l.iter().map(|&w| from_u128(w)).collect()
}

fn unwords<W: BitArray>(l: &[W]) -> Vec<u128> {
    l.iter().map(|&w| to_u128(w)).collect()
}

/// `x < 2^bits` (bits may be 128)
fn fits(x: u128, bits: u32) -> bool {
    bits >= 128 || x < (1u128 << bits)
}

fn mask(bits: u32) -> u128 {
    if bits >= 128 {
        u128::MAX
    } else {
        (1u128 << bits) - 1
    }
}

fn mk_state<C: RangeCombo>(lower: u128, range: u128) -> Option<RangeCoderState<C::W, C::S>> {
    let sb = <C::S as BitArray>::BITS as u32;
    if !fits(lower, sb) || !fits(range, sb) {
        return None;
    }
    RangeCoderState::new(from_u128::<C::S>(lower), from_u128::<C::S>(range)).ok()
}

fn mk_sit<C: RangeCombo>(n: u128, first: u128) -> EncoderSituation<C::W> {
    if n == 0 {
        EncoderSituation::Normal
    } else {
        EncoderSituation::Inverted(NonZeroUsize::new(n as usize).unwrap(), from_u128::<C::W>(first))
    }
}

fn show_sit<W: BitArray>(sit: &EncoderSituation<W>) -> String {
    match sit {
        EncoderSituation::Normal => "normal".into(),
        EncoderSituation::Inverted(n, f) => format!("inv {:x} {:x}", n.get(), to_u128(*f)),
    }
}

fn show_enc<C: RangeCombo>(e: &Enc<C>) -> String {
    let (bulk, state, sit) = e.clone().into_raw_parts();
    format!(
        "{} {:x} {:x} {}",
        show_list(unwords(&bulk)),
        to_u128(state.lower()),
        to_u128(state.range().get()),
        show_sit(&sit)
    )
}

fn show_dec<C: RangeCombo>(d: &Dec<C>) -> String {
    let (cursor, state, point) = d.clone().into_raw_parts();
    format!(
        "{:x} {:x} {:x} {:x}",
        cursor.pos(),
        to_u128(state.lower()),
        to_u128(state.range().get()),
        to_u128(point)
    )
}

fn show_dec_any<C: RangeCombo, Bk>(d: &RangeDecoder<C::W, C::S, Bk>) -> String
where
    Bk: ReadWords<C::W, Queue> + Clone + Pos + constriction::PosSeek<Position = usize>,
{
    let (cursor, state, point) = d.clone().into_raw_parts();
    format!("{:x} {:x} {:x} {:x}", cursor.pos(), to_u128(state.lower()), to_u128(state.range().get()), to_u128(point))
}

/// one decoder-mode op on a decoder over any seekable backend (owned `Cursor<Vec>` from
/// `from_compressed` / `into_decoder`, borrowed `Cursor<&[Word]>` from `for_compressed`)
fn dec_op<C: RangeCombo, Bk>(
    d: &mut RangeDecoder<C::W, C::S, Bk>,
    seg: &[&str],
    snaps: &[(usize, RangeCoderState<C::W, C::S>)],
    bad_table: &mut bool,
) -> Option<String>
where
    Bk: ReadWords<C::W, Queue> + Clone + Pos + Seek + constriction::PosSeek<Position = usize>,
{
    Some(match seg {
        ["dec", b, p, cdf] => {
            let (pp, t) = (parse_hex(p)? as u32, parse_list(cdf)?);
            if !strict_cdf(pp, &t) {
                *bad_table = true;
                "bad-table".into()
            } else {
                C::dec(d, parse_hex(b)? as u32, pp, &t).unwrap_or("unsupported".into())
            }
        }
        ["decs", b, p, form, cdf, n, err_at] => {
            let (pp, t) = (parse_hex(p)? as u32, parse_list(cdf)?);
            let form = parse_hex(form)? as u32;
            let n = parse_hex(n)? as usize;
            let err_at = if *err_at == "-" { None } else { Some(parse_hex(err_at)? as usize) };
            if form > 2 {
                return None;
            }
            if !strict_cdf(pp, &t) {
                *bad_table = true;
                "bad-table".into()
            } else {
                C::dec_batch(d, parse_hex(b)? as u32, pp, form, &t, n, err_at).unwrap_or("unsupported".into())
            }
        }
        ["seek", pos, lo, r] => match mk_state::<C>(parse_hex(lo)?, parse_hex(r)?) {
            None => "badstate".into(),
            Some(st) => match d.seek((parse_hex(pos)? as usize, st)) {
                Ok(()) => "ok".into(),
                Err(()) => "err".into(),
            },
        },
        ["seekto", i] => {
            let (pos, st) = *snaps.get(parse_hex(i)? as usize)?;
            match d.seek((pos, st)) {
                Ok(()) => "ok".into(),
                Err(()) => "err".into(),
            }
        }
        ["exhausted"] => format!("{}", d.maybe_exhausted()),
        ["exhausted2"] => {
            // the trait forms `Code::decoder_maybe_exhausted::<P>` and `Decode::<P>::maybe_exhausted`
            let a = Code::decoder_maybe_exhausted::<8>(d);
            let b = Decode::<8>::maybe_exhausted(d);
            if a == b && a == d.maybe_exhausted() { format!("{}", a) } else { "trait-mismatch".into() }
        }
        ["raw"] => show_dec_any::<C, Bk>(d),
        ["clone"] => {
            // both forms of `Clone`: `clone()`, then `clone_from` over a decoder in another state
            let copy = d.clone();
            let mut other = d.clone();
            if let Some(&(p, st)) = snaps.first() {
                let _ = other.seek((p, st));
            }
            other.clone_from(&copy);
            *d = other;
            "ok".into()
        }
        _ => return None,
    })
}

fn export<C: RangeCombo>(e: &Enc<C>) -> Vec<u128> {
    unwords(&e.clone().into_compressed().unwrap())
}

/// the executable hypothesis of the table round-trip theorem (`CV.strictCdfB`): strictly
/// increasing from 0 to 2^P, at least two symbols
fn strict_cdf(p: u32, cdf: &[u128]) -> bool {
    cdf.len() >= 3 && cdf[0] == 0 && *cdf.last().unwrap() == pow2(p) && cdf.windows(2).all(|x| x[0] < x[1])
}

fn parse_triples(toks: &[&str]) -> Option<Vec<(u32, u32, Vec<u128>)>> {
    if toks.len() % 3 != 0 {
        return None;
    }
    let mut v = Vec::new();
    for t in toks.chunks(3) {
        v.push((parse_hex(t[0])? as u32, parse_hex(t[1])? as u32, parse_list(t[2])?));
    }
    Some(v)
}

/// decode one symbol per triple; `syms exhausted?` / `syms invalid_data`
fn dec_many<C: RangeCombo, Bk: ReadWords<C::W, Queue>>(
    d: &mut RangeDecoder<C::W, C::S, Bk>,
    ts: &[(u32, u32, Vec<u128>)],
) -> String {
    let mut out = Vec::new();
    for (b, p, cdf) in ts {
        if !strict_cdf(*p, cdf) {
            return "bad-table".into();
        }
        match C::dec(d, *b, *p, cdf) {
            None => return "unsupported".into(),
            Some(o) => match parse_hex(&o) {
                Some(s) if o != "invalid_data" => out.push(s),
                _ => return format!("{} {}", show_list(out), o),
            },
        }
    }
    format!("{} {}", show_list(out), d.maybe_exhausted())
}

fn run_hist<C: RangeCombo>(segs: &[Vec<&str>]) -> String {
    let kind = segs[0][0];
    let init = &segs[1];
    let mut enc: Option<Enc<C>> = None;
    // buffer of a borrowed decoder (`for_compressed`); declared first so that it outlives it
    let borrowed_buf: Vec<C::W> = match (kind, init.as_slice()) {
        ("rangedec", ["borrowed", ws]) => match parse_list(ws) {
            Some(l) => words::<C::W>(&l),
            None => return "bad-op".into(),
        },
        _ => Vec::new(),
    };
    let mut bdec: Option<RangeDecoder<C::W, C::S, Cursor<C::W, &[C::W]>>> = None;
    let mut dec: Option<Dec<C>> = None;
    let mut snaps: Vec<(usize, RangeCoderState<C::W, C::S>)> = Vec::new();
    let mut spec_ok = false;
    let mut bad_table = false;
    macro_rules! pl {
        ($e:expr) => {
            match parse_list($e) {
                Some(l) => l,
                None => return "bad-op".into(),
            }
        };
    }
    macro_rules! ph {
        ($e:expr) => {
            match parse_hex($e) {
                Some(l) => l,
                None => return "bad-op".into(),
            }
        };
    }
    match (kind, init.as_slice()) {
        ("range", ["new"]) => {
            // `new()` and `Default::default()` must be the same encoder (alternate by line length)
            enc = Some(if segs.iter().map(|x| x.len()).sum::<usize>() % 2 == 0 { RangeEncoder::new() } else { Default::default() });
            spec_ok = true;
        }
        ("range", ["with", ws]) => {
            enc = Some(RangeEncoder::with_backend(words::<C::W>(&pl!(ws))));
            spec_ok = true;
        }
        ("range", ["raw", ws, lo, r, n, first]) => {
            let l = pl!(ws);
            let (lo, r, n, first) = (ph!(lo), ph!(r), ph!(n), ph!(first));
            if n > u64::MAX as u128 {
                return "bad-op".into();
            }
            match mk_state::<C>(lo, r) {
                Some(st) => enc = Some(RangeEncoder::from_raw_parts(words::<C::W>(&l), st, mk_sit::<C>(n, first))),
                None => return "err".into(),
            }
        }
        ("rangedec", ["words", ws]) => {
            dec = Some(RangeDecoder::from_compressed(words::<C::W>(&pl!(ws))).unwrap());
        }
        ("rangedec", ["borrowed", _]) => {
            bdec = Some(RangeDecoder::for_compressed(&borrowed_buf).unwrap());
        }
        ("rangedec", ["rawdec", ws, pos, lo, r, pt]) => {
            let l = pl!(ws);
            let (pos, lo, r, pt) = (ph!(pos), ph!(lo), ph!(r), ph!(pt));
            let cursor = match Cursor::new_at_pos(words::<C::W>(&l), pos as usize) {
                Ok(c) => c,
                Err(_) => return "err".into(),
            };
            let st = match mk_state::<C>(lo, r) {
                Some(st) => st,
                None => return "err".into(),
            };
            match RangeDecoder::from_raw_parts(cursor, st, from_u128::<C::S>(pt)) {
                Ok(d) => dec = Some(d),
                Err(_) => return "err".into(),
            }
        }
        _ => return "bad-op".into(),
    }
    let mut outs: Vec<String> = vec!["ok".into()];
    for seg in &segs[2..] {
        let r = guarded(|| -> Option<String> {
            if let Some(coder) = enc.as_mut() {
                Some(match seg.as_slice() {
                    ["enc", b, p, cum, pr] => {
                        let (pp, cum, pr) = (parse_hex(p)? as u32, parse_hex(cum)?, parse_hex(pr)?);
                        let o = C::enc(coder, parse_hex(b)? as u32, pp, Some((cum, pr))).unwrap_or("unsupported".into());
                        // the big-number reference is only defined for pairs inside [0, 2^P]
                        if o == "ok" && cum + pr > pow2(pp) {
                            spec_ok = false;
                        }
                        o
                    }
                    ["encnone", b, p] => C::enc(coder, parse_hex(b)? as u32, parse_hex(p)? as u32, None)
                        .unwrap_or("unsupported".into()),
                    ["encs", b, p, form, cdf, syms, err_at] => {
                        let (pp, t) = (parse_hex(p)? as u32, parse_list(cdf)?);
                        let form = parse_hex(form)? as u32;
                        let syms: Vec<usize> = parse_list(syms)?.iter().map(|&x| x as usize).collect();
                        let err_at = if *err_at == "-" { None } else { Some(parse_hex(err_at)? as usize) };
                        if form != 0 && form != 2 && form != 4 {
                            return None;
                        }
                        if !strict_cdf(pp, &t) {
                            bad_table = true;
                            "bad-table".into()
                        } else {
                            let o = C::enc_batch(coder, parse_hex(b)? as u32, pp, form, &t, &syms, err_at).unwrap_or("unsupported".into());
                            if o != "ok" {
                                spec_ok = false;
                            }
                            o
                        }
                    }
                    ["full"] => {
                        // inherent `maybe_full`, `Encode::<P>::maybe_full`, `Code::encoder_maybe_full::<P>`
                        let a = coder.maybe_full();
                        let b = Encode::<8>::maybe_full(coder);
                        let c = Code::encoder_maybe_full::<8>(coder);
                        if a == b && b == c { format!("{}", a) } else { "trait-mismatch".into() }
                    }
                    ["intodec2"] => {
                        let e = enc.take().unwrap();
                        dec = Some(IntoDecoder::<8>::into_decoder(e));
                        "ok".into()
                    }
                    ["export"] => show_list(export::<C>(coder)),
                    ["getc"] => {
                        let g = coder.get_compressed();
                        show_list(unwords(&g))
                    }
                    ["decoder", rest @ ..] => {
                        let ts = parse_triples(rest)?;
                        let mut d = coder.decoder();
                        dec_many::<C, _>(&mut d, &ts)
                    }
                    ["nw"] => hex(coder.num_words() as u128),
                    ["nb"] => hex(coder.num_bits() as u128),
                    ["empty"] => format!("{}", coder.is_empty()),
                    ["pos"] | ["snap"] => {
                        let (n, st) = coder.pos();
                        if seg[0] == "snap" {
                            snaps.push((n, st));
                        }
                        format!("{:x} {:x} {:x}", n, to_u128(st.lower()), to_u128(st.range().get()))
                    }
                    ["raw"] => show_enc::<C>(coder),
                    ["clone"] => {
                        // both forms of `Clone`: `clone()`, then `clone_from` into an encoder with other contents
                        let copy = coder.clone();
                        let mut other = copy.clone();
                        other.clear();
                        other.clone_from(&copy);
                        *coder = other;
                        "ok".into()
                    }
                    ["clear"] => {
                        coder.clear();
                        // as new: the reference applies again, to what is encoded from here on
                        spec_ok = true;
                        "ok".into()
                    }
                    ["intodec"] => {
                        let e = enc.take().unwrap();
                        dec = Some(e.into_decoder().unwrap());
                        "ok".into()
                    }
                    ["expect", ws] => {
                        if export::<C>(coder) == parse_list(ws)? { "ok".into() } else { "differs".into() }
                    }
                    ["spec"] => {
                        if spec_ok {
                            show_list(export::<C>(coder))
                        } else {
                            "n/a".into()
                        }
                    }
                    _ => return None,
                })
            } else if let Some(d) = bdec.as_mut() {
                dec_op::<C, _>(d, seg.as_slice(), &snaps, &mut bad_table)
            } else {
                dec_op::<C, _>(dec.as_mut().unwrap(), seg.as_slice(), &snaps, &mut bad_table)
            }
        });
        match r {
            Ok(Some(s)) => {
                let stop = bad_table || s.ends_with("bad-table");
                outs.push(s);
                if stop {
                    break;
                }
            }
            Ok(None) => {
                outs.push("bad-op".into());
                break;
            }
            Err(class) => {
                outs.push(class.into());
                break;
            }
        }
    }
    outs.join(" | ")
}

// ---------------------------------------------------------------------------------------
// single-step sweeps

fn digest_list(h: u64, l: &[u128]) -> u64 {
    let mut h = digest_step(h, l.len() as u128);
    for &x in l {
        h = digest_step(h, x);
    }
    h
}

fn all_cp(p: u32) -> Vec<(u128, u128)> {
    let total = 1u128 << p;
    let mut v = Vec::new();
    for cum in 0..total {
        for p1 in 0..(total - cum) {
            v.push((cum, p1 + 1));
        }
    }
    v
}

fn sits(firsts: &[u128]) -> Vec<(u128, u128)> {
    let mut v = vec![(0, 0)];
    for &f in firsts {
        v.push((1, f));
        v.push((2, f));
        v.push((3, f));
    }
    v
}

fn class_code(class: &str) -> u128 {
    match class {
        "panic:overflow" => 3,
        "panic:shift" => 4,
        _ => 5,
    }
}

fn enc_sweep<C: RangeCombo>(w: u32, s: u32, b: u32, p: u32, los: &[u128], rs: &[u128], fs: &[u128]) -> String {
    let cps = all_cp(p);
    let sits = sits(fs);
    let mut count: u128 = 0;
    let mut h = DIGEST_INIT;
    for &lo in los {
        for &r in rs {
            if (r >> (s - w)) == 0 || !fits(r, s) || !fits(lo, s) {
                count += 1;
                h = digest_step(h, 9);
                continue;
            }
            let st = mk_state::<C>(lo, r).unwrap();
            for &(n, f) in &sits {
                for &(cum, pr) in &cps {
                    let res = guarded(|| {
                        let mut e: Enc<C> = RangeEncoder::from_raw_parts(Vec::new(), st, mk_sit::<C>(n, f));
                        let o = C::enc(&mut e, b, p, Some((cum, pr)));
                        (o, e)
                    });
                    match res {
                        Ok((Some(o), e)) if o == "ok" => {
                            h = digest_step(h, 1);
                            let (bulk, state, sit) = e.into_raw_parts();
                            h = digest_list(h, &unwords(&bulk));
                            h = digest_step(h, to_u128(state.lower()));
                            h = digest_step(h, to_u128(state.range().get()));
                            match sit {
                                EncoderSituation::Normal => h = digest_step(h, 0),
                                EncoderSituation::Inverted(n, f) => {
                                    h = digest_step(h, 1);
                                    h = digest_step(h, n.get() as u128);
                                    h = digest_step(h, to_u128(f));
                                }
                            }
                        }
                        Ok((Some(_), _)) => h = digest_step(h, 2),
                        Ok((None, _)) => return "unsupported".into(),
                        Err(class) => h = digest_step(h, class_code(class)),
                    }
                    let sealed = guarded(|| {
                        let e: Enc<C> = RangeEncoder::from_raw_parts(Vec::new(), st, mk_sit::<C>(n, f));
                        unwords(&e.into_compressed().unwrap())
                    });
                    match sealed {
                        Ok(ws) => h = digest_list(h, &ws),
                        Err(_) => h = digest_step(h, 7),
                    }
                    count += 1;
                }
            }
        }
    }
    format!("{:x} {:x}", count, h)
}

fn dec_sweep<C: RangeCombo>(w: u32, s: u32, b: u32, p: u32, los: &[u128], rs: &[u128], pts: &[u128], cdf: &[u128]) -> String {
    let data: Vec<C::W> = vec![from_u128::<C::W>(0x5a & mask(w))];
    let mut count: u128 = 0;
    let mut h = DIGEST_INIT;
    for &lo in los {
        for &r in rs {
            for &pt in pts {
                count += 1;
                if (r >> (s - w)) == 0 || !fits(r, s) || !fits(lo, s) || !fits(pt, s) {
                    h = digest_step(h, 8);
                    continue;
                }
                let st = mk_state::<C>(lo, r).unwrap();
                let cursor = Cursor::new_at_pos(data.clone(), 0).unwrap();
                let d0: Dec<C> = match RangeDecoder::from_raw_parts(cursor, st, from_u128::<C::S>(pt)) {
                    Ok(d) => d,
                    Err(_) => {
                        h = digest_step(h, 9);
                        continue;
                    }
                };
                let res = guarded(|| {
                    let mut d = d0.clone();
                    let o = C::dec(&mut d, b, p, cdf);
                    (o, d)
                });
                match res {
                    Ok((Some(o), d)) if o == "invalid_data" => h = digest_step(h, 2),
                    Ok((Some(o), d)) => {
                        h = digest_step(h, 1);
                        h = digest_step(h, parse_hex(&o).unwrap_or(u128::MAX));
                        let (cursor, state, point) = d.into_raw_parts();
                        h = digest_step(h, cursor.pos() as u128);
                        h = digest_step(h, to_u128(state.lower()));
                        h = digest_step(h, to_u128(state.range().get()));
                        h = digest_step(h, to_u128(point));
                    }
                    Ok((None, _)) => return "unsupported".into(),
                    Err(class) => h = digest_step(h, class_code(class)),
                }
                h = digest_step(h, if d0.maybe_exhausted() { 1 } else { 0 });
            }
        }
    }
    format!("{:x} {:x}", count, h)
}

fn run_combo<C: RangeCombo>(segs: &[Vec<&str>]) -> String {
    let head = &segs[0];
    let w = <C::W as BitArray>::BITS as u32;
    let s = <C::S as BitArray>::BITS as u32;
    match head[0] {
        "range" | "rangedec" => {
            if head.len() != 3 || segs.len() < 2 {
                return "bad-op".into();
            }
            run_hist::<C>(segs)
        }
        "rangesweep" => {
            if head.len() != 8 || segs.len() != 1 {
                return "bad-op".into();
            }
            let f = || -> Option<String> {
                Some(enc_sweep::<C>(
                    w,
                    s,
                    parse_hex(head[3])? as u32,
                    parse_hex(head[4])? as u32,
                    &parse_list(head[5])?,
                    &parse_list(head[6])?,
                    &parse_list(head[7])?,
                ))
            };
            f().unwrap_or("bad-op".into())
        }
        "rangedecsweep" => {
            if head.len() != 9 || segs.len() != 1 {
                return "bad-op".into();
            }
            if !matches!((parse_hex(head[4]), parse_list(head[8])), (Some(pp), Some(t)) if strict_cdf(pp as u32, &t)) {
                return if parse_hex(head[4]).is_some() && parse_list(head[8]).is_some() { "bad-table".into() } else { "bad-op".into() };
            }
            let f = || -> Option<String> {
                Some(dec_sweep::<C>(
                    w,
                    s,
                    parse_hex(head[3])? as u32,
                    parse_hex(head[4])? as u32,
                    &parse_list(head[5])?,
                    &parse_list(head[6])?,
                    &parse_list(head[7])?,
                    &parse_list(head[8])?,
                ))
            };
            f().unwrap_or("bad-op".into())
        }
        _ => "bad-op".into(),
    }
}

pub fn run(segs: &[Vec<&str>]) -> String {
    let head = &segs[0];
    if head.len() < 3 {
        return "bad-op".into();
    }
    let (w, s) = match (parse_hex(head[1]), parse_hex(head[2])) {
        (Some(w), Some(s)) => (w, s),
        _ => return "bad-op".into(),
    };
    match (w, s) {
        (8, 16) => run_combo::<C8x16>(segs),
        (8, 32) => run_combo::<C8x32>(segs),
        (8, 64) => run_combo::<C8x64>(segs),
        (16, 32) => run_combo::<C16x32>(segs),
        (16, 64) => run_combo::<C16x64>(segs),
        (32, 64) => run_combo::<C32x64>(segs),
        (32, 128) => run_combo::<C32x128>(segs),
        (64, 128) => run_combo::<C64x128>(segs),
        _ => "unsupported".into(),
    }
}

include!("range_gen.rs");
include!("range_oracle.rs");
