// ---------------------------------------------------------------------------------------
// implementation-level oracles (included into cat.rs; no reference to the Lean model)

thread_local! {
    static FAIL_CLASSES: std::cell::RefCell<BTreeMap<String, u32>> = std::cell::RefCell::new(BTreeMap::new());
}

/// at most 6 reports per (property, constructor kind, failure class) so that one defect
/// cannot crowd out the others (the shared `Report` keeps 200 failures in total)
fn cat_fail(rep: &mut Report, prop: &str, replay: String) {
    let kind = replay.split(' ').next().unwrap_or("").to_string();
    // class = the reason text without the numbers / table contents
    let tail = match replay.rfind("=> ") {
        Some(i) => &replay[i + 3..],
        None => "",
    };
    let tail = match (tail.find('('), tail.starts_with(|c: char| c.is_ascii_hexdigit())) {
        (Some(i), true) => &tail[i..],
        _ => tail,
    };
    let class: String = tail
        .split(' ')
        .filter(|w| !w.chars().all(|c| c.is_ascii_hexdigit() || c == ':' || c == ',' || c == '-'))
        .collect::<Vec<_>>()
        .join("_")
        .chars()
        .take(40)
        .collect();
    let key = format!("{}|{}|{}", prop, kind, class);
    let n = FAIL_CLASSES.with(|m| {
        let mut m = m.borrow_mut();
        let e = m.entry(key).or_insert(0);
        *e += 1;
        *e
    });
    rep.count(&format!("FAILCLASS {} {} {}", prop, kind, class));
    if n <= 6 {
        rep.fail(prop, replay);
    }
}

thread_local! {
    static DUP_FAILS: std::cell::RefCell<BTreeMap<String, u32>> = std::cell::RefCell::new(BTreeMap::new());
}

/// The open known finding "decoder constructors accept a symbol list with repeated entries":
/// at most three FAIL lines per property and run, the rest only counted.  (The two texts
/// produced through this function are the only failure texts that contain the key phrase the
/// known-findings filter matches on.)
fn dup_fail(rep: &mut Report, prop: &str, replay: String) {
    rep.count("C19.duplicate_symbols");
    let n = DUP_FAILS.with(|m| {
        let mut m = m.borrow_mut();
        let e = m.entry(prop.to_string()).or_insert(0);
        *e += 1;
        *e
    });
    if n <= 3 {
        rep.fail(prop, replay);
    }
}

/// first repeated symbol: `(symbol, first index, second index)`
fn first_duplicate(syms: &[usize]) -> Option<(usize, usize, usize)> {
    let mut seen: std::collections::HashMap<usize, usize> = std::collections::HashMap::new();
    for (i, &s) in syms.iter().enumerate() {
        if let Some(&j) = seen.get(&s) {
            return Some((s, j, i));
        }
        seen.insert(s, i);
    }
    None
}

fn describe(b: u32, p: u32, c: &Ctor) -> String {
    match c {
        Ctor::Contig { probs, infer } => format!("cat.contig {:x} {:x} {} {}", b, p, show_list(probs.clone()), *infer as u8),
        Ctor::Lookup { probs, infer } => format!("cat.lookup {:x} {:x} {} {}", b, p, show_list(probs.clone()), *infer as u8),
        Ctor::NcDec { syms, probs, infer } => format!("cat.ncdec {:x} {:x} {} {} {}", b, p, show_list(syms.iter().map(|&s| s as u128)), show_list(probs.clone()), *infer as u8),
        Ctor::NcEnc { syms, probs, infer } => format!("cat.ncenc {:x} {:x} {} {} {}", b, p, show_list(syms.iter().map(|&s| s as u128)), show_list(probs.clone()), *infer as u8),
        Ctor::NcLookup { syms, probs, infer } => format!("cat.nclookup {:x} {:x} {} {} {}", b, p, show_list(syms.iter().map(|&s| s as u128)), show_list(probs.clone()), *infer as u8),
        Ctor::Uniform { range } => format!("cat.uniform {:x} {:x} {:x}", b, p, range),
        Ctor::Fast { kind, n, syms } => format!("cat.fast {} {:x} {:x} {:x} {}", kind, b, p, n, show_list(syms.iter().map(|&s| s as u128))),
        Ctor::FromTable { target, table } => format!("cat.fromtable {} {:x} {:x} {}", target, b, p, show_triples(table)),
        Ctor::AdvBorrow { kind, syms, first, later, infer } => format!("cat.adv.borrow {} {:x} {:x} {} {} {} {}", kind, b, p, show_list(syms.iter().map(|&s| s as u128)), show_list(first.clone()), show_list(later.clone()), *infer as u8),
        Ctor::AdvHint { kind, syms, probs, infer, lo, hi } => format!("cat.adv.hint {} {:x} {:x} {} {} {} {:x} {}", kind, b, p, show_list(syms.iter().map(|&s| s as u128)), show_list(probs.clone()), *infer as u8, lo, hi.map(|h| format!("{:x}", h)).unwrap_or("-".into())),
    }
}

/// Is `t` a tiling of `[0, 2^p)` by non-empty intervals none of which is everything?
fn tiling_defect(p: u32, t: &[Triple]) -> Option<String> {
    if t.len() < 2 {
        return Some(format!("{} symbol(s) only", t.len()));
    }
    let total = pow2(p);
    let mut c = 0u128;
    for (i, &(_, left, pr)) in t.iter().enumerate() {
        if left != c {
            return Some(format!("entry {} starts at {:x}, expected {:x}", i, left, c));
        }
        if pr == 0 {
            return Some(format!("entry {} has probability zero", i));
        }
        if pr >= total {
            return Some(format!("entry {} has probability one", i));
        }
        c = c.saturating_add(pr);
        if c > total {
            return Some(format!("entry {} ends at {:x}, beyond 2^P", i, c));
        }
    }
    if c != total {
        return Some(format!("total {:x} != 2^P", c));
    }
    None
}

fn find_entry(t: &[Triple], q: u128) -> Option<Triple> {
    // binary search over left cumulatives (the oracle's own, independent of the crate)
    let (mut lo, mut hi) = (0usize, t.len());
    while hi - lo > 1 {
        let mid = (lo + hi) / 2;
        if t[mid].1 <= q {
            lo = mid;
        } else {
            hi = mid;
        }
    }
    t.get(lo).copied().filter(|e| e.1 <= q && q < e.1 + e.2)
}

thread_local! {
    /// every quantile is checked if `2^P` is at most this (raised by the conversion matrix)
    static FULL_SWEEP_LIMIT: std::cell::Cell<u128> = std::cell::Cell::new(4096);
}

fn sample_quantiles(rng: &mut Rng, p: u32, t: &[Triple]) -> Vec<u128> {
    let total = pow2(p);
    if total <= FULL_SWEEP_LIMIT.with(|l| l.get()) {
        return (0..total).collect();
    }
    let mut v = vec![0, total - 1, total / 2];
    for (i, e) in t.iter().enumerate() {
        if i < 40 || rng.chance(1, 8) {
            v.push(e.1);
            v.push(e.1 + e.2 - 1);
            v.push(e.1 + e.2 / 2);
        }
    }
    for _ in 0..64 {
        v.push(rng.below(total));
    }
    v
}

fn outside_symbols(rng: &mut Rng, t: &[Triple]) -> Vec<usize> {
    let inside: std::collections::HashSet<usize> = t.iter().map(|e| e.0).collect();
    let n = t.len();
    let mut v: Vec<usize> = vec![n, n + 1, usize::MAX, usize::MAX - 1];
    for base in [1usize << 8, 1 << 16, 1 << 32, 1 << 63] {
        v.push(base - 1);
        v.push(base);
        v.push(base + 1);
        for e in t.iter().take(6) {
            v.push(base.wrapping_add(e.0));
        }
        v.push(base + rng.below(n as u128) as usize);
    }
    for e in t.iter().take(8) {
        v.push(e.0.wrapping_add(1));
        v.push(e.0.wrapping_sub(1));
    }
    v.retain(|s| !inside.contains(s));
    v
}

/// C03 (+ C09, C20 bookkeeping) on one model against the table `expect` (`None`: the model's own)
fn check_model(rng: &mut Rng, rep: &mut Report, desc: &str, b: u32, p: u32, m: &dyn DynModel, expect: Option<&[Triple]>, prop: &str) -> Option<Vec<Triple>> {
    // Structural checks FIRST and only through calls that cannot reach an unsafe precondition:
    // `symbol_table()` builds its `NonZero`s with the checked `into_nonzero().expect(..)`, so a
    // zero-probability entry shows up as an ordinary (catchable) panic, whereas
    // `left_cumulative_and_probability` / `quantile_function` would hit
    // `into_nonzero_unchecked(0)` or an unchecked index and abort the process.
    let own = match guarded(|| m.table()) {
        Ok(x) => x,
        Err(class) => {
            rep.eval(prop);
            cat_fail(rep, prop, format!("{} | table => {} (an accepted model whose symbol table cannot be listed)", desc, class));
            if prop != "C19" {
                cat_fail(rep, "C19", format!("{} | table => {} (accepted model is not a valid model)", desc, class));
            }
            cat_fail(rep, "C20", format!("{} | table => {}: accepted model has a zero-probability entry and would reach into_nonzero_unchecked(0) in left_cumulative_and_probability / quantile_function (queries skipped)", desc, class));
            return None;
        }
    };
    let t: Vec<Triple> = match (&own, expect) {
        (Some(t), _) => t.clone(),
        (None, Some(e)) => e.to_vec(),
        (None, None) => return None,
    };
    rep.eval(prop);
    rep.eval("C20");
    if let Some(d) = tiling_defect(p, &t) {
        cat_fail(rep, prop, format!("{} | table => {} ({})", desc, show_table(&t), d));
        if own.is_some() {
            if prop != "C19" {
                cat_fail(rep, "C19", format!("{} | table => {} ({}: accepted model is not a valid model)", desc, show_table(&t), d));
            }
            cat_fail(rep, "C20", format!("{} | table => {} ({}): accepted model would reach into_nonzero_unchecked(0) / an unchecked index out of bounds in its query functions (queries skipped)", desc, show_table(&t), d));
        }
        return Some(t);
    }
    if let (Some(own), Some(e)) = (&own, expect) {
        rep.eval("C05");
        if own[..] != e[..] {
            cat_fail(rep, "C05", format!("{} | table => {} but the source model has {}", desc, show_table(own), show_table(e)));
        }
    }
    let distinct = t.iter().map(|e| e.0).collect::<std::collections::HashSet<_>>().len() == t.len();
    // encoder view
    if guarded(|| m.enc(0).is_some()).unwrap_or(true) && distinct {
        for e in t.iter() {
            if t.len() > 64 && !rng.chance(1, 4) {
                continue;
            }
            rep.eval(prop);
            let r = match guarded(|| m.enc(e.0).unwrap()) {
                Ok(r) => r,
                Err(class) => {
                    cat_fail(rep, prop, format!("{} | enc {:x} => {}", desc, e.0, class));
                    break;
                }
            };
            if r != Some((e.1, e.2)) {
                cat_fail(rep, prop, format!("{} | enc {:x} => {:?} but the table says {:x}:{:x}", desc, e.0, r, e.1, e.2));
                break;
            }
        }
        for s in outside_symbols(rng, &t) {
            rep.eval("C09");
            let r = match guarded(|| m.enc(s).unwrap()) {
                Ok(r) => r,
                Err(class) => {
                    cat_fail(rep, "C09", format!("{} | enc {:x} => {}", desc, s, class));
                    break;
                }
            };
            if r.is_some() {
                cat_fail(rep, "C09", format!("{} | enc {:x} => {:?} for a symbol outside the support", desc, s, r));
                break;
            }
        }
    }
    // decoder view
    if guarded(|| m.dec(0).is_some()).unwrap_or(true) {
        // C10 (model half): for every quantile below 2^P -- the last bin and P == BITS
        // included -- `quantile_function` returns, without panicking, an in-support symbol
        // whose bin contains the quantile.  Every such evaluation counts for `prop` and C10.
        rep.count(&format!("C10.dec.{}.b{}.{}", m.kind(), b, if p == b { "P=B" } else { "P<B" }));
        for q in sample_quantiles(rng, p, &t) {
            rep.eval(prop);
            rep.eval("C10");
            let r = match guarded(|| m.dec(q).unwrap()) {
                Ok(r) => r,
                Err(class) => {
                    cat_fail(rep, prop, format!("{} | dec {:x} => {}", desc, q, class));
                    cat_fail(rep, "C10", format!("{} | dec {:x} => {} (quantile_function must be total below 2^P)", desc, q, class));
                    break;
                }
            };
            let want = find_entry(&t, q);
            if Some(r) != want {
                cat_fail(rep, prop, format!("{} | dec {:x} => {} but the table says {:?}", desc, q, show_triple(&r), want.map(|w| show_triple(&w))));
                let inside = t.iter().any(|e| e.0 == r.0) && r.1 <= q && q < r.1.saturating_add(r.2);
                cat_fail(rep, "C10", format!("{} | dec {:x} => {} {} (the model's bin for this quantile is {:?})", desc, q, show_triple(&r),
                    if inside { "is a bin of another shape than the model's" } else { "is not an in-support symbol whose bin contains the quantile" }, want.map(|w| show_triple(&w))));
                break;
            }
        }
    }
    if let Ok(Some(n)) = guarded(|| m.support()) {
        rep.eval("C05");
        let d = t.iter().map(|e| e.0).collect::<std::collections::HashSet<_>>().len();
        let want = if m.kind() == "ncenc" { d } else { t.len() };
        if n != want {
            cat_fail(rep, "C05", format!("{} | support => {:x} but the table has {:x} entries", desc, n, want));
        }
    }
    Some(t)
}

/// every representation reachable within two conversions agrees with the source (C05)
fn check_conversions(rng: &mut Rng, rep: &mut Report, desc: &str, b: u32, p: u32, m: &dyn DynModel, t: &[Triple], depth: usize) {
    let distinct = t.iter().map(|e| e.0).collect::<std::collections::HashSet<_>>().len() == t.len();
    for op in ["view", "tolookup", "togenenc", "togendec", "togenlookup", "ascontig", "intocontig", "asnc", "intonc"] {
        let converted = match guarded(|| m.conv(op)) {
            Ok(c) => c,
            Err(class) => {
                rep.eval("C05");
                cat_fail(rep, "C05", format!("{} | {} => {}", desc, op, class));
                continue;
            }
        };
        match converted {
            Conv::Na | Conv::Unsupported => {}
            Conv::Ok(n) => {
                if op == "togenenc" && !distinct {
                    // repeated labels (only the decoder constructors accept them): the hash map
                    // keeps one interval per label, so the generic encoder cannot be the
                    // decoder's model.  Exercise it and report it (open known finding).
                    rep.eval("C05");
                    let labels: Vec<usize> = t.iter().map(|e| e.0).collect();
                    if let Some((sym, i, j)) = first_duplicate(&labels) {
                        let got = guarded(|| n.enc(sym)).ok().flatten().flatten();
                        let covered: u128 = {
                            let mut seen = std::collections::HashSet::new();
                            let mut c = 0u128;
                            for &l in &labels {
                                if seen.insert(l) {
                                    if let Ok(Some(Some((_, pr)))) = guarded(|| n.enc(l)) {
                                        c = c.saturating_add(pr);
                                    }
                                }
                            }
                            c
                        };
                        let sup = guarded(|| n.support()).ok().flatten();
                        if covered != pow2(p) || sup != Some(labels.len()) {
                            dup_fail(rep, "C05", format!(
                                "{} | togenenc | support | enc {:x} => duplicate symbols: generic encoder is not the decoder's model (symbol {:x} labels bins {} and {} = {:x}:{:x} and {:x}:{:x}, the encoder answers {:?}, has {:?} of {} entries and covers {:x} of 2^P)",
                                desc, sym, sym, i, j, t[i].1, t[i].2, t[j].1, t[j].2, got, sup, labels.len(), covered));
                        }
                    }
                    continue;
                }
                rep.count(&format!("C05.conv.{}.{}", m.kind(), op));
                rep.count(&format!("C05.cell.{}.{}.b{}.{}", m.kind(), op, b, if p == b { "P=B" } else { "P<B" }));
                let d = format!("{} | {}", desc, op);
                check_model(rng, rep, &d, b, p, n.as_ref(), Some(t), "C05");
                if depth > 1 {
                    check_conversions(rng, rep, &d, b, p, n.as_ref(), t, depth - 1);
                }
            }
        }
    }
}

fn ctor_for(kind: &str, labels: &[usize], given: &[u128], infer: bool) -> Ctor {
    match kind {
        "contig" => Ctor::Contig { probs: given.to_vec(), infer },
        "lookup" => Ctor::Lookup { probs: given.to_vec(), infer },
        "ncdec" => Ctor::NcDec { syms: labels.to_vec(), probs: given.to_vec(), infer },
        "ncenc" => Ctor::NcEnc { syms: labels.to_vec(), probs: given.to_vec(), infer },
        _ => Ctor::NcLookup { syms: labels.to_vec(), probs: given.to_vec(), infer },
    }
}

/// the table a valid input describes
fn expected_table(labels: &[usize], probs: &[u128]) -> Vec<Triple> {
    let mut c = 0u128;
    labels
        .iter()
        .zip(probs.iter())
        .map(|(&l, &p)| {
            let e = (l, c, p);
            c = c.saturating_add(p);
            e
        })
        .collect()
}

/// valid input: must be accepted (documented preconditions hold) and be exactly that model
fn oracle_valid(rng: &mut Rng, rep: &mut Report, b: u32, p: u32, kind: &str, probs: &[u128], infer: bool, conv_depth: usize) {
    let n = probs.len();
    let labels: Vec<usize> = if ["contig", "lookup"].contains(&kind) { (0..n).collect() } else { random_labels(rng, n) };
    let given = if infer { &probs[..n - 1] } else { probs };
    let c = ctor_for(kind, &labels, given, infer);
    let desc = describe(b, p, &c);
    rep.eval("C19");
    rep.count(&format!("C19.valid.{}.b{}{}{}", kind, b, if p == b { ".full_precision" } else { "" }, if infer { ".infer" } else { "" }));
    match guarded(|| build(b, p, &c)) {
        Ok(Some(Built::Ok(m))) => {
            let want = expected_table(&labels, probs);
            let t = check_model(rng, rep, &desc, b, p, m.as_ref(), Some(&want), "C03");
            if let Some(t) = t {
                if t[..] != want[..] {
                    cat_fail(rep, "C03", format!("{} | table => {} expected {}", desc, show_table(&t), show_table(&want)));
                }
                rep.sample("C03", || desc.clone());
                if conv_depth > 0 {
                    check_conversions(rng, rep, &desc, b, p, m.as_ref(), &want, conv_depth);
                }
            }
        }
        Ok(Some(Built::Rejected)) => cat_fail(rep, "C19", format!("{} => rejected although the table is valid{}", desc, if infer { " (infer_last_probability)" } else { "" })),
        Ok(Some(Built::Unsupported)) | Ok(None) => {}
        Err(class) => cat_fail(rep, "C19", format!("{} => {}", desc, class)),
    }
}

/// The oracle's own reading of a fixed-point table, in wide checked arithmetic: the full table
/// (input plus inferred entry) or the reason why the input is invalid.
fn table_verdict(p: u32, probs: &[u128], infer: bool) -> Result<Vec<u128>, String> {
    let total = pow2(p);
    let mut sum = 0u128;
    for (i, &q) in probs.iter().enumerate() {
        if q == 0 {
            return Err(format!("entry {} is zero", i));
        }
        sum = sum.saturating_add(q);
    }
    let mut full = probs.to_vec();
    if infer {
        if probs.is_empty() {
            return Err("no explicit entry (a single symbol would carry the whole mass)".into());
        }
        if sum >= total {
            return Err(format!("explicit entries sum to {:x} >= 2^P, nothing is left for the inferred entry", sum));
        }
        full.push(total - sum);
    } else {
        if sum != total {
            return Err(format!("entries sum to {:x} != 2^P", sum));
        }
    }
    if full.len() < 2 {
        return Err("a single symbol carries the whole mass".into());
    }
    Ok(full)
}

/// should this constructor call be accepted?  `Ok(expected table)` / `Err(reason)`
fn ctor_verdict(p: u32, c: &Ctor) -> Option<Result<Vec<Triple>, String>> {
    let (syms, probs, infer): (Option<&Vec<usize>>, &Vec<u128>, bool) = match c {
        Ctor::Contig { probs, infer } | Ctor::Lookup { probs, infer } => (None, probs, *infer),
        Ctor::NcDec { syms, probs, infer } | Ctor::NcEnc { syms, probs, infer } | Ctor::NcLookup { syms, probs, infer } => (Some(syms), probs, *infer),
        _ => return None,
    };
    let full = match table_verdict(p, probs, infer) {
        Ok(f) => f,
        Err(e) => return Some(Err(e)),
    };
    let labels: Vec<usize> = match syms {
        None => (0..full.len()).collect(),
        Some(s) => {
            if s.len() != full.len() {
                return Some(Err(format!("{} symbols for {} entries", s.len(), full.len())));
            }
            if let Some((sym, i, j)) = first_duplicate(s) {
                if let Ctor::NcEnc { .. } = c {
                    return Some(Err("a symbol occurs twice (its second interval would be lost)".into()));
                }
                // decoder kinds: the open known finding, reported through `dup_fail`
                return Some(Err(format!("\u{1}{:x} labels entries {} and {}", sym, i, j)));
            }
            s.clone()
        }
    };
    Some(Ok(expected_table(&labels, &full)))
}

/// arbitrary input: the constructor must accept exactly the valid inputs, and what it accepts
/// must be that model (checked structurally before any query that could reach unsafe code)
fn oracle_arbitrary(rng: &mut Rng, rep: &mut Report, b: u32, p: u32, c: &Ctor) {
    let desc = describe(b, p, c);
    rep.eval("C19");
    let verdict = ctor_verdict(p, c);
    match guarded(|| build(b, p, c)) {
        Ok(Some(Built::Ok(m))) => {
            rep.count("C19.arbitrary.accepted");
            let expect: Option<Vec<Triple>> = match &verdict {
                Some(Ok(t)) => Some(t.clone()),
                Some(Err(reason)) => {
                    if let Some(r) = reason.strip_prefix('\u{1}') {
                        dup_fail(rep, "C19", format!("{} => accepted although the symbol list has duplicate symbols: {} (the model is a valid decoder, but its symbols are not a support: C03's one-interval-per-symbol fails)", desc, r));
                    } else {
                        cat_fail(rep, "C19", format!("{} => accepted although {}", desc, reason));
                    }
                    None
                }
                None => None,
            };
            match check_model(rng, rep, &desc, b, p, m.as_ref(), expect.as_deref(), "C19") {
                Some(t) => {
                    if t.len() < 2 {
                        cat_fail(rep, "C19", format!("{} => accepted a model with a single symbol", desc));
                    }
                    if let Some(e) = &expect {
                        if t[..] != e[..] {
                            cat_fail(rep, "C19", format!("{} | table => {} but the input describes {}", desc, show_table(&t), show_table(e)));
                        }
                    }
                }
                None => {}
            }
        }
        Ok(Some(Built::Rejected)) => {
            rep.count("C19.arbitrary.rejected");
            if let Some(Ok(_)) = verdict {
                cat_fail(rep, "C19", format!("{} => rejected although the input is valid", desc));
            }
        }
        Ok(_) => {}
        Err(class) => {
            rep.count("C19.arbitrary.panicked");
            if let Some(Ok(_)) = verdict {
                cat_fail(rep, "C19", format!("{} => {} although the input is valid", desc, class));
            }
        }
    }
}

/// directed invalid (and borderline valid) tables for one `(B, P)`: every class is produced
/// with and without `infer_last_probability`
fn directed_tables(rng: &mut Rng, b: u32, p: u32) -> Vec<Vec<u128>> {
    let maxv = pow2(b) - 1;
    let t = pow2(p);
    let fits = |v: &Vec<u128>| v.iter().all(|&x| x <= maxv);
    let mut out: Vec<Vec<u128>> = Vec::new();
    // n = 0, 1, 2 entries over boundary values
    out.push(vec![]);
    let edge: Vec<u128> = {
        let mut e = vec![0, 1, 2, t / 2, t - 1, t, t + 1, maxv / 2 + 1, maxv - 1, maxv];
        e.retain(|&x| x <= maxv);
        e.sort();
        e.dedup();
        e
    };
    for &x in &edge {
        out.push(vec![x]);
        for &y in &edge {
            out.push(vec![x, y]);
        }
    }
    // valid bases of 2..5 entries and their neighbours
    for n in 2..=5usize {
        if (n as u128) > t {
            continue;
        }
        let base = random_table(rng, p, n);
        out.push(base.clone()); // sum exactly 2^P (valid without, invalid with infer_last)
        for i in [0, n / 2, n - 1] {
            // sum = 2^P + 1, 2^P - 1
            let mut v = base.clone();
            v[i] += 1;
            out.push(v);
            let mut v = base.clone();
            v[i] -= 1; // may create a zero entry: also wanted
            out.push(v);
            // a single zero entry at first / middle / last position, total unchanged
            let mut v = base.clone();
            v.insert(i.min(v.len()), 0);
            out.push(v);
            let mut v = base.clone();
            v.insert(i + 1, 0);
            out.push(v);
            // an entry equal to 2^P
            let mut v = base.clone();
            v[i] = t;
            out.push(v);
            // exactly one extra lap: sum = 2^P + 2^B (and with infer: 2^B + something < 2^P)
            let mut v = base.clone();
            v.insert(i, maxv);
            v.insert(i, 1);
            out.push(v);
            let mut v = base.clone();
            v.pop();
            v.insert(i.min(v.len()), maxv);
            v.insert(i.min(v.len()), 1);
            out.push(v);
        }
        // one wrap in the middle at P == B style: two big entries
        out.push(vec![maxv - maxv / 4, maxv / 2 + 1]);
        out.push(vec![maxv / 4 + 1, 0, maxv / 4 + 1]);
        // everything without the last entry (valid with infer_last)
        let mut v = base.clone();
        v.pop();
        out.push(v);
    }
    out.retain(|v| fits(v));
    out
}

fn oracle_uniform(rng: &mut Rng, rep: &mut Report, b: u32, p: u32, range: usize, conv: bool) {
    let c = Ctor::Uniform { range };
    let desc = describe(b, p, &c);
    rep.eval("C19");
    let valid = range >= 2 && (range as u128) <= pow2(p);
    match guarded(|| build(b, p, &c)) {
        Ok(Some(Built::Ok(m))) => {
            if !valid {
                // do not query it: `quantile_function` / `symbol_table` build `NonZero`s unchecked
                rep.count("C19.uniform.accepted_unexpected");
                cat_fail(rep, "C19", format!("{} => accepted although range is not in 2..=2^P", desc));
                cat_fail(rep, "C20", format!("{} => accepted model with range outside 2..=2^P would reach into_nonzero_unchecked(0) in its query functions (queries skipped)", desc));
                return;
            }
            if range <= 70000 {
                if let Some(t) = check_model(rng, rep, &desc, b, p, m.as_ref(), None, "C03") {
                    rep.eval("C03");
                    if t.len() != range || t.iter().enumerate().any(|(i, e)| e.0 != i) {
                        cat_fail(rep, "C03", format!("{} | table => support is not 0..range", desc));
                    }
                    if conv && range <= 300 {
                        check_conversions(rng, rep, &desc, b, p, m.as_ref(), &t, 1);
                    }
                }
            } else {
                // too large to tabulate: edges only
                let total = pow2(p);
                let ppb = total / range as u128;
                rep.eval("C03");
                let probe = [0usize, 1, range / 2, range - 2, range - 1];
                for &s in &probe {
                    let want_c = s as u128 * ppb;
                    let want_p = if s == range - 1 { total - want_c } else { ppb };
                    let r = guarded(|| m.enc(s).unwrap()).unwrap_or(None);
                    if r != Some((want_c, want_p)) {
                        cat_fail(rep, "C03", format!("{} | enc {:x} => {:?} expected {:x}:{:x}", desc, s, r, want_c, want_p));
                    }
                    for q in [want_c, want_c + want_p - 1] {
                        let d = guarded(|| m.dec(q).unwrap()).unwrap_or((usize::MAX, 0, 0));
                        rep.eval("C10");
                        if d != (s, want_c, want_p) {
                            cat_fail(rep, "C10", format!("{} | dec {:x} => {} is not the in-support symbol whose bin contains the quantile ({:x}:{:x}:{:x})", desc, q, show_triple(&d), s, want_c, want_p));
                        }
                        if d != (s, want_c, want_p) {
                            cat_fail(rep, "C03", format!("{} | dec {:x} => {} expected {:x}:{:x}:{:x}", desc, q, show_triple(&d), s, want_c, want_p));
                        }
                    }
                }
            }
            // C09: everything from `range` upwards, in particular aliases modulo 2^B
            let mut outs: Vec<usize> = vec![range, range.wrapping_add(1), usize::MAX];
            for base in [1usize << 8, 1 << 16, 1 << 32, 1 << 48] {
                for k in [0usize, 1, 3, range - 1, range / 2] {
                    outs.push(base.wrapping_add(k));
                    outs.push(base.wrapping_mul(3).wrapping_add(k));
                }
            }
            for s in outs {
                if s < range {
                    continue;
                }
                rep.eval("C09");
                let r = guarded(|| m.enc(s).unwrap()).unwrap_or(Some((u128::MAX, 0)));
                if r.is_some() {
                    cat_fail(rep, "C09", format!("{} | enc {:x} => {:?} for a symbol outside 0..range", desc, s, r));
                    break;
                }
            }
        }
        Ok(_) => {}
        Err(_) => {
            if valid {
                cat_fail(rep, "C19", format!("{} => panicked although 2 <= range <= 2^P", desc));
            } else {
                rep.count("C19.uniform.rejected");
            }
        }
    }
}

/// the open known finding, exercised on purpose: repeated symbols at the first / last /
/// adjacent / non-adjacent positions, both decoder kinds
fn oracle_duplicates(rng: &mut Rng, rep: &mut Report, b: u32, p: u32) {
    for kind in ["ncdec", "nclookup"] {
        if b >= 32 && kind == "nclookup" {
            continue;
        }
        for n in [2usize, 3, 4, 6] {
            if (n as u128) > pow2(p) {
                continue;
            }
            // (i, j): entry j repeats the symbol of entry i
            let mut patterns = vec![(0, 1), (n - 2, n - 1), (0, n - 1)];
            if n >= 4 {
                patterns.push((1, 3));
                patterns.push((n / 2 - 1, n / 2));
            }
            patterns.dedup();
            for (i, j) in patterns {
                let probs = random_table(rng, p, n);
                let infer = rng.chance(1, 2);
                let mut labels = random_labels(rng, n);
                labels[j] = labels[i];
                let given = if infer { &probs[..n - 1] } else { &probs[..] };
                let c = ctor_for(kind, &labels, given, infer);
                let desc = describe(b, p, &c);
                oracle_arbitrary(rng, rep, b, p, &c); // C19
                if let Ok(Some(Built::Ok(m))) = guarded(|| build(b, p, &c)) {
                    if let Ok(Some(t)) = guarded(|| m.table()) {
                        if tiling_defect(p, &t).is_none() {
                            check_conversions(rng, rep, &desc, b, p, m.as_ref(), &t, 1); // C05
                        }
                    }
                } else {
                    rep.count("C19.duplicate_symbols.rejected");
                }
            }
        }
    }
}

/// non-`usize` symbol types for the non-contiguous models: the same checks, run with the real
/// generic code instantiated at another `Symbol` (the protocol itself speaks `usize` only)
fn oracle_symbol_type<Sym, Pr, const P: usize>(rng: &mut Rng, rep: &mut Report, name: &str, to_sym: impl Fn(usize) -> Sym, lookup: bool)
where
    Sym: Copy + std::hash::Hash + Eq + Default + std::fmt::Debug,
    Pr: Prob + Into<u64>,
    usize: AsPrimitive<Pr>,
{
    let b = Pr::BITS as u32;
    let p = P as u32;
    for it in 0..24 {
        let n = (2 + rng.below(pow2(p).min(40) - 1)) as usize;
        let probs = random_table(rng, p, n);
        let infer = it % 2 == 0;
        let labels: Vec<usize> = (0..n).map(|i| 7 * i + (it % 5)).collect();
        let syms: Vec<Sym> = labels.iter().map(|&l| to_sym(l)).collect();
        let given: Vec<Pr> = probs[..n - infer as usize].iter().map(|&q| from_u128(q)).collect();
        let want: Vec<(Sym, u128, u128)> = expected_table(&labels, &probs).iter().map(|e| (to_sym(e.0), e.1, e.2)).collect();
        let desc = format!("{} (symbol type {})", describe(b, p, &Ctor::NcDec { syms: labels.clone(), probs: probs[..n - infer as usize].to_vec(), infer }), name);
        let r = guarded(|| -> Result<(), String> {
            let tr = |t: (Sym, Pr, <Pr as BitArray>::NonZero)| (t.0, to_u128(t.1), nz::<Pr>(t.2));
            let dec = NonContiguousCategoricalDecoderModel::<Sym, Pr, Vec<(Pr, Sym)>, P>::from_symbols_and_nonzero_fixed_point_probabilities(syms.iter().copied(), given.iter(), infer)
                .map_err(|_| "decoder constructor rejected a valid table".to_string())?;
            let enc = NonContiguousCategoricalEncoderModel::<Sym, Pr, P>::from_symbols_and_nonzero_fixed_point_probabilities(syms.iter().copied(), given.iter(), infer)
                .map_err(|_| "encoder constructor rejected a valid table".to_string())?;
            let t: Vec<_> = dec.symbol_table().map(tr).collect();
            if t != want {
                return Err(format!("symbol_table {:?} expected {:?}", t, want));
            }
            // provided `Iterator` methods of the table iterators agree with plain iteration
            let mut fork = Rng(0x9e37 ^ want.len() as u64);
            iter_forms(&mut || dec.symbol_table(), &|x| format!("{:?}", tr(x)), &mut fork).map_err(|t| format!("decoder symbol_table(): {}", t))?;
            let gen_enc = dec.to_generic_encoder_model();
            let gen_dec = dec.to_generic_decoder_model();
            if gen_dec.symbol_table().map(tr).collect::<Vec<_>>() != want {
                return Err("to_generic_decoder_model: different symbol table".into());
            }
            for e in &want {
                for (which, m) in [("encoder", &enc), ("generic encoder", &gen_enc)] {
                    let r = m.left_cumulative_and_probability(e.0).map(|(c, q)| (to_u128(c), nz::<Pr>(q)));
                    if r != Some((e.1, e.2)) {
                        return Err(format!("{}: enc {:?} => {:?} expected {:x}:{:x}", which, e.0, r, e.1, e.2));
                    }
                }
            }
            for l in [1000usize, 1001, 5000] {
                if enc.left_cumulative_and_probability(to_sym(l)).is_some() {
                    return Err(format!("enc {:?} => Some for a symbol outside the support", to_sym(l)));
                }
            }
            let total = pow2(p);
            let mut qs: Vec<u128> = vec![0, total - 1, total / 2];
            for e in &want {
                qs.push(e.1);
                qs.push(e.1 + e.2 - 1);
            }
            for &q in &qs {
                let w = want.iter().find(|e| e.1 <= q && q < e.1 + e.2).copied();
                for (which, r) in [("decoder", tr(dec.quantile_function(from_u128(q)))), ("generic decoder", tr(gen_dec.quantile_function(from_u128(q))))] {
                    if Some(r) != w {
                        return Err(format!("{}: dec {:x} => {:?} expected {:?}", which, q, r, w));
                    }
                }
            }
            Ok(())
        });
        for prop in ["C03", "C05", "C10"] {
            rep.eval(prop);
        }
        rep.count(&format!("C05.symbol_type.{}", name));
        match r {
            Ok(Ok(())) => {}
            Ok(Err(e)) => {
                if e.contains(": dec ") {
                    cat_fail(rep, "C10", format!("{} => {}", desc, e));
                }
                cat_fail(rep, "C05", format!("{} => {}", desc, e))
            }
            Err(class) => cat_fail(rep, "C05", format!("{} => {}", desc, class)),
        }
        let _ = lookup;
    }
}

/// the same for the lookup decoder (needs `Probability: Into<usize>`)
macro_rules! oracle_symbol_type_lookup {
    ($rng:expr, $rep:expr, $name:expr, $Sym:ty, $Pr:ty, $P:literal, $to_sym:expr) => {{
        let p: u32 = $P;
        let b: u32 = <$Pr>::BITS as u32;
        for it in 0..24usize {
            let n = (2 + $rng.below(pow2(p).min(40) - 1)) as usize;
            let probs = random_table($rng, p, n);
            let infer = it % 2 == 1;
            let labels: Vec<usize> = (0..n).map(|i| 7 * i + (it % 5)).collect();
            let syms: Vec<$Sym> = labels.iter().map(|&l| $to_sym(l)).collect();
            let given: Vec<$Pr> = probs[..n - infer as usize].iter().map(|&q| from_u128(q)).collect();
            let want: Vec<($Sym, u128, u128)> = expected_table(&labels, &probs).iter().map(|e| ($to_sym(e.0), e.1, e.2)).collect();
            let desc = format!("{} (symbol type {})", describe(b, p, &Ctor::NcLookup { syms: labels.clone(), probs: probs[..n - infer as usize].to_vec(), infer }), $name);
            let r = guarded(|| -> Result<(), String> {
                let tr = |t: ($Sym, $Pr, <$Pr as BitArray>::NonZero)| (t.0, to_u128(t.1), nz::<$Pr>(t.2));
                let lk = NonContiguousLookupDecoderModel::<$Sym, $Pr, Vec<($Pr, $Sym)>, Box<[$Pr]>, $P>::from_symbols_and_nonzero_fixed_point_probabilities(syms.iter().copied(), given.iter(), infer)
                    .map_err(|_| "lookup constructor rejected a valid table".to_string())?;
                if lk.symbol_table().map(tr).collect::<Vec<_>>() != want {
                    return Err("symbol_table differs".into());
                }
                let gl = lk.to_generic_lookup_decoder_model();
                let nc = lk.as_non_contiguous_categorical();
                for q in 0..pow2(p).min(4096) {
                    let w = want.iter().find(|e| e.1 <= q && q < e.1 + e.2).copied();
                    for (which, r) in [("lookup", tr(lk.quantile_function(from_u128(q)))), ("generic lookup", tr(gl.quantile_function(from_u128(q)))), ("as_non_contiguous", tr(nc.quantile_function(from_u128(q))))] {
                        if Some(r) != w {
                            return Err(format!("{}: dec {:x} => {:?} expected {:?}", which, q, r, w));
                        }
                    }
                }
                Ok(())
            });
            $rep.eval("C05");
            $rep.eval("C10");
            $rep.count(&format!("C05.symbol_type.{}.lookup", $name));
            match r {
                Ok(Ok(())) => {}
                Ok(Err(e)) => {
                    if e.contains(": dec ") {
                        cat_fail($rep, "C10", format!("{} => {}", desc, e));
                    }
                    cat_fail($rep, "C05", format!("{} => {}", desc, e))
                }
                Err(class) => cat_fail($rep, "C05", format!("{} => {}", desc, class)),
            }
        }
    }};
}

/// conversion matrix: every source representation x every conversion path (two levels) at
/// every compiled (B, P), P == B in particular; all quantiles up to P = 16 for the first table
fn oracle_matrix(rng: &mut Rng, rep: &mut Report, thorough: bool) {
    for &(b, ps) in BPS {
        for &p in ps {
            for kind in KINDS {
                if b >= 32 && kind.contains("lookup") {
                    continue;
                }
                let reps = if thorough { 6 } else { 3 };
                for r in 0..reps {
                    let maxn = pow2(p).min(match r { 0 => 2, 1 => 7, _ => 60 });
                    let n = if maxn <= 2 { 2 } else { 2 + rng.below(maxn - 1) as usize };
                    let probs = random_table(rng, p, n);
                    FULL_SWEEP_LIMIT.with(|l| l.set(if r == 1 { 65536 } else { 4096 }));
                    oracle_valid(rng, rep, b, p, kind, &probs, r % 2 == 1, 2);
                    FULL_SWEEP_LIMIT.with(|l| l.set(4096));
                    rep.count(&format!("C05.matrix.{}.b{}.{}", kind, b, if p == b { "P=B" } else { "P<B" }));
                }
            }
            let t = pow2(p);
            for range in [2u128, t.min(37), 2 + rng.below(t.min(300) - 1)] {
                FULL_SWEEP_LIMIT.with(|l| l.set(65536));
                oracle_uniform(rng, rep, b, p, range as usize, true);
                FULL_SWEEP_LIMIT.with(|l| l.set(4096));
                rep.count(&format!("C05.matrix.uniform.b{}.{}", b, if p == b { "P=B" } else { "P<B" }));
            }
        }
    }
}

pub fn oracle(rng: &mut Rng, tier: &str, rep: &mut Report) {
    let thorough = tier == "thorough";
    oracle_matrix(rng, rep, thorough);
    oracle_from_iterable(rng, rep);
    oracle_aliases(rng, rep);
    oracle_adversarial(rng, rep, thorough);

    // ---- non-usize symbol types ------------------------------------------------------------
    let to_i16 = |l: usize| (l as i64 - 3000) as i16;
    let to_char = |l: usize| char::from_u32(0x3b1 + l as u32).unwrap_or('?');
    oracle_symbol_type::<i16, u8, 8>(rng, rep, "i16", to_i16, true);
    oracle_symbol_type::<i16, u16, 12>(rng, rep, "i16", to_i16, true);
    oracle_symbol_type::<i16, u32, 24>(rng, rep, "i16", to_i16, false);
    oracle_symbol_type::<char, u16, 16>(rng, rep, "char", to_char, true);
    oracle_symbol_type::<char, u32, 32>(rng, rep, "char", to_char, false);
    oracle_symbol_type_lookup!(rng, rep, "i16", i16, u8, 8, to_i16);
    oracle_symbol_type_lookup!(rng, rep, "i16", i16, u16, 12, to_i16);
    oracle_symbol_type_lookup!(rng, rep, "char", char, u16, 16, to_char);

    // ---- every valid table with ≤ 4 symbols at P ≤ 4 (C03, C05, C09, C19, C20) ----------
    for &(b, _) in BPS {
        if b == 64 {
            continue; // only (64, 1 | 24 | 63 | 64) are compiled in
        }
        for p in 1..=4u32 {
            for (ti, probs) in all_valid_tables(p, 4).iter().enumerate() {
                for (ki, kind) in KINDS.iter().enumerate() {
                    if b >= 32 && kind.contains("lookup") {
                        continue;
                    }
                    for infer in [false, true] {
                        if !thorough && b != 8 && (ti + ki) % 3 != 0 {
                            continue;
                        }
                        oracle_valid(rng, rep, b, p, kind, probs, infer, if thorough || b == 8 { 2 } else { 1 });
                    }
                }
            }
        }
    }

    // ---- random larger tables, every compiled (B, P) incl. P == B -----------------------
    let per_bp = if thorough { 400 } else { 60 };
    for &(b, ps) in BPS {
        for &p in ps {
            for i in 0..per_bp {
                let kind = KINDS[i % 5];
                if b >= 32 && kind.contains("lookup") {
                    continue;
                }
                let maxn = pow2(p).min(if i % 8 == 0 { 400 } else { 30 });
                let n = match rng.next() % 5 {
                    0 => 2,
                    1 => maxn as usize,
                    _ => 2 + rng.below(maxn - 1) as usize,
                };
                let probs = random_table(rng, p, n);
                oracle_valid(rng, rep, b, p, kind, &probs, i % 2 == 0, if i % 3 == 0 { 2 } else { 1 });
            }
        }
    }

    // ---- arbitrary input: exhaustive tiny tables at u8 ------------------------------------
    for &p in &[1u32, 2, 3, 8] {
        let vals = boundary_vals(8, p);
        for n in 0..=3usize {
            let full = n <= 2;
            let domain: Vec<u128> = if full { (0..256).collect() } else { vals.clone() };
            let mut idx = vec![0usize; n];
            loop {
                let probs: Vec<u128> = idx.iter().map(|&i| domain[i]).collect();
                for infer in [false, true] {
                    let kinds: &[&str] = if n <= 1 || rng.chance(1, 16) { &KINDS } else { &["contig"] };
                    for kind in kinds {
                        let labels: Vec<usize> = (0..n + infer as usize).map(|i| 10 * i + 1).collect();
                        oracle_arbitrary(rng, rep, 8, p, &ctor_for(kind, &labels, &probs, infer));
                    }
                }
                if !next_idx(domain.len(), &mut idx) {
                    break;
                }
            }
        }
    }

    // ---- arbitrary input: malformed variants of valid tables, all kinds, all (B, P) -------
    let per_bp = if thorough { 600 } else { 60 };
    for &(b, ps) in BPS {
        for &p in ps {
            for i in 0..per_bp {
                let kind = KINDS[i % 5];
                if b >= 32 && kind.contains("lookup") {
                    continue;
                }
                let maxn = if kind.contains("lookup") { 6 } else { 12 };
                let n = (2 + rng.below((pow2(p) - 1).min(maxn)) as usize).min(pow2(p) as usize);
                let valid = random_table(rng, p, n);
                let mut probs = malform(rng, b, p, &valid);
                if kind.contains("lookup") && probs.len() > 16 {
                    probs.truncate(16);
                }
                let infer = rng.chance(1, 2);
                let need = probs.len() + infer as usize;
                let mut labels = random_labels(rng, need.max(1));
                labels.truncate(need);
                match rng.next() % 8 {
                    0 => {
                        labels.pop();
                    }
                    1 => labels.push(77),
                    2 if labels.len() >= 2 => labels[0] = labels[1],
                    _ => {}
                }
                oracle_arbitrary(rng, rep, b, p, &ctor_for(kind, &labels, &probs, infer));
            }
            // the single-symbol inputs of D6/D7/D15 at this very (B, P)
            for kind in KINDS {
                if b >= 32 && kind.contains("lookup") {
                    continue;
                }
                let maxv = pow2(b) - 1;
                for (probs, infer) in [(vec![pow2(p) & maxv], false), (vec![0u128], false), (vec![], true), (vec![], false), (vec![pow2(p) & maxv], true), (vec![0u128], true)] {
                    let labels: Vec<usize> = (0..probs.len() + infer as usize).map(|i| 5 + i).collect();
                    oracle_arbitrary(rng, rep, b, p, &ctor_for(kind, &labels, &probs, infer));
                    rep.count("C19.single_symbol_inputs");
                }
            }
            oracle_duplicates(rng, rep, b, p);
            // directed invalid / borderline classes, every kind, with and without infer_last
            let tables = directed_tables(rng, b, p);
            for (ti, probs) in tables.iter().enumerate() {
                for infer in [false, true] {
                    for (ki, kind) in KINDS.iter().enumerate() {
                        if b >= 32 && kind.contains("lookup") {
                            continue;
                        }
                        // quick: every table on the contiguous constructor, the others in rotation
                        if !thorough && ki != 0 && (ti + ki) % 4 != 0 {
                            continue;
                        }
                        let labels: Vec<usize> = (0..probs.len() + infer as usize).map(|i| 3 * i + 2).collect();
                        oracle_arbitrary(rng, rep, b, p, &ctor_for(kind, &labels, probs, infer));
                        rep.count(&format!("C19.directed.{}{}", kind, if infer { ".infer" } else { "" }));
                    }
                }
            }
        }
    }

    // ---- D13 glue: `…_fast` with mismatched symbol counts (C19) ------------------------------
    for kind in ["dec", "enc", "lookup"] {
        for &(b, p) in &[(8u32, 3u32), (8, 8), (16, 12), (16, 16), (32, 24), (32, 32)] {
            for n in 2..=5usize {
                for ns in 0..=7usize {
                    let mut labels = random_labels(rng, ns.max(1));
                    labels.truncate(ns);
                    let c = Ctor::Fast { kind: kind.to_string(), n, syms: labels.clone() };
                    let desc = describe(b, p, &c);
                    rep.eval("C19");
                    match guarded(|| build(b, p, &c)) {
                        Ok(Some(Built::Ok(m))) => {
                            if ns != n {
                                cat_fail(rep, "C19", format!("{} => accepted {} symbols for {} weights", desc, ns, n));
                            } else if let Some(t) = check_model(rng, rep, &desc, b, p, m.as_ref(), None, "C19") {
                                if t.iter().map(|e| e.0).collect::<Vec<_>>() != labels {
                                    cat_fail(rep, "C19", format!("{} | syms => labels differ", desc));
                                }
                            }
                        }
                        Ok(Some(Built::Rejected)) => {
                            if ns == n {
                                cat_fail(rep, "C19", format!("{} => rejected although the counts match", desc));
                            }
                        }
                        Ok(_) => {}
                        Err(class) => cat_fail(rep, "C19", format!("{} => {}", desc, class)),
                    }
                }
            }
        }
    }

    // ---- uniform models --------------------------------------------------------------------
    for &p in &[1u32, 2, 3, 4, 7, 8] {
        for range in 0..260usize {
            oracle_uniform(rng, rep, 8, p, range, range % 16 == 2);
        }
    }
    for &(b, ps) in &BPS[1..] {
        for &p in ps {
            let t = pow2(p);
            let mut ranges: Vec<u128> = vec![0, 1, 2, 3, 4, 5, t / 2, t / 2 + 1, t / 3, t - 2, t - 1, t, t + 1, pow2(b) - 1, pow2(b), pow2(b) + 1, pow2(b) + 2, pow2(32) + 5, u64::MAX as u128];
            for _ in 0..(if thorough { 200 } else { 20 }) {
                ranges.push(2 + rng.below(t.max(3) - 1));
                ranges.push(2 + rng.below(t.min(4096).max(3) - 1));
            }
            for r in ranges {
                oracle_uniform(rng, rep, b, p, (r & u64::MAX as u128) as usize, r % 8 == 2);
            }
        }
    }
}
