//! Component `chain`: protocol runner (real code), case generator, implementation-level oracles.
//!
//! The coder type `ChainCoder<W, S, Vec<W>, Vec<W>, P>` depends on the precision `P`, which
//! changes during a history (`change_precision`).  Between two operations the coder is therefore
//! parked in the type-erased form [`Dyn`] (its three fields, via the `constriction_verif`
//! hooks `verif_into_parts` / `verif_from_parts`); every operation itself runs on the real
//! typed coder.
#![allow(unused)]
#![allow(unreachable_patterns)]
use constriction::stream::chain::{
    BackendError, BackendPosition, ChainCoder, ChainCoderHeads, ChangePrecisionError,
    DecoderFrontendError, EncoderFrontendError,
};
use constriction::stream::{Code, Decode, Encode, TryCodingError};
use constriction::{BitArray, CoderError, Pos, Seek};
use num_traits::AsPrimitive;

use crate::rawmodel::{RawEnc, TableModel};
use crate::util::*;

type Coder<W, S, const P: usize> = ChainCoder<W, S, Vec<W>, Vec<W>, P>;

/// a chain coder between two operations
#[derive(Clone, Debug, PartialEq, Eq)]
pub struct Dyn<W, S> {
    pub comp: Vec<W>,
    pub rems: Vec<W>,
    pub hc: W,
    pub hr: S,
    pub p: u32,
}

impl<W: BitArray + Into<S>, S: BitArray + AsPrimitive<W>> Dyn<W, S> {
    fn take<const P: usize>(&mut self) -> Coder<W, S, P> {
        assert_eq!(self.p as usize, P);
        let heads = ChainCoderHeads::<W, S, P>::verif_from_raw(self.hc, self.hr)
            .expect("harness: zero compressed head");
        ChainCoder::verif_from_parts(
            std::mem::take(&mut self.comp),
            std::mem::take(&mut self.rems),
            heads,
        )
    }
    fn peek<const P: usize>(&self) -> Coder<W, S, P> {
        self.clone().take::<P>()
    }
    fn put<const P: usize>(&mut self, c: Coder<W, S, P>) {
        let (comp, rems, heads) = c.verif_into_parts();
        let (hc, hr) = heads.verif_raw();
        *self = Dyn { comp, rems, hc, hr, p: P as u32 };
    }
    fn of<const P: usize>(c: Coder<W, S, P>) -> Self {
        let (comp, rems, heads) = c.verif_into_parts();
        let (hc, hr) = heads.verif_raw();
        Dyn { comp, rems, hc, hr, p: P as u32 }
    }
    fn show(&self) -> String {
        format!(
            "{} {} {} {}",
            show_list(self.comp.iter().map(|&w| to_u128(w))),
            show_list(self.rems.iter().map(|&w| to_u128(w))),
            hex(to_u128(self.hc)),
            hex(to_u128(self.hr))
        )
    }
}

fn words<W: BitArray>(l: &[u128]) -> Vec<W> {
    l.iter().map(|&w| from_u128(w)).collect()
}
fn unwords<W: BitArray>(l: &[W]) -> Vec<u128> {
    l.iter().map(|&w| to_u128(w)).collect()
}

// ---------------------------------------------------------------------------------------
// typed implementations of the operations

fn enc_result<E>(r: Result<(), CoderError<EncoderFrontendError, E>>) -> String {
    match r {
        Ok(()) => "ok".into(),
        Err(CoderError::Frontend(EncoderFrontendError::ImpossibleSymbol)) => "impossible".into(),
        Err(CoderError::Frontend(EncoderFrontendError::OutOfRemainders)) => "out_of_remainders".into(),
        Err(CoderError::Backend(_)) => "backend".into(),
    }
}

fn enc_impl<W, S, Pr, const P: usize>(d: &mut Dyn<W, S>, cp: Option<(u128, u128)>) -> String
where
    W: BitArray + Into<S> + AsPrimitive<Pr>,
    S: BitArray + AsPrimitive<W>,
    Pr: BitArray + Into<W>,
{
    let m = RawEnc::<Pr, P> { cp: cp.map(|(c, p)| (from_u128(c), from_u128(p))) };
    let mut c = d.take::<P>();
    let r = enc_result(c.encode_symbol(0usize, m));
    d.put(c);
    r
}

fn enc_sym_impl<W, S, Pr, const P: usize>(d: &mut Dyn<W, S>, cdf: &[u128], s: usize) -> String
where
    W: BitArray + Into<S> + AsPrimitive<Pr>,
    S: BitArray + AsPrimitive<W>,
    Pr: BitArray + Into<W>,
{
    let m = TableModel::<Pr, P>::new(cdf.to_vec());
    let mut c = d.take::<P>();
    let r = enc_result(c.encode_symbol(s, &m));
    d.put(c);
    r
}

fn dec_impl<W, S, Pr, const P: usize>(d: &mut Dyn<W, S>, cdf: &[u128]) -> String
where
    W: BitArray + Into<S> + AsPrimitive<Pr>,
    S: BitArray + AsPrimitive<W>,
    Pr: BitArray + Into<W>,
{
    let m = TableModel::<Pr, P>::new(cdf.to_vec());
    let mut c = d.take::<P>();
    let r = match c.decode_symbol(&m) {
        Ok(s) => hex(s as u128),
        Err(CoderError::Frontend(DecoderFrontendError::OutOfCompressedData)) => "out_of_data".into(),
        Err(CoderError::Backend(_)) => "backend".into(),
    };
    d.put(c);
    r
}

fn enc_batch_impl<W, S, Pr, const P: usize>(
    d: &mut Dyn<W, S>,
    form: u32,
    cdf: &[u128],
    syms: &[usize],
    err_at: Option<usize>,
) -> String
where
    W: BitArray + Into<S> + AsPrimitive<Pr>,
    S: BitArray + AsPrimitive<W>,
    Pr: BitArray + Into<W>,
{
    let m = TableModel::<Pr, P>::new(cdf.to_vec());
    let pairs = || syms.iter().map(|&s| (s, &m));
    let tries = || {
        syms.iter().enumerate().map(|(i, &s)| if Some(i) == err_at { Err(()) } else { Ok((s, &m)) })
    };
    let tr = |r: Result<(), TryCodingError<_, ()>>| match r {
        Ok(()) => "ok".to_string(),
        Err(TryCodingError::InvalidEntropyModel(())) => "modelerr".to_string(),
        Err(TryCodingError::CodingError(e)) => enc_result(Err(e)),
    };
    let mut c = d.take::<P>();
    let r = match form {
        0 => enc_result(c.encode_symbols(pairs())),
        1 => enc_result(c.encode_symbols_reverse(pairs())),
        2 => tr(c.try_encode_symbols(tries())),
        3 => tr(c.try_encode_symbols_reverse(tries())),
        4 => enc_result(c.encode_iid_symbols(syms.iter().copied(), &m)),
        5 => enc_result(c.encode_iid_symbols_reverse(syms.iter().copied(), &m)),
        _ => "bad-op".into(),
    };
    d.put(c);
    r
}

fn dec_batch_impl<W, S, Pr, const P: usize>(
    d: &mut Dyn<W, S>,
    form: u32,
    cdf: &[u128],
    n: usize,
    err_at: Option<usize>,
) -> String
where
    W: BitArray + Into<S> + AsPrimitive<Pr>,
    S: BitArray + AsPrimitive<W>,
    Pr: BitArray + Into<W>,
{
    let m = TableModel::<Pr, P>::new(cdf.to_vec());
    let mut out: Vec<u128> = Vec::new();
    let mut c = d.take::<P>();
    let mut tail = String::new();
    match form {
        0 => {
            for r in c.decode_symbols((0..n).map(|_| &m)) {
                match r {
                    Ok(s) => out.push(s as u128),
                    Err(CoderError::Frontend(_)) => {
                        tail = " out_of_data".into();
                        break;
                    }
                    Err(_) => {
                        tail = " backend".into();
                        break;
                    }
                }
            }
        }
        1 => {
            let it = (0..n).map(|i| if Some(i) == err_at { Err(()) } else { Ok(&m) });
            for r in c.try_decode_symbols(it) {
                match r {
                    Ok(s) => out.push(s as u128),
                    Err(TryCodingError::InvalidEntropyModel(())) => {
                        tail = " modelerr".into();
                        break;
                    }
                    Err(TryCodingError::CodingError(CoderError::Frontend(_))) => {
                        tail = " out_of_data".into();
                        break;
                    }
                    Err(_) => {
                        tail = " backend".into();
                        break;
                    }
                }
            }
        }
        2 => {
            for r in c.decode_iid_symbols(n, &m) {
                match r {
                    Ok(s) => out.push(s as u128),
                    Err(CoderError::Frontend(_)) => {
                        tail = " out_of_data".into();
                        break;
                    }
                    Err(_) => {
                        tail = " backend".into();
                        break;
                    }
                }
            }
        }
        _ => return "bad-op".into(),
    }
    d.put(c);
    format!("{}{}", show_list(out), tail)
}

/// operations that depend on the coder precision only
pub enum POp {
    Whole,
    IntoRem,
    IntoComp,
    IntoBin,
    Mex,
    MFull,
    Clone,
    /// `seek((BackendPosition { compressed, remainders }, heads(hc, hr)))`
    Seek(usize, usize, u128, u128),
    /// `Pos::pos()`
    Pos,
}

/// result of an exporter: `Ok((prefix, suffix))` or the canonical error string
type Exported = Result<(Vec<u128>, Vec<u128>), String>;

fn into_rem_impl<W, S, const P: usize>(d: &Dyn<W, S>) -> Exported
where
    W: BitArray + Into<S>,
    S: BitArray + AsPrimitive<W>,
{
    match d.peek::<P>().into_remainders() {
        Ok((pre, suf)) => Ok((unwords(&pre), unwords(&suf))),
        Err(_) => Err("backend".into()),
    }
}
fn into_comp_impl<W, S, const P: usize>(d: &Dyn<W, S>) -> Exported
where
    W: BitArray + Into<S>,
    S: BitArray + AsPrimitive<W>,
{
    match d.peek::<P>().into_compressed() {
        Ok((pre, suf)) => Ok((unwords(&pre), unwords(&suf))),
        Err(CoderError::Frontend(_)) => Err("notwhole".into()),
        Err(CoderError::Backend(_)) => Err("backend".into()),
    }
}
fn into_bin_impl<W, S, const P: usize>(d: &Dyn<W, S>) -> Exported
where
    W: BitArray + Into<S>,
    S: BitArray + AsPrimitive<W>,
{
    match d.peek::<P>().into_binary() {
        Ok((pre, suf)) => Ok((unwords(&pre), unwords(&suf))),
        Err(CoderError::Frontend(_)) => Err("notwhole".into()),
        Err(CoderError::Backend(_)) => Err("backend".into()),
    }
}

fn show_exported(e: Exported) -> String {
    match e {
        Ok((a, b)) => format!("{} {}", show_list(a), show_list(b)),
        Err(s) => s,
    }
}

fn pop_impl<W, S, const P: usize>(d: &mut Dyn<W, S>, op: &POp) -> String
where
    W: BitArray + Into<S>,
    S: BitArray + AsPrimitive<W>,
{
    match op {
        POp::Whole => format!("{}", d.peek::<P>().is_whole()),
        POp::IntoRem => show_exported(into_rem_impl::<W, S, P>(d)),
        POp::IntoComp => show_exported(into_comp_impl::<W, S, P>(d)),
        POp::IntoBin => show_exported(into_bin_impl::<W, S, P>(d)),
        POp::Mex => format!("{}", Decode::<P>::maybe_exhausted(&d.peek::<P>())),
        POp::MFull => format!("{}", Encode::<P>::maybe_full(&d.peek::<P>())),
        POp::Clone => {
            // both forms of `Clone`: `clone()`, then `clone_from` into a coder with unrelated contents
            let c = d.take::<P>();
            let c2 = c.clone();
            drop(c);
            let scratch: Vec<W> = [7u8, 1, 8, 2, 8, 1, 8, 2, 8, 4, 5, 9].iter().map(|&x| W::from(x).unwrap()).collect();
            match ChainCoder::<W, S, Vec<W>, Vec<W>, P>::from_binary(scratch) {
                Ok(mut c3) => {
                    c3.clone_from(&c2);
                    d.put(c3);
                }
                Err(_) => d.put(c2),
            }
            "ok".into()
        }
        POp::Pos => {
            let c = d.peek::<P>();
            let (bp, heads) = c.pos();
            let (hc, hr) = heads.verif_raw();
            format!(
                "{} {} {} {}",
                hex(bp.compressed as u128),
                hex(bp.remainders as u128),
                hex(to_u128(hc)),
                hex(to_u128(hr))
            )
        }
        POp::Seek(pc, pr, hc, hr) => {
            let heads = match ChainCoderHeads::<W, S, P>::verif_from_raw(from_u128(*hc), from_u128(*hr)) {
                Some(h) => h,
                None => return "unsupported".into(),
            };
            let mut c = d.take::<P>();
            let r = c.seek((BackendPosition { compressed: *pc, remainders: *pr }, heads));
            d.put(c);
            match r {
                Ok(()) => "ok".into(),
                Err(()) => "err".into(),
            }
        }
    }
}

/// 0 = from_binary, 1 = from_compressed, 2 = from_remainders
fn ctor_impl<W, S, const P: usize>(kind: u32, data: Vec<W>) -> Result<Dyn<W, S>, ()>
where
    W: BitArray + Into<S>,
    S: BitArray + AsPrimitive<W>,
{
    let r = match kind {
        0 => Coder::<W, S, P>::from_binary(data).map_err(|_| ()),
        1 => Coder::<W, S, P>::from_compressed(data).map_err(|_| ()),
        _ => Coder::<W, S, P>::from_remainders(data).map_err(|_| ()),
    };
    r.map(Dyn::of)
}

fn cp_result<W, S, const Q: usize>(
    d: &mut Dyn<W, S>,
    r: Result<Coder<W, S, Q>, ChangePrecisionError<W, Vec<W>>>,
) -> String
where
    W: BitArray + Into<S>,
    S: BitArray + AsPrimitive<W>,
{
    match r {
        Ok(c) => {
            d.put(c);
            "ok".into()
        }
        Err(ChangePrecisionError::Decrease(CoderError::Frontend(EncoderFrontendError::OutOfRemainders))) => {
            "out_of_remainders".into()
        }
        Err(ChangePrecisionError::Decrease(CoderError::Frontend(EncoderFrontendError::ImpossibleSymbol))) => {
            "impossible".into()
        }
        Err(_) => "backend".into(),
    }
}

/// `change_precision::<Q>()`; the method consumes the coder even when it fails, so the harness
/// runs it on a clone and keeps the old coder on failure
fn cp_impl<W, S, const P: usize, const Q: usize>(d: &mut Dyn<W, S>) -> String
where
    W: BitArray + Into<S>,
    S: BitArray + AsPrimitive<W>,
{
    let r = d.peek::<P>().change_precision::<Q>();
    cp_result(d, r)
}
fn incp_impl<W, S, const P: usize, const Q: usize>(d: &mut Dyn<W, S>) -> String
where
    W: BitArray + Into<S>,
    S: BitArray + AsPrimitive<W>,
{
    match d.peek::<P>().increase_precision::<Q>() {
        Ok(c) => {
            d.put(c);
            "ok".into()
        }
        Err(_) => "backend".into(),
    }
}
fn decp_impl<W, S, const P: usize, const Q: usize>(d: &mut Dyn<W, S>) -> String
where
    W: BitArray + Into<S>,
    S: BitArray + AsPrimitive<W>,
{
    match d.peek::<P>().decrease_precision::<Q>() {
        Ok(c) => {
            d.put(c);
            "ok".into()
        }
        Err(CoderError::Frontend(EncoderFrontendError::OutOfRemainders)) => "out_of_remainders".into(),
        Err(CoderError::Frontend(EncoderFrontendError::ImpossibleSymbol)) => "impossible".into(),
        Err(_) => "backend".into(),
    }
}

// ---------------------------------------------------------------------------------------
// runtime → const-generic dispatch

pub trait ChainCombo {
    type W: BitArray + Into<Self::S>;
    type S: BitArray + AsPrimitive<Self::W>;
    const WBITS: u32;
    const SBITS: u32;
    /// `None` = this (B, P) is not compiled in
    fn enc(d: &mut Dyn<Self::W, Self::S>, b: u32, cp: Option<(u128, u128)>) -> Option<String>;
    fn dec(d: &mut Dyn<Self::W, Self::S>, b: u32, cdf: &[u128]) -> Option<String>;
    fn enc_sym(d: &mut Dyn<Self::W, Self::S>, b: u32, cdf: &[u128], s: usize) -> Option<String>;
    fn enc_batch(d: &mut Dyn<Self::W, Self::S>, b: u32, form: u32, cdf: &[u128], syms: &[usize], err_at: Option<usize>) -> Option<String>;
    fn dec_batch(d: &mut Dyn<Self::W, Self::S>, b: u32, form: u32, cdf: &[u128], n: usize, err_at: Option<usize>) -> Option<String>;
}

macro_rules! impl_chain_combo {
    ($name:ident, $W:ty, $S:ty; $($B:ty => [$($P:literal),*]);*) => {
        impl ChainCombo for $name {
            type W = $W;
            type S = $S;
            const WBITS: u32 = <$W>::BITS;
            const SBITS: u32 = <$S>::BITS;
            fn enc(d: &mut Dyn<$W, $S>, b: u32, cp: Option<(u128, u128)>) -> Option<String> {
                match (b, d.p) {
                    $($( (bb, $P) if bb == <$B>::BITS => Some(enc_impl::<$W, $S, $B, $P>(d, cp)), )*)*
                    _ => None,
                }
            }
            fn dec(d: &mut Dyn<$W, $S>, b: u32, cdf: &[u128]) -> Option<String> {
                match (b, d.p) {
                    $($( (bb, $P) if bb == <$B>::BITS => Some(dec_impl::<$W, $S, $B, $P>(d, cdf)), )*)*
                    _ => None,
                }
            }
            fn enc_sym(d: &mut Dyn<$W, $S>, b: u32, cdf: &[u128], s: usize) -> Option<String> {
                match (b, d.p) {
                    $($( (bb, $P) if bb == <$B>::BITS => Some(enc_sym_impl::<$W, $S, $B, $P>(d, cdf, s)), )*)*
                    _ => None,
                }
            }
            fn enc_batch(d: &mut Dyn<$W, $S>, b: u32, form: u32, cdf: &[u128], syms: &[usize], err_at: Option<usize>) -> Option<String> {
                match (b, d.p) {
                    $($( (bb, $P) if bb == <$B>::BITS => Some(enc_batch_impl::<$W, $S, $B, $P>(d, form, cdf, syms, err_at)), )*)*
                    _ => None,
                }
            }
            fn dec_batch(d: &mut Dyn<$W, $S>, b: u32, form: u32, cdf: &[u128], n: usize, err_at: Option<usize>) -> Option<String> {
                match (b, d.p) {
                    $($( (bb, $P) if bb == <$B>::BITS => Some(dec_batch_impl::<$W, $S, $B, $P>(d, form, cdf, n, err_at)), )*)*
                    _ => None,
                }
            }
        }
    };
}
crate::for_each_combo!(impl_chain_combo);

/// operations dispatched on the coder precision alone, and on (old, new) precision pairs
pub trait ChainPrec: ChainCombo {
    fn precisions() -> &'static [u32];
    fn pop(d: &mut Dyn<Self::W, Self::S>, op: &POp) -> Option<String>;
    fn ctor(kind: u32, p: u32, data: Vec<Self::W>) -> Option<Result<Dyn<Self::W, Self::S>, ()>>;
    fn into_rem(d: &Dyn<Self::W, Self::S>) -> Option<Exported>;
    fn into_comp(d: &Dyn<Self::W, Self::S>) -> Option<Exported>;
    fn into_bin(d: &Dyn<Self::W, Self::S>) -> Option<Exported>;
    /// kind 0 = change_precision, 1 = increase_precision, 2 = decrease_precision
    fn cp(d: &mut Dyn<Self::W, Self::S>, kind: u32, q: u32) -> Option<String>;
}

macro_rules! cp_all {
    ($d:ident, $q:ident, $C:ty; [$($P:literal),*]; $Qs:tt) => {
        $( cp_all!(@row $d, $q, $C; $P; $Qs); )*
    };
    (@row $d:ident, $q:ident, $C:ty; $P:literal; [$($Q:literal),*]) => {
        $( if $d.p == $P && $q == $Q {
            return Some(cp_impl::<<$C as ChainCombo>::W, <$C as ChainCombo>::S, $P, $Q>($d));
        } )*
    };
}

/// `increase_precision::<Q>` needs `Q >= P` and `decrease_precision::<Q>` needs `Q <= P` at
/// compile time: walk the *sorted* precision list
macro_rules! cp_ord {
    ($d:ident, $kind:ident, $q:ident, $C:ty; ) => {};
    ($d:ident, $kind:ident, $q:ident, $C:ty; $H:literal $(, $T:literal)*) => {
        if $kind == 1 && $d.p == $H && $q == $H {
            return Some(incp_impl::<<$C as ChainCombo>::W, <$C as ChainCombo>::S, $H, $H>($d));
        }
        if $kind == 2 && $d.p == $H && $q == $H {
            return Some(decp_impl::<<$C as ChainCombo>::W, <$C as ChainCombo>::S, $H, $H>($d));
        }
        $(
            if $kind == 1 && $d.p == $H && $q == $T {
                return Some(incp_impl::<<$C as ChainCombo>::W, <$C as ChainCombo>::S, $H, $T>($d));
            }
            if $kind == 2 && $d.p == $T && $q == $H {
                return Some(decp_impl::<<$C as ChainCombo>::W, <$C as ChainCombo>::S, $T, $H>($d));
            }
        )*
        cp_ord!($d, $kind, $q, $C; $($T),*);
    };
}

macro_rules! impl_chain_prec {
    ($name:ident; $($P:literal),*) => {
        impl ChainPrec for $name {
            fn precisions() -> &'static [u32] { &[$($P),*] }
            fn pop(d: &mut Dyn<Self::W, Self::S>, op: &POp) -> Option<String> {
                match d.p {
                    $( $P => Some(pop_impl::<Self::W, Self::S, $P>(d, op)), )*
                    _ => None,
                }
            }
            fn ctor(kind: u32, p: u32, data: Vec<Self::W>) -> Option<Result<Dyn<Self::W, Self::S>, ()>> {
                match p {
                    $( $P => Some(ctor_impl::<Self::W, Self::S, $P>(kind, data)), )*
                    _ => None,
                }
            }
            fn into_rem(d: &Dyn<Self::W, Self::S>) -> Option<Exported> {
                match d.p { $( $P => Some(into_rem_impl::<Self::W, Self::S, $P>(d)), )* _ => None }
            }
            fn into_comp(d: &Dyn<Self::W, Self::S>) -> Option<Exported> {
                match d.p { $( $P => Some(into_comp_impl::<Self::W, Self::S, $P>(d)), )* _ => None }
            }
            fn into_bin(d: &Dyn<Self::W, Self::S>) -> Option<Exported> {
                match d.p { $( $P => Some(into_bin_impl::<Self::W, Self::S, $P>(d)), )* _ => None }
            }
            fn cp(d: &mut Dyn<Self::W, Self::S>, kind: u32, q: u32) -> Option<String> {
                if kind == 0 {
                    cp_all!(d, q, $name; [$($P),*]; [$($P),*]);
                } else {
                    cp_ord!(d, kind, q, $name; $($P),*);
                }
                None
            }
        }
    };
}
// sorted union of the precisions that `for_each_combo!` lists for each (Word, State)
impl_chain_prec!(C8x16; 1, 2, 3, 4, 5, 7, 8);
impl_chain_prec!(C8x32; 1, 2, 3, 4, 5, 7, 8);
impl_chain_prec!(C8x64; 1, 3, 8);
impl_chain_prec!(C16x32; 1, 2, 4, 7, 8, 12, 15, 16);
impl_chain_prec!(C16x64; 1, 8, 12, 16);
impl_chain_prec!(C32x64; 1, 8, 12, 16, 24, 31, 32);
impl_chain_prec!(C32x128; 1, 16, 24, 32);
impl_chain_prec!(C64x128; 1, 12, 24, 32);

// ---------------------------------------------------------------------------------------
// protocol runner

fn opt_idx(s: &str) -> Option<Option<usize>> {
    if s == "-" {
        Some(None)
    } else {
        let v = parse_hex(s)?;
        if v >= 1 << 16 {
            return None;
        }
        Some(Some(v as usize))
    }
}

/// are the model types with `Probability::BITS = b` compiled in for coder precision `p`?
fn compiled_bp(w: u32, s: u32, b: u128, p: u32) -> bool {
    combos()
        .iter()
        .any(|(cw, cs, bps)| *cw == w && *cs == s && bps.iter().any(|(cb, ps)| *cb as u128 == b && ps.contains(&p)))
}

/// what `undo` re-does (see the Lean driver)
pub enum Ghost {
    Sym(u32, u32, Vec<u128>, usize),
    Prec(u32),
}

fn undo_one<C: ChainPrec>(d: &mut Dyn<C::W, C::S>, ghost: &mut Vec<Ghost>) -> String {
    match ghost.pop() {
        None => "empty".into(),
        Some(Ghost::Sym(p, b, cdf, s)) => {
            if p != d.p {
                "skip".into()
            } else {
                C::enc_sym(d, b, &cdf, s).unwrap_or_else(|| "unsupported".into())
            }
        }
        Some(Ghost::Prec(q)) => C::cp(d, 0, q).unwrap_or_else(|| "unsupported".into()),
    }
}

fn run_hist<C: ChainPrec>(segs: &[Vec<&str>], p0: u32) -> String {
    let init = &segs[1];
    if !C::precisions().contains(&p0) {
        return "unsupported".into();
    }
    let wmax = pow2(C::WBITS); // W <= 64
    let fits_s = |x: u128| C::SBITS >= 128 || x < pow2(C::SBITS);
    // protocol values must fit the Rust types they are parsed into (`bad-op` otherwise)
    let word_list = |ws: &str| -> Option<Vec<u128>> {
        let l = parse_list(ws)?;
        if l.iter().all(|&w| w < wmax) {
            Some(l)
        } else {
            None
        }
    };
    let ctor = |kind: u32, ws: &str| -> Option<Option<Result<Dyn<C::W, C::S>, ()>>> {
        let l = word_list(ws)?;
        Some(C::ctor(kind, p0, words::<C::W>(&l)))
    };
    let made = match init.as_slice() {
        ["binary", ws] => ctor(0, ws),
        ["compressed", ws] => ctor(1, ws),
        ["remainders", ws] => ctor(2, ws),
        ["raw", comp, rems, hc, hr] => (|| {
            let comp = word_list(comp)?;
            let rems = word_list(rems)?;
            let hc = parse_hex(hc)?;
            let hr = parse_hex(hr)?;
            if hc >= wmax || !fits_s(hr) {
                return None;
            }
            if hc == 0 {
                return Some(Some(Err(())));
            }
            Some(Some(Ok(Dyn {
                comp: words::<C::W>(&comp),
                rems: words::<C::W>(&rems),
                hc: from_u128(hc),
                hr: from_u128(hr),
                p: p0,
            })))
        })(),
        _ => None,
    };
    let mut d = match made {
        None => return "bad-op".into(),
        Some(None) => return "unsupported".into(),
        Some(Some(Err(()))) => return "err".into(),
        Some(Some(Ok(d))) => d,
    };
    let mut stash: Vec<u128> = Vec::new();
    let mut ghost: Vec<Ghost> = Vec::new();
    let mut snaps: Vec<(u32, usize, usize, u128, u128)> = Vec::new();
    let mut outs: Vec<String> = vec!["ok".into()];
    for seg in &segs[2..] {
        let mut dead = false;
        let r = guarded(|| -> Option<String> {
            let uns = || "unsupported".to_string();
            Some(match seg.as_slice() {
                [op @ ("dec" | "enc" | "encnone" | "encsym" | "encs" | "decs"), p, rest @ ..] => {
                    // arity check as in the Lean driver
                    let ar = match *op {
                        "dec" => 4,
                        "enc" => 5,
                        "encnone" => 3,
                        "encsym" => 5,
                        "encs" => 7,
                        _ => 7,
                    };
                    if seg.len() != ar {
                        return None;
                    }
                    if parse_hex(p)? != d.p as u128 {
                        return Some("skip".into());
                    }
                    let b128 = parse_hex(rest[0])?;
                    if !compiled_bp(C::WBITS, C::SBITS, b128, d.p) {
                        return Some(uns());
                    }
                    let b = b128 as u32;
                    let bmax = pow2(b); // b <= 32
                    let cdf_ok = |cdf: &[u128]| -> bool {
                        cdf.iter().all(|&c| c <= bmax)
                            && cdf.windows(2).all(|w| w[0] < bmax && w[1].saturating_sub(w[0]) < bmax)
                    };
                    match (*op, &rest[1..]) {
                        ("dec", [cdf]) => {
                            let cdf = parse_list(cdf)?;
                            if !cdf_ok(&cdf) {
                                return None;
                            }
                            let o = C::dec(&mut d, b, &cdf).unwrap_or_else(uns);
                            if let Some(s) = parse_hex(&o) {
                                ghost.push(Ghost::Sym(d.p, b, cdf, s as usize));
                            }
                            o
                        }
                        ("enc", [cum, pr]) => {
                            let (cum, pr) = (parse_hex(cum)?, parse_hex(pr)?);
                            if cum >= bmax || pr >= bmax {
                                return None;
                            }
                            C::enc(&mut d, b, Some((cum, pr))).unwrap_or_else(uns)
                        }
                        ("encnone", []) => C::enc(&mut d, b, None).unwrap_or_else(uns),
                        ("encsym", [cdf, s]) => {
                            let cdf = parse_list(cdf)?;
                            let s = parse_hex(s)?;
                            if !cdf_ok(&cdf) || s >= 1u128 << 64 {
                                return None;
                            }
                            C::enc_sym(&mut d, b, &cdf, s as usize).unwrap_or_else(uns)
                        }
                        ("encs", [form, cdf, syms, err_at]) => {
                            let cdf = parse_list(cdf)?;
                            let syms = parse_list(syms)?;
                            let form = parse_hex(form)?;
                            let err_at = opt_idx(err_at)?;
                            if form > 5 {
                                return None;
                            }
                            if !cdf_ok(&cdf) || syms.iter().any(|&s| s >= 1u128 << 64) {
                                return None;
                            }
                            let syms: Vec<usize> = syms.iter().map(|&s| s as usize).collect();
                            C::enc_batch(&mut d, b, form as u32, &cdf, &syms, err_at).unwrap_or_else(uns)
                        }
                        ("decs", [form, cdf, n, err_at]) => {
                            let cdf = parse_list(cdf)?;
                            let n = parse_hex(n)?;
                            let form = parse_hex(form)?;
                            let err_at = opt_idx(err_at)?;
                            if form > 2 {
                                return None;
                            }
                            if !cdf_ok(&cdf) || n >= 1 << 16 {
                                return None;
                            }
                            let o = C::dec_batch(&mut d, b, form as u32, &cdf, n as usize, err_at).unwrap_or_else(uns);
                            if let Some(syms) = o.split(' ').next().and_then(parse_list) {
                                for s in syms {
                                    ghost.push(Ghost::Sym(d.p, b, cdf.clone(), s as usize));
                                }
                            }
                            o
                        }
                        _ => return None,
                    }
                }
                ["undo"] => undo_one::<C>(&mut d, &mut ghost),
                ["undoall"] => {
                    let mut n = 0u128;
                    loop {
                        if ghost.is_empty() {
                            break format!("{:x} ok", n);
                        }
                        match guarded(|| undo_one::<C>(&mut d, &mut ghost)) {
                            Ok(o) if o == "ok" => n += 1,
                            Ok(o) => break format!("{:x} {}", n, o),
                            Err(class) => {
                                dead = true;
                                break format!("{:x} {}", n, class);
                            }
                        }
                    }
                }
                [op @ ("cp" | "incp" | "decp"), q] => {
                    let q128 = parse_hex(q)?;
                    if q128 > 255 {
                        return Some(uns());
                    }
                    let q = q128 as u32;
                    let kind = match *op {
                        "cp" => 0,
                        "incp" => 1,
                        _ => 2,
                    };
                    let legal = q >= 1
                        && q <= C::WBITS
                        && C::WBITS + q <= C::SBITS
                        && (kind != 1 || q >= d.p)
                        && (kind != 2 || q <= d.p);
                    if !legal {
                        uns()
                    } else {
                        let old = d.p;
                        let o = C::cp(&mut d, kind, q).unwrap_or_else(uns);
                        if o == "ok" {
                            ghost.push(Ghost::Prec(old));
                        }
                        o
                    }
                }
                ["reimport", k] => {
                    let k = parse_hex(k)?;
                    if k != 1 && k != 2 {
                        return None;
                    }
                    match C::into_rem(&d)? {
                        Err(e) => e,
                        Ok((pre, suf)) => {
                            let data: Vec<u128> = if k == 1 {
                                suf.clone()
                            } else {
                                pre.iter().chain(suf.iter()).copied().collect()
                            };
                            match C::ctor(2, d.p, words::<C::W>(&data))? {
                                Ok(nd) => {
                                    d = nd;
                                    stash = if k == 1 { pre } else { Vec::new() };
                                    "ok".into()
                                }
                                Err(()) => "err".into(),
                            }
                        }
                    }
                }
                ["final", which] => {
                    let e = match *which {
                        "comp" => C::into_comp(&d)?,
                        "bin" => C::into_bin(&d)?,
                        _ => return None,
                    };
                    match e {
                        Ok((pre, suf)) => {
                            show_list(stash.iter().chain(pre.iter()).chain(suf.iter()).copied())
                        }
                        Err(s) => s,
                    }
                }
                ["seekto", i] => {
                    let i128 = parse_hex(i)?;
                    if i128 >= 1 << 32 {
                        return Some(uns());
                    }
                    let i = i128 as usize;
                    match snaps.get(i) {
                        None => uns(),
                        Some(&(p, pc, pr, hc, hr)) => {
                            if p != d.p {
                                uns()
                            } else {
                                C::pop(&mut d, &POp::Seek(pc, pr, hc, hr))?
                            }
                        }
                    }
                }
                ["whole"] => C::pop(&mut d, &POp::Whole)?,
                ["raw"] => format!("{} {}", d.show(), hex(d.p as u128)),
                ["intorem"] => C::pop(&mut d, &POp::IntoRem)?,
                ["intocomp"] => C::pop(&mut d, &POp::IntoComp)?,
                ["intobin"] => C::pop(&mut d, &POp::IntoBin)?,
                ["mex"] => C::pop(&mut d, &POp::Mex)?,
                ["mfull"] => C::pop(&mut d, &POp::MFull)?,
                ["clone"] => C::pop(&mut d, &POp::Clone)?,
                ["snap"] => {
                    let s = C::pop(&mut d, &POp::Pos)?;
                    let v: Vec<u128> = s.split(' ').map(|t| parse_hex(t).unwrap()).collect();
                    snaps.push((d.p, v[0] as usize, v[1] as usize, v[2], v[3]));
                    s
                }
                _ => return None,
            })
        });
        match r {
            Ok(Some(s)) => {
                outs.push(s);
                if dead {
                    break;
                }
            }
            Ok(None) => {
                outs.push("bad-op".into());
                break;
            }
            Err(class) => {
                outs.push(class.into());
                break;
            }
        }
    }
    outs.join(" | ")
}

// ---------------------------------------------------------------------------------------
// complete single-step sweeps (only `(u8, u16)`, through the raw-heads hook)

fn fold_list(mut h: u64, l: &[u128]) -> u64 {
    h = digest_step(h, l.len() as u128);
    for &v in l {
        h = digest_step(h, v);
    }
    h
}

fn fold_dyn<W: BitArray, S: BitArray>(mut h: u64, d: &Dyn<W, S>) -> u64 {
    h = digest_step(h, to_u128(d.hc));
    h = digest_step(h, to_u128(d.hr));
    h = fold_list(h, &unwords(&d.comp));
    fold_list(h, &unwords(&d.rems))
}

fn panic_code(class: &str) -> u128 {
    match class {
        "panic:overflow" => 4,
        "panic:shift" => 5,
        _ => 6,
    }
}

/// folds the outcome of one guarded step that returns the protocol string
fn fold_step<W: BitArray + Into<S>, S: BitArray + AsPrimitive<W>>(
    h: u64,
    mut d: Dyn<W, S>,
    f: impl FnOnce(&mut Dyn<W, S>) -> String,
) -> u64 {
    match guarded(|| f(&mut d)) {
        Err(class) => digest_step(h, panic_code(class)),
        Ok(s) => match s.as_str() {
            "out_of_data" => digest_step(h, 1),
            "out_of_remainders" => digest_step(h, 2),
            "impossible" => digest_step(h, 3),
            "ok" => fold_dyn(digest_step(h, 0), &d),
            sym => match parse_hex(sym) {
                Some(v) => fold_dyn(digest_step(digest_step(h, 0), v), &d),
                None => digest_step(h, 99),
            },
        },
    }
}

fn fold_exported(h: u64, e: Result<Exported, &'static str>) -> u64 {
    match e {
        Err(class) => digest_step(h, panic_code(class)),
        Ok(Ok((a, b))) => fold_list(fold_list(digest_step(h, 0), &a), &b),
        Ok(Err(s)) if s == "notwhole" => digest_step(h, 8),
        Ok(Err(_)) => digest_step(h, 99),
    }
}

fn sweep(p: u32, b: u32, kind: &str, lo: u128, hi: u128) -> Option<(u64, u64)> {
    type C = C8x16;
    const W: u32 = 8;
    const S: u32 = 16;
    let top: u128 = 1 << p;
    let hr0: u128 = 1 << (S - W - p);
    let mk = |comp: &[u128], rems: &[u128], hc: u128, hr: u128| Dyn::<u8, u16> {
        comp: words(comp),
        rems: words(rems),
        hc: hc as u8,
        hr: hr as u16,
        p,
    };
    let probe: [u128; 4] = [0, 1, 1 << (W - 1), (1 << W) - 1];
    let mut n = 0u64;
    let mut h = DIGEST_INIT;
    if !C::precisions().contains(&p) {
        return None;
    }
    // the swept variable is a compressed head (`u8`, non-zero) or a remainders head (`u16`)
    let over_hc = matches!(kind, "decbits" | "decbits0" | "encbits");
    let top_v: u128 = if over_hc || kind == "import" { 0xff } else { 0xffff };
    if hi > top_v || (over_hc && lo == 0) {
        return None;
    }
    if kind == "cp" && !C::precisions().contains(&b) {
        return None;
    }
    if kind != "cp" && !compiled_bp(W, S, b as u128, p) {
        return None;
    }
    match kind {
        "decbits" => {
            let cdf = [0, top / 2, top];
            for hc in lo..=hi {
                for w in 0..(1u128 << W) {
                    h = fold_step(h, mk(&[w], &[], hc, hr0), |d| C::dec(d, b, &cdf).unwrap());
                    n += 1;
                }
            }
        }
        "decbits0" => {
            let cdf = [0, top / 2, top];
            for hc in lo..=hi {
                h = fold_step(h, mk(&[], &[], hc, hr0), |d| C::dec(d, b, &cdf).unwrap());
                n += 1;
            }
        }
        "decrem" => {
            for hr in lo..=hi {
                for pr in 1..top {
                    for r in 0..pr {
                        h = fold_step(h, mk(&[r], &[], 1, hr), |d| C::dec(d, b, &[0, pr, top]).unwrap());
                        h = fold_step(h, mk(&[top - pr + r], &[], 1, hr), |d| C::dec(d, b, &[0, top - pr, top]).unwrap());
                        n += 2;
                    }
                }
            }
        }
        "encbits" => {
            for hc in lo..=hi {
                for q in 0..top {
                    h = fold_step(h, mk(&[], &[], hc, hr0), |d| C::enc(d, b, Some((q, 1))).unwrap());
                    n += 1;
                }
            }
        }
        "encrem" => {
            for hr in lo..=hi {
                for pr in 1..top {
                    h = fold_step(h, mk(&[], &[], 1, hr), |d| C::enc(d, b, Some((0, pr))).unwrap());
                    h = fold_step(h, mk(&[], &[], 1, hr), |d| C::enc(d, b, Some((top - pr, pr))).unwrap());
                    n += 2;
                    for &w in &probe {
                        h = fold_step(h, mk(&[], &[w], 1, hr), |d| C::enc(d, b, Some((0, pr))).unwrap());
                        n += 1;
                    }
                }
            }
        }
        "cp" => {
            // `b` is the new precision
            if !(b >= 1 && b <= W && W + b <= S) {
                return None;
            }
            for hr in lo..=hi {
                h = fold_step(h, mk(&[], &[], 1, hr), |d| C::cp(d, 0, b).unwrap());
                n += 1;
                for &w in &probe {
                    h = fold_step(h, mk(&[], &[w], 1, hr), |d| C::cp(d, 0, b).unwrap());
                    n += 1;
                }
            }
        }
        "export" => {
            for hr in lo..=hi {
                for hc in [1u128, 2, (1 << W) - 1] {
                    let d = mk(&[5], &[7], hc, hr);
                    h = fold_exported(h, guarded(|| C::into_rem(&d).unwrap()));
                    h = fold_exported(h, guarded(|| C::into_comp(&d).unwrap()));
                    h = fold_exported(h, guarded(|| C::into_bin(&d).unwrap()));
                    n += 3;
                }
            }
        }
        "import" => {
            for w1 in lo..=hi {
                for w0 in 0..(1u128 << W) {
                    for &w in &probe {
                        // Rust `Vec` order: bottom first
                        let src = [3, w, w0, w1];
                        for kind in 0..3 {
                            h = match C::ctor(kind, p, words::<u8>(&src)).unwrap() {
                                Ok(d) => fold_dyn(digest_step(h, 0), &d),
                                Err(()) => digest_step(h, 9),
                            };
                            n += 1;
                        }
                    }
                }
            }
        }
        _ => return None,
    }
    Some((n, h))
}

pub fn run(segs: &[Vec<&str>]) -> String {
    let head = &segs[0];
    if head.first() == Some(&"chainsweep") {
        if head.len() != 8 || segs.len() != 1 {
            return "bad-op".into();
        }
        let v: Option<Vec<u128>> = [1usize, 2, 3, 4, 6, 7].iter().map(|&i| parse_hex(head[i])).collect();
        let v = match v {
            Some(v) => v,
            None => return "bad-op".into(),
        };
        if (v[0], v[1]) != (8, 16) {
            return "unsupported".into();
        }
        if v[2] > 255 || v[3] > 255 {
            return "bad-op".into();
        }
        return match sweep(v[2] as u32, v[3] as u32, head[5], v[4], v[5]) {
            Some((n, h)) => format!("{} {:x}", n, h),
            None => "bad-op".into(),
        };
    }
    if head.len() != 4 || head[0] != "chain" || segs.len() < 2 {
        return "bad-op".into();
    }
    let (w, s, p) = match (parse_hex(head[1]), parse_hex(head[2]), parse_hex(head[3])) {
        (Some(w), Some(s), Some(p)) => (w, s, if p > 255 { 0 } else { p as u32 }),
        _ => return "bad-op".into(),
    };
    match (w, s) {
        (8, 16) => run_hist::<C8x16>(segs, p),
        (8, 32) => run_hist::<C8x32>(segs, p),
        (8, 64) => run_hist::<C8x64>(segs, p),
        (16, 32) => run_hist::<C16x32>(segs, p),
        (16, 64) => run_hist::<C16x64>(segs, p),
        (32, 64) => run_hist::<C32x64>(segs, p),
        (32, 128) => run_hist::<C32x128>(segs, p),
        (64, 128) => run_hist::<C64x128>(segs, p),
        _ => "unsupported".into(),
    }
}

// ---------------------------------------------------------------------------------------
// generation

/// random strictly increasing cdf `[0, …, 2^P]` with 2..=6 symbols, biased towards extreme
/// probabilities (1 quantum, 2^P - (n-1) quanta)
fn gen_cdf(rng: &mut Rng, p: u32) -> Vec<u128> {
    let total = pow2(p);
    let max_n = total.min(6);
    let n = rng.range(2, max_n);
    let mut inner: Vec<u128> = Vec::new();
    let style = rng.next() % 4;
    while (inner.len() as u128) < n - 1 {
        let c = match style {
            0 => 1 + rng.below(total - 1),
            1 => 1 + rng.below((n + 1).min(total - 1)),
            2 => total - 1 - rng.below((n + 1).min(total - 1)),
            _ => {
                if rng.chance(1, 2) {
                    1 + rng.below(total - 1)
                } else {
                    rng.bits_biased(p).clamp(1, total - 1)
                }
            }
        };
        if !inner.contains(&c) {
            inner.push(c);
        }
    }
    inner.sort();
    let mut cdf = vec![0];
    cdf.extend(inner);
    cdf.push(total);
    cdf
}

fn gen_cp(rng: &mut Rng, p: u32) -> (u128, u128) {
    let total = pow2(p);
    let pr = match rng.next() % 5 {
        0 => 1,
        1 => total - 1,
        2 => (total / 2).max(1),
        _ => 1 + rng.below(total - 1),
    };
    let pr = pr.clamp(1, (total - 1).max(1));
    let cum = match rng.next() % 4 {
        0 => 0,
        1 => total - pr,
        _ => rng.below(total - pr + 1),
    };
    (cum, pr)
}

/// the probability widths compiled in for coder precision `p`
fn bs_for(bps: &[(u32, Vec<u32>)], p: u32) -> Vec<u32> {
    bps.iter().filter(|(_, ps)| ps.contains(&p)).map(|(b, _)| *b).collect()
}

fn union_precs(bps: &[(u32, Vec<u32>)]) -> Vec<u32> {
    let mut v: Vec<u32> = bps.iter().flat_map(|(_, ps)| ps.iter().copied()).collect();
    v.sort();
    v.dedup();
    v
}

fn gen_data(rng: &mut Rng, w: u32, maxn: usize) -> Vec<u128> {
    let n = (rng.next() as usize) % (maxn + 1);
    match rng.next() % 8 {
        0 => vec![0; n],
        1 => vec![pow2(w) - 1; n],
        2 => (0..n).map(|_| if rng.chance(1, 2) { 0 } else { rng.below(pow2(w)) }).collect(),
        3 => (0..n).map(|_| rng.bits_biased(w)).collect(),
        _ => (0..n).map(|_| rng.below(pow2(w))).collect(),
    }
}

fn mask(s: u32) -> u128 {
    pow2(s).wrapping_sub(1)
}

/// head values on and around every comparison of the code
fn gen_raw_init(rng: &mut Rng, w: u32, s: u32, p: u32) -> String {
    let wm = mask(w);
    let hc_cands = [
        1,
        2,
        pow2(p) - 1,
        pow2(p) & wm,
        (pow2(p) + 1) & wm,
        pow2(w - p).wrapping_sub(1) & wm,
        pow2(w - p) & wm,
        (pow2(w - p) + 1) & wm,
        wm,
        pow2(w - 1),
        rng.below(pow2(w)),
        rng.below(pow2(w)),
    ];
    let mut hc = *rng.pick(&hc_cands);
    if hc == 0 {
        hc = if rng.chance(1, 20) { 0 } else { 1 };
    }
    let lo = pow2(s - w - p);
    let hi = pow2(s - p);
    let (_, pr) = gen_cp(rng, p);
    let q = *rng.pick(&[1u32, p.saturating_sub(1).max(1), (p + 1).min(w), w]);
    let k = rng.below(((s - p) / w) as u128 + 1) as u32;
    let hr = match rng.next() % 16 {
        0 => lo,
        1 => lo + 1,
        2 => hi - 1,
        3 => hi - 2 + (hi == 1) as u128,
        // encode refill threshold for probability `pr`
        4 => (pr << (s - w - p)).wrapping_sub(1),
        5 => pr << (s - w - p),
        6 => (pr << (s - w - p)) + 1,
        // decode flush threshold for probability `pr` (remainder 0 / pr-1)
        7 => (hi + pr - 1) / pr - (rng.next() % 2) as u128,
        8 => (hi - (pr - 1) + pr - 1) / pr - (rng.next() % 2) as u128,
        // precision-change thresholds
        9 => (pow2(s - q) + rng.below(3)).wrapping_sub(1),
        10 => (pow2(s - q - w) + rng.below(3)).wrapping_sub(1),
        // into_binary: exactly / not exactly a whole number of words
        11 => pow2(k * w) + if rng.chance(1, 2) { 0 } else { rng.below(pow2(k * w)) },
        12 => pow2(k * w + 1 + (rng.next() % (w as u64 - 1)) as u32 % (s - k * w).max(1)) & mask(s),
        // outside the invariant
        13 => *rng.pick(&[0, lo.wrapping_sub(1), hi, hi + 1, mask(s), pow2(s - w), pow2(s - w).wrapping_sub(1)]),
        _ => lo + rng.below(hi - lo),
    } & mask(s);
    let comp = gen_data(rng, w, 3);
    let rems = gen_data(rng, w, 3);
    format!("raw {} {} {:x} {:x}", show_list(comp), show_list(rems), hc, hr)
}

struct GenCtx<'a> {
    w: u32,
    s: u32,
    bps: &'a [(u32, Vec<u32>)],
    precs: Vec<u32>,
    /// a few models per precision, so that the same model recurs
    cdfs: std::collections::BTreeMap<u32, Vec<Vec<u128>>>,
}

impl<'a> GenCtx<'a> {
    fn cdf(&mut self, rng: &mut Rng, p: u32) -> Vec<u128> {
        let e = self.cdfs.entry(p).or_default();
        if e.len() < 3 {
            e.push(gen_cdf(rng, p));
        }
        rng.pick(e).clone()
    }
    fn b(&self, rng: &mut Rng, p: u32) -> u32 {
        *rng.pick(&bs_for(self.bps, p))
    }
    fn new_prec(&self, rng: &mut Rng, p: u32, kind: &str) -> u32 {
        let c: Vec<u32> = self
            .precs
            .iter()
            .copied()
            .filter(|&q| match kind {
                "incp" => q >= p,
                "decp" => q <= p,
                _ => true,
            })
            .collect();
        *rng.pick(&c)
    }
}

fn gen_dec_op(g: &mut GenCtx, rng: &mut Rng, p: u32) -> String {
    format!("dec {:x} {:x} {}", p, g.b(rng, p), show_list(g.cdf(rng, p)))
}

/// decode / precision-change schedule, export, re-import, undo everything, finish
fn gen_roundtrip(rng: &mut Rng, w: u32, s: u32, bps: &[(u32, Vec<u32>)]) -> String {
    let mut g = GenCtx { w, s, bps, precs: union_precs(bps), cdfs: Default::default() };
    let p0 = *rng.pick(&g.precs);
    let mut p = p0;
    let from_bin = rng.chance(1, 2);
    let n = rng.next() % 30;
    let mut ops: Vec<String> = Vec::new();
    let mut bits: u128 = 0;
    for _ in 0..n {
        let op = match rng.next() % 16 {
            0..=10 => {
                bits += p as u128;
                gen_dec_op(&mut g, rng, p)
            }
            11 => {
                let k = rng.next() % 5;
                bits += (p as u128) * k as u128;
                format!("decs {:x} {:x} {:x} {} {:x} -", p, g.b(rng, p), *rng.pick(&[0u32, 2]), show_list(g.cdf(rng, p)), k)
            }
            12 => "raw".into(),
            _ => {
                let kind = *rng.pick(&["cp", "cp", "cp", "incp", "decp"]);
                let q = g.new_prec(rng, p, kind);
                // the generator cannot know whether the change succeeds (decreasing fails in
                // rare corner cases); ops carry the precision they expect and answer `skip`
                // on both sides if the coder has another one
                let op = format!("{} {:x}", kind, q);
                p = q;
                op
            }
        };
        ops.push(op);
    }
    // enough data for the heads and all chunks, give or take
    let head_words = ((s - w - p0) + w - 1) / w + (!from_bin) as u32;
    let need = head_words as u128 + (bits + w as u128 - 1) / w as u128;
    let len = match rng.next() % 16 {
        0..=8 => need + rng.below(3),
        9..=12 => need,
        13 => need.saturating_sub(1 + rng.below(3)),
        _ => rng.below(need + 3),
    } as usize;
    let mut data = gen_data(rng, w, 0);
    let style = rng.next() % 8;
    for _ in 0..len {
        data.push(match style {
            0 => 0,
            1 => pow2(w) - 1,
            2 => {
                if rng.chance(1, 2) {
                    0
                } else {
                    rng.below(pow2(w))
                }
            }
            3 => rng.bits_biased(w),
            _ => rng.below(pow2(w)),
        });
    }
    if !from_bin {
        if let Some(l) = data.last_mut() {
            if *l == 0 && rng.chance(7, 8) {
                *l = 1 + rng.below(pow2(w) - 1);
            }
        }
    }
    let mut line = format!(
        "chain {:x} {:x} {:x} | {} {}",
        w,
        s,
        p0,
        if from_bin { "binary" } else { "compressed" },
        show_list(data)
    );
    for op in ops {
        line.push_str(" | ");
        line.push_str(&op);
    }
    line.push_str(" | raw | intorem");
    match rng.next() % 3 {
        0 => {}
        1 => line.push_str(" | reimport 1"),
        _ => line.push_str(" | reimport 2"),
    }
    if rng.chance(1, 6) {
        line.push_str(&format!(" | encnone {:x} {:x}", p, g.b(rng, p)));
    }
    line.push_str(" | undoall | raw");
    line.push_str(if from_bin == rng.chance(15, 16) { " | final bin" } else { " | final comp" });
    if rng.chance(1, 4) {
        // running out of remainders: one more symbol than was ever decoded
        line.push_str(&format!(" | encsym {:x} {:x} {} 0 | raw", p, g.b(rng, p), show_list(g.cdf(rng, p))));
    }
    line
}

/// random history over the whole operation alphabet
fn gen_history(rng: &mut Rng, w: u32, s: u32, bps: &[(u32, Vec<u32>)]) -> String {
    let mut g = GenCtx { w, s, bps, precs: union_precs(bps), cdfs: Default::default() };
    let mut p = *rng.pick(&g.precs);
    let init = match rng.next() % 8 {
        0..=2 => format!("binary {}", show_list(gen_data(rng, w, 4 + 96 / w as usize))),
        3..=4 => {
            let mut d = gen_data(rng, w, 4 + 96 / w as usize);
            if let Some(l) = d.last_mut() {
                if *l == 0 && rng.chance(3, 4) {
                    *l = 1;
                }
            }
            format!("compressed {}", show_list(d))
        }
        5 => format!("remainders {}", show_list(gen_data(rng, w, 8))),
        _ => gen_raw_init(rng, w, s, p),
    };
    let mut line = format!("chain {:x} {:x} {:x} | {}", w, s, p, init);
    let n = rng.next() % 20;
    let mut nsnaps = 0;
    for _ in 0..n {
        let op: String = match rng.next() % 40 {
            0..=11 => gen_dec_op(&mut g, rng, p),
            12..=13 => {
                let k = rng.next() % 5;
                let form = rng.next() % 3;
                let err_at = if form == 1 && k > 0 && rng.chance(1, 2) { hex(rng.below(k as u128)) } else { "-".into() };
                format!("decs {:x} {:x} {:x} {} {:x} {}", p, g.b(rng, p), form, show_list(g.cdf(rng, p)), k, err_at)
            }
            14..=16 => {
                let kind = *rng.pick(&["cp", "cp", "cp", "incp", "decp"]);
                let q = g.new_prec(rng, p, kind);
                p = q;
                format!("{} {:x} | raw", kind, q)
            }
            17..=21 => "undo".into(),
            22 => "undoall".into(),
            23..=24 => {
                let cdf = g.cdf(rng, p);
                let i = rng.below(cdf.len() as u128 - 1) as usize;
                format!("enc {:x} {:x} {:x} {:x}", p, g.b(rng, p), cdf[i], cdf[i + 1] - cdf[i])
            }
            25 => {
                let (cum, pr) = gen_cp(rng, p);
                format!("enc {:x} {:x} {:x} {:x}", p, g.b(rng, p), cum, pr)
            }
            26 => {
                let cdf = g.cdf(rng, p);
                let extra = if rng.chance(1, 4) { 1 + (rng.next() % 2) as u128 * 0x1_0000_0000 } else { 0 };
                let sym = rng.below(cdf.len() as u128 - 1) + extra * (cdf.len() as u128 - 1);
                format!("encsym {:x} {:x} {} {:x}", p, g.b(rng, p), show_list(cdf), sym)
            }
            27 => format!("encnone {:x} {:x}", p, g.b(rng, p)),
            28 => {
                let cdf = g.cdf(rng, p);
                let k = rng.next() as usize % 5;
                let syms: Vec<u128> = (0..k)
                    .map(|_| {
                        let extra = if rng.chance(1, 12) { 1 } else { 0 };
                        rng.below(cdf.len() as u128 - 1 + extra)
                    })
                    .collect();
                let form = rng.next() % 6;
                let err_at = if (form == 2 || form == 3) && k > 0 && rng.chance(1, 2) { hex(rng.below(k as u128)) } else { "-".into() };
                format!("encs {:x} {:x} {:x} {} {} {}", p, g.b(rng, p), form, show_list(cdf), show_list(syms), err_at)
            }
            29..=30 => format!("reimport {}", 1 + rng.next() % 2),
            31 => "intorem".into(),
            32 => "intocomp".into(),
            33 => "intobin".into(),
            34 => (*rng.pick(&["whole", "mex", "mfull", "clone"])).into(),
            35 => format!("final {}", *rng.pick(&["comp", "bin"])),
            36 => {
                nsnaps += 1;
                "snap".into()
            }
            37 if nsnaps > 0 => format!("seekto {:x}", rng.below(nsnaps)),
            _ => "raw".into(),
        };
        line.push_str(" | ");
        line.push_str(&op);
    }
    line.push_str(" | raw | intorem");
    line
}

/// raw heads on a threshold followed by the operation whose comparison it is
fn gen_boundary(rng: &mut Rng, w: u32, s: u32, bps: &[(u32, Vec<u32>)]) -> String {
    let mut g = GenCtx { w, s, bps, precs: union_precs(bps), cdfs: Default::default() };
    let p = *rng.pick(&g.precs);
    let b = g.b(rng, p);
    let lo = pow2(s - w - p);
    let hi = pow2(s - p);
    let wm = mask(w);
    let hc_cands = [1, pow2(p) - 1, pow2(p) & wm, (pow2(p) + 1) & wm, pow2(w - p).wrapping_sub(1) & wm, pow2(w - p) & wm, (pow2(w - p) + 1) & wm, wm];
    let mut hc = *rng.pick(&hc_cands);
    if hc == 0 {
        hc = 1;
    }
    let comp = {
        let mut c = gen_data(rng, w, 2);
        if rng.chance(3, 4) {
            c.push(rng.bits_biased(w));
        }
        c
    };
    let rems = {
        let mut c = gen_data(rng, w, 2);
        if rng.chance(2, 3) {
            c.push(rng.bits_biased(w));
        }
        c
    };
    let d: i64 = (rng.next() % 3) as i64 - 1;
    let adj = |x: u128| -> u128 { (if d < 0 { x.wrapping_sub(1) } else { x + d as u128 }) & mask(s) };
    let cdf = g.cdf(rng, p);
    let (hr, op): (u128, String) = match rng.next() % 6 {
        0 | 1 => {
            // decode: flush iff hr * pr + r >= 2^(S-P)
            let q = if p == w || hc < pow2(p) { comp.last().copied().unwrap_or(0) & mask(p) } else { hc & mask(p) };
            let i = cdf.iter().skip(1).take_while(|&&c| c <= q).count();
            let (cum, pr) = (cdf[i], cdf[i + 1] - cdf[i]);
            let r = q - cum;
            let star = (hi - r + pr - 1) / pr;
            (adj(star).clamp(lo, hi - 1), format!("dec {:x} {:x} {}", p, b, show_list(cdf.clone())))
        }
        2 | 3 => {
            // encode: refill iff hr < pr << (S-W-P)
            let i = rng.below(cdf.len() as u128 - 1) as usize;
            let pr = cdf[i + 1] - cdf[i];
            (adj(pr << (s - w - p)).clamp(lo, hi - 1), format!("encsym {:x} {:x} {} {:x}", p, b, show_list(cdf.clone()), i))
        }
        4 => {
            let kind = *rng.pick(&["cp", "cp", "incp", "decp"]);
            let q = g.new_prec(rng, p, kind);
            let thr = if q > p || (kind == "incp") { pow2(s - q) } else { pow2(s - q - w) };
            (adj(thr).clamp(lo, hi - 1), format!("{} {:x} | raw | undo", kind, q))
        }
        _ => {
            let k = rng.below(((s - p) / w) as u128 + 1) as u32;
            let v = match rng.next() % 3 {
                0 => pow2(k * w),
                1 => pow2(k * w) + rng.below(pow2(k * w)),
                _ => pow2(k * w + 1),
            };
            hc = if rng.chance(2, 3) { 1 } else { hc };
            (v & mask(s), "intobin | intocomp | intorem | reimport 1".into())
        }
    };
    format!(
        "chain {:x} {:x} {:x} | raw {} {} {:x} {:x} | {} | raw | undo | raw | intorem",
        w,
        s,
        p,
        show_list(comp),
        show_list(rems),
        hc,
        hr,
        op
    )
}

/// `chainsweep` lines over `[lo, hi]`, split into chunks of about `chunk_steps` steps
fn sweep_lines(out: &mut Vec<String>, p: u32, b: u32, kind: &str, lo: u128, hi: u128, steps_per: u128, chunk_steps: u128) {
    let per = (chunk_steps / steps_per.max(1)).max(1);
    let mut a = lo;
    while a <= hi {
        let z = (a + per - 1).min(hi);
        out.push(format!("chainsweep 8 10 {:x} {:x} {} {:x} {:x}", p, b, kind, a, z));
        a = z + 1;
    }
}

fn gen_sweeps(tier: &str, out: &mut Vec<String>) {
    let thorough = tier == "thorough";
    let chunk = 200_000u128;
    let precs = [1u32, 2, 3, 4, 5, 7, 8];
    for &p in &precs {
        let top = pow2(p);
        let lo = pow2(16 - 8 - p);
        let hi = pow2(16 - p);
        sweep_lines(out, p, 8, "decbits", 1, 0xff, 256, chunk);
        sweep_lines(out, p, 8, "decbits0", 1, 0xff, 1, chunk);
        sweep_lines(out, p, 8, "encbits", 1, 0xff, top, chunk);
        // remainders side: (ranges of hr, in addition to bands around the invariant's bounds)
        let dec_per = top * (top - 1); // 2 * sum_{p<top} p
        let enc_per = (top - 1) * 6;
        let bands = |m: u128| -> Vec<(u128, u128)> {
            vec![(lo.saturating_sub(m), lo + m), (hi - m.min(hi), (hi + m).min(0xffff)), (0xffff - m, 0xffff)]
        };
        let full: Vec<(u128, u128)> = vec![(0, 0xffff)];
        let valid_plus: Vec<(u128, u128)> = vec![(0, (hi + 0x100).min(0xffff)), (0xff00, 0xffff)];
        let (dec_ranges, enc_ranges): (Vec<(u128, u128)>, Vec<(u128, u128)>) = if thorough {
            match p {
                1..=4 => (full.clone(), full.clone()),
                5 => (valid_plus.clone(), full.clone()),
                _ => (vec![(0, hi + 8), (0xfff0, 0xffff)], valid_plus.clone()),
            }
        } else {
            match p {
                1 => (full.clone(), full.clone()),
                2 | 3 => (valid_plus.clone(), valid_plus.clone()),
                4 => (vec![(0, 0x400), (0xf00, 0x1100), (0xfff0, 0xffff)], valid_plus.clone()),
                5 => (bands(48), bands(64)),
                _ => (bands(2), bands(48)),
            }
        };
        for (a, z) in dec_ranges {
            sweep_lines(out, p, 8, "decrem", a, z, dec_per, chunk);
        }
        for (a, z) in enc_ranges {
            sweep_lines(out, p, 8, "encrem", a, z, enc_per, chunk);
        }
        for &q in &precs {
            if thorough {
                sweep_lines(out, p, q, "cp", 0, 0xffff, 5, chunk);
            } else {
                let mut pts = vec![pow2(16 - q), pow2(16 - q - 8), lo, hi];
                pts.sort();
                pts.dedup();
                sweep_lines(out, p, q, "cp", 0, 0x1ff, 5, chunk);
                for t in pts {
                    if t > 0x1ff + 8 {
                        sweep_lines(out, p, q, "cp", t - 8, (t + 8).min(0xffff), 5, chunk);
                    }
                }
            }
        }
        if thorough {
            sweep_lines(out, p, 8, "import", 0, 0xff, 256 * 12, chunk);
        } else {
            sweep_lines(out, p, 8, "import", 0, 0x1f, 256 * 12, chunk);
            sweep_lines(out, p, 8, "import", 0xfe, 0xff, 256 * 12, chunk);
        }
    }
    // the exporters do not depend on the precision
    if thorough {
        sweep_lines(out, 8, 8, "export", 0, 0xffff, 9, chunk);
    } else {
        sweep_lines(out, 8, 8, "export", 0, 0x2fff, 9, chunk);
        sweep_lines(out, 8, 8, "export", 0xff00, 0xffff, 9, chunk);
    }
}

/// the hand-written precision lists of `impl_chain_prec!` must be the unions of what
/// `for_each_combo!` / `combos()` list; fail loudly if the shared table changed
fn check_tables() {
    for (w, s, bps) in combos() {
        let mine: &[u32] = match (w, s) {
            (8, 16) => C8x16::precisions(),
            (8, 32) => C8x32::precisions(),
            (8, 64) => C8x64::precisions(),
            (16, 32) => C16x32::precisions(),
            (16, 64) => C16x64::precisions(),
            (32, 64) => C32x64::precisions(),
            (32, 128) => C32x128::precisions(),
            (64, 128) => C64x128::precisions(),
            _ => panic!("chain.rs: combination ({}, {}) of combos() has no impl_chain_prec! line", w, s),
        };
        assert_eq!(
            mine,
            &union_precs(&bps)[..],
            "chain.rs: impl_chain_prec! list for ({}, {}) differs from combos()",
            w,
            s
        );
    }
}

pub fn gen(rng: &mut Rng, tier: &str, out: &mut Vec<String>) {
    check_tables();
    let thorough = tier == "thorough";
    let (n_round, n_hist, n_bound) = if thorough { (3000, 3000, 3000) } else { (150, 150, 150) };
    for (w, s, bps) in combos() {
        for _ in 0..n_round {
            out.push(gen_roundtrip(rng, w, s, &bps));
        }
        for _ in 0..n_hist {
            out.push(gen_history(rng, w, s, &bps));
        }
        for _ in 0..n_bound {
            out.push(gen_boundary(rng, w, s, &bps));
        }
    }
    // a malformed line
    out.push("chain 8 10 3 | binary 1,2,3 | frobnicate".into());
    out.push("chain 8 10 3 | raw - - 0 40 | raw".into());
    gen_sweeps(tier, out);
}

// ---------------------------------------------------------------------------------------
// implementation-level oracles (real code only; no reference to the Lean model)

#[derive(Clone)]
enum Step {
    Dec { p: u32, b: u32, cdf: Vec<u128>, sym: usize },
    Prec { old: u32 },
}

fn find(cdf: &[u128], q: u128) -> usize {
    cdf.iter().skip(1).take_while(|&&c| c <= q).count()
}

/// Reference chunking for C14, written on bit lists with provenance instead of word
/// arithmetic: which bits of which data word make up the i-th quantile.  `words` is the
/// compressed stack in `Vec` order; each quantile is a list of `(word index, bit index)`,
/// most significant bit first; `precs[i]` is the precision in force for the i-th symbol.
/// Stops when the data runs out.
fn reference_chunks(words_len: usize, w: u32, precs: &[u32]) -> Vec<Vec<(usize, u32)>> {
    let mut out = Vec::new();
    let mut buf: Vec<(usize, u32)> = Vec::new(); // leftover bits below the marker, msb first
    let mut next = words_len; // index of the next word to pop + 1
    for &p in precs {
        if p == w || (buf.len() as u32) < p {
            if next == 0 {
                break;
            }
            next -= 1;
            let bits: Vec<(usize, u32)> = (0..w).rev().map(|i| (next, i)).collect();
            if p == w {
                out.push(bits);
            } else {
                // the low `p` bits are the quantile, the rest goes below the leftover bits
                out.push(bits[(w - p) as usize..].to_vec());
                buf.extend_from_slice(&bits[..(w - p) as usize]);
            }
        } else {
            // the `p` least significant leftover bits; precision changes in between do not
            // touch the buffer
            let at = buf.len() - p as usize;
            out.push(buf.split_off(at));
        }
    }
    out
}

fn chunk_value(words: &[u128], chunk: &[(usize, u32)]) -> u128 {
    chunk.iter().fold(0, |acc, &(wi, bi)| (acc << 1) | ((words[wi] >> bi) & 1))
}

fn describe<C: ChainPrec>(p0: u32, from_bin: bool, data: &[u128]) -> String {
    format!(
        "chain {:x} {:x} {:x} | {} {}",
        C::WBITS,
        C::SBITS,
        p0,
        if from_bin { "binary" } else { "compressed" },
        show_list(data.iter().copied())
    )
}

/// one step of a C14 schedule as it actually ran on the unmodified data
#[derive(Clone)]
enum Rec {
    Dec { p: u32, b: u32, cdf: Vec<u128> },
    Cp { q: u32, ok: bool },
}

fn c14_line<C: ChainPrec>(p0: u32, from_bin: bool, data: &[u128], script: &[Rec]) -> String {
    let mut t = describe::<C>(p0, from_bin, data);
    for r in script {
        match r {
            Rec::Dec { p, b, cdf } => t.push_str(&format!(" | dec {:x} {:x} {}", p, b, show_list(cdf.clone()))),
            Rec::Cp { q, .. } => t.push_str(&format!(" | cp {:x}", q)),
        }
    }
    t
}

/// Re-runs a recorded schedule on `start`.  `Ok((symbols, ran_out))`; `Err("diverged")` if a
/// precision change succeeds/fails differently than recorded (it depends on the remainders
/// side, so the comparison is void); any other `Err` is a panic class / unexpected answer.
fn c14_rerun<C: ChainPrec>(start: &Dyn<C::W, C::S>, script: &[Rec], rep: &mut Report) -> Result<(Vec<usize>, bool), String> {
    let mut d = start.clone();
    let mut syms = Vec::new();
    for r in script {
        match r {
            Rec::Dec { p, b, cdf } => {
                if d.p != *p {
                    return Err("diverged".into());
                }
                rep.eval("C10");
                rep.eval("C20");
                match guarded(|| C::dec(&mut d, *b, cdf).unwrap()) {
                    Err(class) => return Err(class.to_string()),
                    Ok(o) if o == "out_of_data" => return Ok((syms, true)),
                    Ok(o) => match parse_hex(&o) {
                        Some(x) => syms.push(x as usize),
                        None => return Err(o),
                    },
                }
            }
            Rec::Cp { q, ok } => match guarded(|| C::cp(&mut d, 0, *q).unwrap()) {
                Err(class) => return Err(class.to_string()),
                Ok(o) => {
                    if (o == "ok") != *ok {
                        return Err("diverged".into());
                    }
                }
            },
        }
    }
    Ok((syms, false))
}

/// C14: the i-th symbol is what model i assigns to the i-th chunk of the data, the chunks
/// being computed from the data alone by `reference_chunks` (bit lists with provenance, in the
/// documented consumption order) – for schedules with constant precision and with
/// `change_precision` between symbols.  Then: another model at position j changes at most
/// symbol j; flipping bits of chunk j changes at most symbol j (to what the model assigns to
/// the new chunk); flipping bits that belong to no consumed chunk changes nothing; none of
/// these changes whether or when the data runs out.
fn oracle_locality<C: ChainPrec>(rng: &mut Rng, bps: &[(u32, Vec<u32>)], rep: &mut Report) {
    let (w, s) = (C::WBITS, C::SBITS);
    let precs = union_precs(bps);
    let mut g = GenCtx { w, s, bps, precs: precs.clone(), cdfs: Default::default() };
    // small precisions leave more than `p` bits in the buffer: prefer them half of the time
    let small: Vec<u32> = precs.iter().copied().filter(|&p| 2 * p <= w).collect();
    let pick_p = |rng: &mut Rng| -> u32 {
        if !small.is_empty() && rng.chance(1, 2) {
            *rng.pick(&small)
        } else {
            *rng.pick(&precs)
        }
    };
    let p0 = pick_p(rng);
    let from_bin = rng.chance(1, 2);
    let mixed = rng.chance(1, 2); // with `change_precision` between symbols
    let nsteps = (rng.next() % 28) as usize;
    let head_words = ((s - w - p0) + w - 1) / w + (!from_bin) as u32;
    let avg_p = if mixed { (w / 2).max(1) } else { p0 } as usize;
    let need = head_words as usize + (nsteps * avg_p + w as usize - 1) / w as usize;
    let len = match rng.next() % 4 {
        0 => rng.below(need as u128 + 2) as usize,
        _ => need + (rng.next() % 3) as usize,
    };
    let style = rng.next() % 6;
    let mut data: Vec<u128> = (0..len)
        .map(|_| match style {
            0 => 0,
            1 => pow2(w) - 1,
            _ => rng.below(pow2(w)),
        })
        .collect();
    if !from_bin {
        match data.last_mut() {
            Some(l) => {
                if *l == 0 {
                    *l = 1;
                }
            }
            None => data.push(1),
        }
    }
    let kind = if from_bin { 0 } else { 1 };
    let d0 = match C::ctor(kind, p0, words::<C::W>(&data)).unwrap() {
        Ok(d) => d,
        Err(()) => return,
    };
    // ---- base run: builds the script as it goes
    let mut script: Vec<Rec> = Vec::new();
    let mut syms: Vec<usize> = Vec::new();
    let mut ran_out = false;
    {
        let mut d = d0.clone();
        for _ in 0..nsteps {
            if mixed && rng.chance(1, 4) {
                let q = if rng.chance(1, 2) { pick_p(rng) } else { *rng.pick(&precs) };
                let o = guarded(|| C::cp(&mut d, 0, q).unwrap());
                match o {
                    Ok(o) => script.push(Rec::Cp { q, ok: o == "ok" }),
                    Err(class) => {
                        script.push(Rec::Cp { q, ok: false });
                        rep.fail("C14", format!("{} => {}", c14_line::<C>(p0, from_bin, &data, &script), class));
                        return;
                    }
                }
                if d.p != p0 {
                    rep.count("C14.precision_changed");
                }
            } else {
                let p = d.p;
                let b = g.b(rng, p);
                let cdf = gen_cdf(rng, p);
                script.push(Rec::Dec { p, b, cdf: cdf.clone() });
                rep.eval("C10");
                rep.eval("C20");
                match guarded(|| C::dec(&mut d, b, &cdf).unwrap()) {
                    Ok(o) if o == "out_of_data" => {
                        ran_out = true;
                        break;
                    }
                    Ok(o) if parse_hex(&o).is_some() => syms.push(parse_hex(&o).unwrap() as usize),
                    other => {
                        let what = match other {
                            Ok(o) => o,
                            Err(class) => class.to_string(),
                        };
                        let line = c14_line::<C>(p0, from_bin, &data, &script);
                        rep.eval("C14");
                        rep.fail("C14", format!("{} => decoding symbol {} answered {} instead of the symbol its model assigns to chunk {} of the data", line, syms.len(), what, syms.len()));
                        rep.fail("C10", format!("{} => {}", line, what));
                        return;
                    }
                }
            }
        }
    }
    let line = c14_line::<C>(p0, from_bin, &data, &script);
    let decs: Vec<(u32, u32, Vec<u128>)> = script
        .iter()
        .filter_map(|r| match r {
            Rec::Dec { p, b, cdf } => Some((*p, *b, cdf.clone())),
            _ => None,
        })
        .collect();
    let dec_precs: Vec<u32> = decs.iter().map(|d| d.0).collect();
    // ---- (a) symbol i = model i applied to chunk i, chunks from the data alone
    let stack = unwords(&d0.comp);
    let chunks = reference_chunks(stack.len(), w, &dec_precs);
    rep.eval("C14");
    if chunks.iter().zip(&dec_precs).any(|(c, &p)| c.len() > p as usize) || dec_precs.iter().any(|&p| 2 * p <= w) {
        rep.count("C14.more_than_p_bits_buffered");
    }
    let expect_syms: Vec<usize> = chunks.iter().zip(&decs).map(|(c, (_, _, cdf))| find(cdf, chunk_value(&stack, c))).collect();
    let expect_out = chunks.len() < decs.len();
    if syms != expect_syms || ran_out != expect_out {
        let first = syms.iter().zip(&expect_syms).position(|(a, b)| a != b).unwrap_or(syms.len().min(expect_syms.len()));
        rep.fail(
            "C14",
            format!(
                "{} => symbols {:?} ran_out {} but the models applied to the chunks of the data give {:?} ran_out {} (first difference at symbol {}, chunk value {:x})",
                line,
                syms,
                ran_out,
                expect_syms,
                expect_out,
                first,
                chunks.get(first).map_or(0, |c| chunk_value(&stack, c))
            ),
        );
        return;
    }
    if ran_out {
        rep.count("C14.ran_out");
    }
    rep.sample("C14", || line.clone());
    if chunks.is_empty() {
        return;
    }
    let same_except = |a: &[usize], b: &[usize], j: Option<usize>| -> bool {
        a.len() == b.len() && a.iter().zip(b).enumerate().all(|(i, (x, y))| Some(i) == j || x == y)
    };
    let j = rng.below(chunks.len() as u128) as usize;
    // ---- (c) another model at position j
    {
        let mut script2 = script.clone();
        let mut k = 0;
        let newcdf = gen_cdf(rng, dec_precs[j]);
        for r in script2.iter_mut() {
            if let Rec::Dec { cdf, .. } = r {
                if k == j {
                    *cdf = newcdf.clone();
                }
                k += 1;
            }
        }
        rep.eval("C14");
        match c14_rerun::<C>(&d0, &script2, rep) {
            Err(e) if e == "diverged" => rep.count("C14.skipped_precision_change_diverged"),
            Err(e) => rep.fail("C14", format!("{} => {} after replacing model {}", c14_line::<C>(p0, from_bin, &data, &script2), e, j)),
            Ok((syms2, out2)) => {
                if out2 != ran_out || !same_except(&syms2, &syms, Some(j)) || syms2[j] != find(&newcdf, chunk_value(&stack, &chunks[j])) {
                    rep.fail("C14", format!("{} => replacing model {} changed symbols {:?} -> {:?} / ran_out {} -> {}", c14_line::<C>(p0, from_bin, &data, &script2), j, syms, syms2, ran_out, out2));
                }
            }
        }
    }
    // ---- (b) flipping bits: inside chunk j / outside every consumed chunk
    let rebuild = |data2: &[u128]| -> Option<Dyn<C::W, C::S>> { C::ctor(kind, p0, words::<C::W>(data2)).unwrap().ok() };
    {
        let mut data2 = data.clone();
        let mut flipped = 0;
        for &(wi, bi) in &chunks[j] {
            if rng.chance(1, 2) {
                data2[wi] ^= 1 << bi;
                flipped += 1;
            }
        }
        if flipped == 0 {
            let (wi, bi) = chunks[j][0];
            data2[wi] ^= 1 << bi;
        }
        rep.eval("C14");
        let line2 = c14_line::<C>(p0, from_bin, &data2, &script);
        match rebuild(&data2) {
            None => rep.fail("C14", format!("{} => constructor fails after flipping bits of chunk {} (original data {})", line2, j, show_list(data.clone()))),
            Some(d2) => match c14_rerun::<C>(&d2, &script, rep) {
                Err(e) if e == "diverged" => rep.count("C14.skipped_precision_change_diverged"),
                Err(e) => rep.fail("C14", format!("{} => {} after flipping bits of chunk {} (original data {})", line2, e, j, show_list(data.clone()))),
                Ok((syms2, out2)) => {
                    let stack2 = unwords(&d2.comp);
                    if out2 != ran_out || !same_except(&syms2, &syms, Some(j)) || syms2[j] != find(&decs[j].2, chunk_value(&stack2, &chunks[j])) {
                        rep.fail("C14", format!("{} => flipping bits of chunk {} only (original data {}) changed symbols {:?} -> {:?} / ran_out {} -> {}", line2, j, show_list(data.clone()), syms, syms2, ran_out, out2));
                    }
                }
            },
        }
    }
    {
        let used: std::collections::BTreeSet<(usize, u32)> = chunks.iter().flatten().copied().collect();
        let free: Vec<(usize, u32)> = (0..stack.len()).flat_map(|wi| (0..w).map(move |bi| (wi, bi))).filter(|pos| !used.contains(pos)).collect();
        if !free.is_empty() {
            let mut data2 = data.clone();
            for _ in 0..1 + rng.next() % 3 {
                let (wi, bi) = *rng.pick(&free);
                data2[wi] ^= 1 << bi;
            }
            if data2 != data {
                rep.eval("C14");
                rep.count("C14.flip_unconsumed_bits");
                let line2 = c14_line::<C>(p0, from_bin, &data2, &script);
                match rebuild(&data2) {
                    None => rep.fail("C14", format!("{} => constructor fails after flipping unconsumed bits (original data {})", line2, show_list(data.clone()))),
                    Some(d2) => match c14_rerun::<C>(&d2, &script, rep) {
                        Err(e) if e == "diverged" => rep.count("C14.skipped_precision_change_diverged"),
                        Err(e) => rep.fail("C14", format!("{} => {} after flipping bits that belong to no consumed chunk (original data {})", line2, e, show_list(data.clone()))),
                        Ok((syms2, out2)) => {
                            if out2 != ran_out || syms2 != syms {
                                rep.fail("C14", format!("{} => flipping bits that belong to no consumed chunk (original data {}) changed symbols {:?} -> {:?} / ran_out {} -> {}", line2, show_list(data.clone()), syms, syms2, ran_out, out2));
                            }
                        }
                    },
                }
            }
        }
    }
}

fn oracle_combo<C: ChainPrec>(rng: &mut Rng, bps: &[(u32, Vec<u32>)], iters: usize, rep: &mut Report) {
    let (w, s) = (C::WBITS, C::SBITS);
    let precs = union_precs(bps);
    for _ in 0..iters {
        let mut g = GenCtx { w, s, bps, precs: precs.clone(), cdfs: Default::default() };

        // ---------------- C13 (+ C09, C10): decode, export, re-import, re-encode ----------------
        let p0 = *rng.pick(&precs);
        let from_bin = rng.chance(1, 2);
        let nsteps = (rng.next() % 40) as usize;
        let head_words = ((s - w - p0) + w - 1) / w + (!from_bin) as u32;
        let approx = head_words as u128 + (nsteps as u128 * p0 as u128) / w as u128;
        let len = match rng.next() % 8 {
            0 => rng.below(approx + 2),
            1 => approx.saturating_sub(rng.below(3)),
            _ => approx + 1 + rng.below(4),
        } as usize;
        let style = rng.next() % 6;
        let mut data: Vec<u128> = (0..len)
            .map(|_| match style {
                0 => 0,
                1 => pow2(w) - 1,
                2 => {
                    if rng.chance(1, 2) {
                        0
                    } else {
                        rng.below(pow2(w))
                    }
                }
                _ => rng.below(pow2(w)),
            })
            .collect();
        let expect_zero_top_err = !from_bin && data.last().map_or(true, |&l| l == 0) && rng.chance(1, 8);
        if !from_bin && !expect_zero_top_err {
            match data.last_mut() {
                Some(l) => {
                    if *l == 0 {
                        *l = 1 + rng.below(pow2(w) - 1);
                    }
                }
                None => data.push(1 + rng.below(pow2(w) - 1)),
            }
        }
        if data.iter().any(|&x| x == 0) {
            rep.count("C13.data_with_zero_word");
        }
        let mut desc = describe::<C>(p0, from_bin, &data);
        crate::util::set_case(&desc);
        let made = guarded(|| C::ctor(if from_bin { 0 } else { 1 }, p0, words::<C::W>(&data)).unwrap());
        rep.eval("C10");
                rep.eval("C20"); // would abort on a std UB check (new_unchecked(0)) in this build
        let d0 = match made {
            Err(class) => {
                rep.fail("C10", format!("{} => constructor {}", desc, class));
                continue;
            }
            Ok(Err(())) => {
                // too few words, or `from_compressed` with a zero word on top: an error, fine
                rep.count("C13.ctor_err");
                if !from_bin && data.last().map_or(false, |&l| l == 0) {
                    rep.count("C13.ctor_err.zero_top_word");
                }
                continue;
            }
            Ok(Ok(d)) => d,
        };
        if expect_zero_top_err {
            rep.fail("C13", format!("{} => from_compressed accepted data with a zero word on top", desc));
            continue;
        }
        // the heads consumed words from the top only
        if d0.comp.len() > data.len() || unwords(&d0.comp)[..] != data[..d0.comp.len()] {
            rep.fail("C13", format!("{} => compressed stack after construction is not a prefix of the data", desc));
            continue;
        }
        let mut d = d0.clone();
        let mut log: Vec<Step> = Vec::new();
        let mut broken = false;
        for _ in 0..nsteps {
            if rng.chance(5, 6) {
                let p = d.p;
                let b = g.b(rng, p);
                let cdf = g.cdf(rng, p);
                desc.push_str(&format!(" | dec {:x} {:x} {}", p, b, show_list(cdf.clone())));
                crate::util::set_case(&desc);
                let before = d.clone();
                rep.eval("C10");
                rep.eval("C20"); // would abort on a std UB check (new_unchecked(0)) in this build
                match guarded(|| C::dec(&mut d, b, &cdf).unwrap()) {
                    Err(class) => {
                        rep.fail("C10", format!("{} => {}", desc, class));
                        broken = true;
                        break;
                    }
                    Ok(o) if o == "out_of_data" => {
                        rep.count("C13.out_of_data");
                        rep.eval("C13");
                        if d != before {
                            rep.fail("C13", format!("{} => out_of_data but the coder changed", desc));
                            broken = true;
                        }
                        break;
                    }
                    Ok(o) => match parse_hex(&o) {
                        Some(sym) if (sym as usize) + 1 < cdf.len() => {
                            log.push(Step::Dec { p, b, cdf, sym: sym as usize });
                        }
                        _ => {
                            rep.fail("C10", format!("{} => decoded {} which is not in the model's support / not a documented error", desc, o));
                            broken = true;
                            break;
                        }
                    },
                }
            } else {
                let kind = *rng.pick(&["cp", "cp", "cp", "incp", "decp"]);
                let q = g.new_prec(rng, d.p, kind);
                let k = match kind {
                    "cp" => 0,
                    "incp" => 1,
                    _ => 2,
                };
                desc.push_str(&format!(" | {} {:x}", kind, q));
                crate::util::set_case(&desc);
                let before = d.clone();
                let old = d.p;
                rep.eval("C20");
                match guarded(|| C::cp(&mut d, k, q).unwrap()) {
                    Err(class) => {
                        rep.fail("C13", format!("{} => {}", desc, class));
                        broken = true;
                        break;
                    }
                    Ok(o) if o == "ok" => {
                        rep.count(if q > old { "C13.precision_up" } else if q < old { "C13.precision_down" } else { "C13.precision_same" });
                        log.push(Step::Prec { old });
                    }
                    Ok(o) if o == "out_of_remainders" => {
                        rep.count("C13.precision_change_refused");
                        rep.eval("C13");
                        if d != before {
                            rep.fail("C13", format!("{} => out_of_remainders but the coder changed", desc));
                            broken = true;
                            break;
                        }
                    }
                    Ok(o) => {
                        rep.fail("C13", format!("{} => {}", desc, o));
                        broken = true;
                        break;
                    }
                }
            }
        }
        if broken {
            continue;
        }
        let exported = guarded(|| C::into_rem(&d).unwrap());
        let (prefix, suffix) = match exported {
            Ok(Ok(x)) => x,
            other => {
                rep.fail("C13", format!("{} | intorem => {:?}", desc, other.map(|e| e.err())));
                continue;
            }
        };
        if prefix.len() > data.len() || prefix[..] != data[..prefix.len()] {
            rep.fail("C13", format!("{} | intorem => prefix {} is not an unaltered prefix of the data", desc, show_list(prefix.clone())));
            continue;
        }
        for way in 0..3u32 {
            let mut wdesc = desc.clone();
            crate::util::set_case(&wdesc);
            let (mut e, stash): (Dyn<C::W, C::S>, Vec<u128>) = match way {
                0 => (d.clone(), vec![]),
                _ => {
                    let src: Vec<u128> = if way == 1 { suffix.clone() } else { prefix.iter().chain(suffix.iter()).copied().collect() };
                    wdesc.push_str(&format!(" | reimport {}", way));
                    crate::util::set_case(&wdesc);
                    match guarded(|| C::ctor(2, d.p, words::<C::W>(&src)).unwrap()) {
                        Ok(Ok(e)) => (e, if way == 1 { prefix.clone() } else { vec![] }),
                        _ => {
                            rep.fail("C13", format!("{} => from_remainders failed", wdesc));
                            continue;
                        }
                    }
                }
            };
            let mut ok = true;
            for step in log.iter().rev() {
                match step {
                    Step::Dec { p, b, cdf, sym } => {
                        if rng.chance(1, 8) {
                            // C09: an out-of-support symbol at any point of the encode history
                            let bad = cdf.len() - 1 + (rng.next() % 3) as usize * 0x1_0000_0001usize;
                            let before = e.clone();
                            let o = guarded(|| C::enc_sym(&mut e, *b, cdf, bad).unwrap());
                            rep.eval("C09");
                            rep.eval("C20");
                            if o != Ok("impossible".to_string()) || e != before {
                                rep.fail("C09", format!("{} | encsym {:x} {:x} {} {:x} => {:?} / coder changed: {}", wdesc, p, b, show_list(cdf.clone()), bad, o, e != before));
                                ok = false;
                                break;
                            }
                        }
                        wdesc.push_str(" | undo");
                        crate::util::set_case(&wdesc);
                        rep.eval("C20");
                        let o = guarded(|| C::enc_sym(&mut e, *b, cdf, *sym).unwrap());
                        if o != Ok("ok".to_string()) {
                            rep.fail("C13", format!("{} => re-encoding returned {:?}", wdesc, o));
                            ok = false;
                            break;
                        }
                    }
                    Step::Prec { old } => {
                        wdesc.push_str(" | undo");
                        crate::util::set_case(&wdesc);
                        let o = guarded(|| C::cp(&mut e, 0, *old).unwrap());
                        if o != Ok("ok".to_string()) {
                            rep.fail("C13", format!("{} => reverting the precision returned {:?}", wdesc, o));
                            ok = false;
                            break;
                        }
                    }
                }
            }
            if !ok {
                continue;
            }
            wdesc.push_str(if from_bin { " | final bin" } else { " | final comp" });
            crate::util::set_case(&wdesc);
            let fin = guarded(|| if from_bin { C::into_bin(&e).unwrap() } else { C::into_comp(&e).unwrap() });
            rep.eval("C13");
            rep.eval("C20");
            rep.count(&format!("C13.way{}", way));
            match fin {
                Ok(Ok((pre2, suf2))) => {
                    let rec: Vec<u128> = stash.iter().chain(pre2.iter()).chain(suf2.iter()).copied().collect();
                    if rec != data {
                        rep.fail("C13", format!("{} => {} expected the original data", wdesc, show_list(rec)));
                    }
                }
                other => rep.fail("C13", format!("{} => {:?}", wdesc, other.map(|e| e.err()))),
            }
            if way == 0 && e != d0 {
                rep.fail("C13", format!("{} => coder after undoing everything differs from the freshly constructed one", wdesc));
            }
            if way == 1 {
                // one symbol too many: `out_of_remainders` (coder intact) or a legitimate `ok`
                let p = e.p;
                let b = g.b(rng, p);
                let cdf = g.cdf(rng, p);
                let sym = rng.below(cdf.len() as u128 - 1) as usize;
                let before = e.clone();
                let o = guarded(|| C::enc_sym(&mut e, b, &cdf, sym).unwrap());
                rep.eval("C13");
                match o {
                    Ok(o) if o == "ok" => rep.count("C13.extra_symbol_ok"),
                    Ok(o) if o == "out_of_remainders" => {
                        rep.count("C13.out_of_remainders");
                        if e != before {
                            rep.fail("C13", format!("{} | encsym {:x} {:x} {} {:x} => out_of_remainders but the coder changed", wdesc, p, b, show_list(cdf), sym));
                        }
                    }
                    other => rep.fail("C13", format!("{} | encsym {:x} {:x} {} {:x} => {:?}", wdesc, p, b, show_list(cdf), sym, other)),
                }
            }
        }
        rep.sample("C13", || format!("{} | intorem | reimport 1 | undoall | final {}", desc, if from_bin { "bin" } else { "comp" }));
        rep.count(&format!("C13.hist.{}x{}", w, s));

        // ---------------- C14 (+ C10, C20): locality ----------------
        oracle_locality::<C>(rng, bps, rep);
    }
}

// ---- C10 / C13 with the crate's own models, through the public API only (no hook) ----

#[derive(Clone, Copy, PartialEq, Debug)]
enum ZSym {
    U(usize),
    I(i32),
}

#[derive(Clone)]
enum ZModel {
    /// categorical probabilities (f32 weights of 2..=6 symbols)
    Cat(Vec<f32>),
    /// quantised Gaussian on -100..=100
    Gauss(f64, f64),
}

macro_rules! zoo_oracle {
    (@deccat lookup, $coder:ident, $cat:ident) => {{
        let lk = $cat.to_lookup_decoder_model();
        $coder.decode_symbol(&lk).map(ZSym::U).map_err(|_| ())
    }};
    (@deccat plain, $coder:ident, $cat:ident) => {
        $coder.decode_symbol(&$cat).map(ZSym::U).map_err(|_| ())
    };
    ($fname:ident, $Coder:ty, $W:ty, $Cat:ty, $Quant:ty, $how:ident) => {
        fn $fname(rng: &mut Rng, iters: usize, rep: &mut Report) {
            use probability::distribution::Gaussian;
            let wbits = <$W>::BITS;
            for _ in 0..iters {
                let n = (rng.next() % 20) as usize;
                let style = rng.next() % 5;
                let data: Vec<$W> = (0..n)
                    .map(|_| match style {
                        0 => 0,
                        1 => <$W>::MAX,
                        _ => rng.below(pow2(wbits)) as $W,
                    })
                    .collect();
                let k = (rng.next() % 40) as usize;
                let models: Vec<ZModel> = (0..k)
                    .map(|_| {
                        if rng.chance(1, 2) {
                            let m = 2 + (rng.next() % 5) as usize;
                            ZModel::Cat((0..m).map(|_| if rng.chance(1, 6) { 1e-9 } else { 0.01 + (rng.next() % 1000) as f32 }).collect())
                        } else {
                            ZModel::Gauss((rng.next() % 300) as f64 - 150.0, 0.001 + (rng.next() % 4000) as f64 / 100.0)
                        }
                    })
                    .collect();
                let desc = || format!("zoo {} data {:?} models {}", stringify!($Coder), data, models.len());
                let quantizer = <$Quant>::new(-100..=100);
                let mut coder = match <$Coder>::from_binary(data.clone()) {
                    Ok(c) => c,
                    Err(_) => {
                        rep.count("C10.zoo.ctor_err");
                        continue;
                    }
                };
                let mut syms: Vec<ZSym> = Vec::new();
                let mut failed = false;
                for m in &models {
                    rep.eval("C10");
                rep.eval("C20"); // would abort on a std UB check (new_unchecked(0)) in this build
                    let r = guarded(|| -> Result<ZSym, ()> {
                        match m {
                            ZModel::Cat(probs) => {
                                let cat = <$Cat>::from_floating_point_probabilities_fast(probs, None).unwrap();
                                zoo_oracle!(@deccat $how, coder, cat)
                            }
                            ZModel::Gauss(mu, sigma) => coder
                                .decode_symbol(quantizer.quantize(Gaussian::new(*mu, *sigma)))
                                .map(ZSym::I)
                                .map_err(|_| ()),
                        }
                    });
                    match r {
                        Err(class) => {
                            rep.fail("C10", format!("{} => {}", desc(), class));
                            failed = true;
                            break;
                        }
                        Ok(Err(())) => {
                            rep.count("C10.zoo.out_of_data");
                            break;
                        }
                        Ok(Ok(sym)) => {
                            let ok = match (m, sym) {
                                (ZModel::Cat(p), ZSym::U(i)) => i < p.len(),
                                (ZModel::Gauss(..), ZSym::I(i)) => (-100..=100).contains(&i),
                                _ => false,
                            };
                            if !ok {
                                rep.fail("C10", format!("{} => symbol {:?} outside the support", desc(), sym));
                                failed = true;
                                break;
                            }
                            syms.push(sym);
                        }
                    }
                }
                if failed {
                    continue;
                }
                // C13 through the public API: export, re-import the suffix, re-encode, finish
                let (prefix, suffix) = coder.into_remainders().unwrap();
                let mut enc = match <$Coder>::from_remainders(suffix) {
                    Ok(c) => c,
                    Err(_) => {
                        rep.fail("C13", format!("{} => from_remainders failed", desc()));
                        continue;
                    }
                };
                let mut ok = true;
                for (m, sym) in models.iter().zip(&syms).rev() {
                    let r = guarded(|| match (m, sym) {
                        (ZModel::Cat(probs), ZSym::U(i)) => {
                            let cat = <$Cat>::from_floating_point_probabilities_fast(probs, None).unwrap();
                            enc.encode_symbol(*i, &cat).is_ok()
                        }
                        (ZModel::Gauss(mu, sigma), ZSym::I(i)) => {
                            enc.encode_symbol(*i, quantizer.quantize(Gaussian::new(*mu, *sigma))).is_ok()
                        }
                        _ => false,
                    });
                    if r != Ok(true) {
                        rep.fail("C13", format!("{} => re-encoding {:?} returned {:?}", desc(), sym, r));
                        ok = false;
                        break;
                    }
                }
                if !ok {
                    continue;
                }
                rep.eval("C13");
                rep.count("C13.zoo");
                match enc.into_binary() {
                    Ok((p2, s2)) => {
                        let mut rec = prefix;
                        rec.extend(p2);
                        rec.extend(s2);
                        if rec != data {
                            rep.fail("C13", format!("{} symbols {:?} => recovered {:?}", desc(), syms, rec));
                        }
                    }
                    Err(_) => rep.fail("C13", format!("{} => into_binary failed", desc())),
                }
            }
        }
    };
}
zoo_oracle!(
    oracle_zoo_default,
    constriction::stream::chain::DefaultChainCoder,
    u32,
    constriction::stream::model::DefaultContiguousCategoricalEntropyModel,
    constriction::stream::model::DefaultLeakyQuantizer<f64, i32>,
    plain
);
zoo_oracle!(
    oracle_zoo_small,
    constriction::stream::chain::SmallChainCoder,
    u16,
    constriction::stream::model::SmallContiguousCategoricalEntropyModel,
    constriction::stream::model::SmallLeakyQuantizer<f64, i32>,
    lookup
);

// ---- C14 / C10 / C13 over compressed / remainders backends other than `Vec` ----
//
// Which instantiations the crate's trait bounds allow (checked by compiling this module):
//  * compressed side of `from_binary` / `from_compressed` (bound: `ReadWords<Word, Stack>`;
//    the remainders side must be `Default + WriteWords`): `Cursor<Word, Vec<Word>>`,
//    `Cursor<Word, &[Word]>`, `FallibleIteratorReadWords`, any user-defined
//    `ReadWords<Word, Stack>` – all compile.
//  * remainders side of `from_remainders` (bound: `ReadWords<Word, Stack>`; the compressed side
//    must be `Default + WriteWords`): the same four kinds compile.
//  * NOT usable at all: `InfallibleIteratorReadWords`.  Its constructor `new` demands
//    `Iter: Iterator<Item = Result<Word, ReadError>>` (copied from the fallible adapter) while
//    its `ReadWords<Word, _>` impl demands `Iter: Iterator<Item = Word>`, so for an iterator over
//    plain words `new` does not type-check, and for an iterator over `Result`s the adapter
//    reads "words" of type `Result<…>`, which no coder accepts (E0271 when tried here).
//  * NOT possible through the public constructors: a `Cursor` (or any bounded sink) as the
//    *remainders* backend of `from_binary` / `from_compressed`, or as the *compressed* backend
//    of `from_remainders` – `Cursor` has no `Default` impl; the iterator adapters cannot be
//    sinks at all (no `WriteWords`).  A bounded remainders sink is therefore exercised through
//    the `constriction_verif` hook `verif_from_parts` only.
mod bk {
    use super::*;
    use constriction::backends::{Cursor, FallibleIteratorReadWords, ReadWords, WriteWords};
    use constriction::Stack;

    /// how conservative `maybe_exhausted()` of the test source is
    #[derive(Clone, Copy, Debug, PartialEq)]
    pub enum Hint {
        /// the trait's default: always `true`
        Always,
        /// `true` at block boundaries ("my buffer is empty") and when really exhausted
        Block(usize),
        Exact,
    }

    #[derive(Debug, PartialEq, Eq)]
    pub struct TestReadError;

    /// user-defined stack source: conservative hint, one injected read error
    pub struct TestSource<W> {
        /// top of the stack last
        pub stack: Vec<W>,
        pub consumed: usize,
        pub calls: usize,
        pub hint: Hint,
        /// the `read()` call with this index fails (once, nothing is consumed)
        pub fail_at: Option<usize>,
    }

    impl<W: Clone> ReadWords<W, Stack> for TestSource<W> {
        type ReadError = TestReadError;
        fn read(&mut self) -> Result<Option<W>, TestReadError> {
            let k = self.calls;
            self.calls += 1;
            if self.fail_at == Some(k) {
                return Err(TestReadError);
            }
            let w = self.stack.pop();
            if w.is_some() {
                self.consumed += 1;
            }
            Ok(w)
        }
        fn maybe_exhausted(&self) -> bool {
            match self.hint {
                Hint::Always => true,
                Hint::Block(b) => self.stack.is_empty() || self.consumed % b == 0,
                Hint::Exact => self.stack.is_empty(),
            }
        }
    }

    pub enum Outcome {
        /// symbols, index at which the data ran out, number of (retried) backend read errors
        Done(Vec<usize>, Option<usize>, usize),
        /// the remainders sink refused a write while decoding symbol `i` (documented backend error)
        WriteError(Vec<usize>, usize),
        Bad(String),
    }

    pub fn run_decodes<W, S, Pr, CB, RB, const P: usize>(
        coder: &mut ChainCoder<W, S, CB, RB, P>,
        models: &[TableModel<Pr, P>],
        rep: &mut Report,
    ) -> Outcome
    where
        W: BitArray + Into<S> + AsPrimitive<Pr>,
        S: BitArray + AsPrimitive<W>,
        Pr: BitArray + Into<W>,
        CB: ReadWords<W, Stack>,
        RB: WriteWords<W>,
    {
        let mut syms = Vec::new();
        let mut read_errors = 0;
        for (i, m) in models.iter().enumerate() {
            let mut tries = 0;
            loop {
                rep.eval("C10");
                rep.eval("C20");
                match guarded(|| coder.decode_symbol(m)) {
                    Err(class) => return Outcome::Bad(format!("{} while decoding symbol {}", class, i)),
                    Ok(Ok(s)) => {
                        syms.push(s);
                        break;
                    }
                    Ok(Err(CoderError::Frontend(DecoderFrontendError::OutOfCompressedData))) => {
                        return Outcome::Done(syms, Some(i), read_errors)
                    }
                    Ok(Err(CoderError::Backend(BackendError::Compressed(_)))) => {
                        // documented backend error, raised before any state change: retry
                        read_errors += 1;
                        tries += 1;
                        if tries > 1 {
                            return Outcome::Bad(format!("repeated backend read error at symbol {}", i));
                        }
                    }
                    Ok(Err(CoderError::Backend(BackendError::Remainders(_)))) => return Outcome::WriteError(syms, i),
                }
            }
        }
        Outcome::Done(syms, None, read_errors)
    }

    fn drain<W, B: ReadWords<W, Stack>>(b: &mut B) -> Vec<W> {
        // top first
        let mut out = Vec::new();
        for _ in 0..1_000_000 {
            match b.read() {
                Ok(Some(w)) => out.push(w),
                Ok(None) => break,
                Err(_) => continue,
            }
        }
        out
    }

    pub fn case<W, S, Pr, const P: usize>(rng: &mut Rng, rep: &mut Report)
    where
        W: BitArray + Into<S> + AsPrimitive<Pr>,
        S: BitArray + AsPrimitive<W>,
        Pr: BitArray + Into<W>,
    {
        let (w, s, b, p) = (W::BITS as u32, S::BITS as u32, Pr::BITS as u32, P as u32);
        let from_bin = rng.chance(1, 2);
        let n = (rng.next() % 24) as usize;
        let head_words = ((s - w - p) + w - 1) / w + (!from_bin) as u32;
        let need = head_words as usize + (n * p as usize + w as usize - 1) / w as usize;
        let len = match rng.next() % 4 {
            0 => rng.below(need as u128 + 2) as usize,
            _ => need + (rng.next() % 3) as usize,
        };
        let style = rng.next() % 6;
        let mut data: Vec<u128> = (0..len).map(|_| if style == 0 { 0 } else { rng.below(pow2(w)) }).collect();
        if !from_bin {
            match data.last_mut() {
                Some(l) => {
                    if *l == 0 {
                        *l = 1;
                    }
                }
                None => data.push(1),
            }
        }
        let cdfs: Vec<Vec<u128>> = (0..n).map(|_| gen_cdf(rng, p)).collect();
        let models: Vec<TableModel<Pr, P>> = cdfs.iter().map(|c| TableModel::new(c.clone())).collect();
        let line = {
            let mut t = format!("chain {:x} {:x} {:x} | {} {}", w, s, p, if from_bin { "binary" } else { "compressed" }, show_list(data.clone()));
            for c in &cdfs {
                t.push_str(&format!(" | dec {:x} {:x} {}", p, b, show_list(c.clone())));
            }
            t
        };
        let dw: Vec<W> = words::<W>(&data);
        // ---- the Vec-backed twin
        type Twin<W, S, const P: usize> = ChainCoder<W, S, Vec<W>, Vec<W>, P>;
        let mk_twin = |d: Vec<W>| if from_bin { Twin::<W, S, P>::from_binary(d) } else { Twin::<W, S, P>::from_compressed(d) };
        let mut twin = match mk_twin(dw.clone()) {
            Ok(t) => t,
            Err(_) => return,
        };
        let stack0: Vec<u128> = match twin.clone().into_remainders() {
            Ok((pre, _)) => unwords(&pre),
            Err(_) => return,
        };
        let (tsyms, tout) = match run_decodes(&mut twin, &models, rep) {
            Outcome::Done(sy, out, 0) => (sy, out),
            _ => {
                rep.fail("C10", format!("{} => the Vec-backed coder does not decode", line));
                return;
            }
        };
        // independent chunk reference
        let chunks = reference_chunks(stack0.len(), w, &vec![p; n]);
        let expect: Vec<usize> = chunks.iter().zip(&cdfs).map(|(c, cdf)| find(cdf, chunk_value(&stack0, c))).collect();
        rep.eval("C14");
        if tsyms != expect || tout != (if chunks.len() < n { Some(chunks.len()) } else { None }) {
            rep.fail("C14", format!("{} => symbols {:?} end {:?} but the chunks of the data give {:?}", line, tsyms, tout, expect));
            return;
        }
        let (tpre, tsuf) = twin.into_remainders().unwrap();

        // compares one alternative compressed backend with the twin
        macro_rules! check_compressed {
            ($tag:expr, $backend:expr, $min_read_errors:expr) => {{
                let tag: String = $tag;
                rep.count(&format!("C14.backend.compressed.{}", tag));
                rep.eval("C14");
                rep.eval("C10");
                rep.eval("C13");
                let backend = $backend;
                let made = if from_bin { ChainCoder::<W, S, _, Vec<W>, P>::from_binary(backend) } else { ChainCoder::<W, S, _, Vec<W>, P>::from_compressed(backend) };
                match made {
                    Err(CoderError::Backend(_)) if $min_read_errors > 0 => rep.count(&format!("C14.backend.compressed.{}.ctor_read_error", tag)),
                    Err(_) => rep.fail("C14", format!("backend={} :: {} => the constructor fails although it succeeds on a Vec", tag, line)),
                    Ok(mut coder) => match run_decodes(&mut coder, &models, rep) {
                        Outcome::Bad(e) => {
                            rep.fail("C14", format!("backend={} :: {} => {}", tag, line, e));
                            rep.fail("C10", format!("backend={} :: {} => {}", tag, line, e));
                        }
                        Outcome::WriteError(..) => rep.fail("C14", format!("backend={} :: {} => write error from a Vec sink", tag, line)),
                        Outcome::Done(sy, out, _errs) => {
                            if sy != tsyms || out != tout {
                                let msg = format!(
                                    "backend={} :: {} => symbols {:?}, out of data at {:?}; the Vec-backed coder (and the chunks of the data) give {:?}, out of data at {:?}",
                                    tag, line, sy, out, tsyms, tout
                                );
                                rep.fail("C14", msg.clone());
                                rep.fail("C10", msg.clone());
                                rep.fail("C13", msg);
                            } else {
                                match coder.into_remainders() {
                                    Ok((mut left, suf)) => {
                                        let mut rest = drain::<W, _>(&mut left);
                                        rest.reverse();
                                        if suf != tsuf || rest != tpre {
                                            rep.fail("C13", format!("backend={} :: {} | intorem => exported words differ from the Vec-backed coder's", tag, line));
                                        }
                                    }
                                    Err(_) => rep.fail("C13", format!("backend={} :: {} | intorem => error", tag, line)),
                                }
                            }
                        }
                    },
                }
            }};
        }
        check_compressed!("cursor_vec".into(), Cursor::new_at_write_end(dw.clone()), 0);
        check_compressed!("cursor_slice".into(), Cursor::new_at_write_end(&dw[..]), 0);
        check_compressed!("iter_fallible_adapter".into(), FallibleIteratorReadWords::new(dw.clone().into_iter().rev().map(Ok::<W, TestReadError>)), 0);
        for hint in [Hint::Always, Hint::Block(1 + (rng.next() % 3) as usize), Hint::Exact] {
            let fail_at = if rng.chance(1, 2) { Some(rng.below(len as u128 + 2) as usize) } else { None };
            let tag = format!(
                "custom.hint_{}{}",
                match hint {
                    Hint::Always => "always".to_string(),
                    Hint::Block(_) => "block".to_string(),
                    Hint::Exact => "exact".to_string(),
                },
                if fail_at.is_some() { ".read_error" } else { "" }
            );
            check_compressed!(tag, TestSource { stack: dw.clone(), consumed: 0, calls: 0, hint, fail_at }, fail_at.map_or(0, |_| 1));
        }

        // ---- remainders side: a bounded `Cursor` sink (only through the hook: no `Default`)
        {
            let cap = (rng.next() % 4) as usize;
            let tag = "remainders.cursor_bounded";
            rep.count(&format!("C14.backend.{}", tag));
            rep.eval("C10");
            if let Ok(t0) = mk_twin(dw.clone()) {
                let (comp, _rems, heads) = t0.verif_into_parts();
                let sink = Cursor::new_at_write_beginning(vec![W::zero(); cap]);
                let mut coder = ChainCoder::<W, S, Vec<W>, Cursor<W, Vec<W>>, P>::verif_from_parts(comp, sink, heads);
                match run_decodes(&mut coder, &models, rep) {
                    Outcome::Bad(e) => rep.fail("C10", format!("backend={} cap={} :: {} => {}", tag, cap, line, e)),
                    Outcome::Done(sy, out, _) => {
                        if sy != tsyms || out != tout {
                            rep.fail("C14", format!("backend={} cap={} :: {} => symbols {:?} end {:?} differ from the Vec-backed coder's", tag, cap, line, sy, out));
                        }
                    }
                    Outcome::WriteError(sy, i) => {
                        // the documented `CoderError::Backend(BackendError::Remainders(OutOfSpace))`
                        rep.count("C14.backend.remainders.cursor_bounded.write_error");
                        if sy[..] != tsyms[..i.min(tsyms.len())] {
                            rep.fail("C14", format!("backend={} cap={} :: {} => symbols before the write error {:?} differ from the Vec-backed coder's", tag, cap, line, sy));
                        }
                    }
                }
            }
        }

        // ---- re-encoding with the remainders read from other backends (`from_remainders`)
        let tsuf_u: Vec<u128> = unwords(&tsuf);
        let twin_final: Option<Vec<W>> = (|| {
            let mut e = Twin::<W, S, P>::from_remainders(tsuf.clone()).ok()?;
            for (sym, m) in tsyms.iter().zip(&models).rev() {
                e.encode_symbol(*sym, m).ok()?;
            }
            let (a, b) = if from_bin { e.into_binary().ok()? } else { e.into_compressed().ok()? };
            let mut v = a;
            v.extend(b);
            Some(v)
        })();
        let twin_final = match twin_final {
            Some(v) => v,
            None => {
                rep.fail("C13", format!("{} | intorem | reimport 1 | undoall => the Vec-backed coder fails", line));
                return;
            }
        };
        macro_rules! check_remainders {
            ($tag:expr, $backend:expr) => {{
                let tag: String = $tag;
                rep.count(&format!("C13.backend.remainders.{}", tag));
                rep.eval("C13");
                match ChainCoder::<W, S, Vec<W>, _, P>::from_remainders($backend) {
                    Err(CoderError::Backend(_)) => rep.count(&format!("C13.backend.remainders.{}.ctor_read_error", tag)),
                    Err(_) => rep.fail("C13", format!("backend={} :: {} | intorem (suffix {}) => from_remainders fails although it succeeds on a Vec", tag, line, show_list(tsuf_u.clone()))),
                    Ok(mut e) => {
                        let mut ok = true;
                        for (sym, m) in tsyms.iter().zip(&models).rev() {
                            let mut tries = 0;
                            loop {
                                match guarded(|| e.encode_symbol(*sym, m)) {
                                    Ok(Ok(())) => break,
                                    Ok(Err(CoderError::Backend(BackendError::Remainders(_)))) if tries == 0 => tries += 1,
                                    other => {
                                        rep.fail("C13", format!("backend={} :: {} | intorem | reimport 1 | undoall => re-encoding fails: {:?}", tag, line, other.map(|r| r.is_ok())));
                                        ok = false;
                                        break;
                                    }
                                }
                            }
                            if !ok {
                                break;
                            }
                        }
                        if ok {
                            let fin = if from_bin { e.into_binary().map_err(|_| ()) } else { e.into_compressed().map_err(|_| ()) };
                            match fin {
                                Ok((mut left, comp)) => {
                                    let mut v = drain::<W, _>(&mut left);
                                    v.reverse();
                                    v.extend(comp);
                                    if v != twin_final {
                                        rep.fail("C13", format!("backend={} :: {} | intorem | reimport 1 | undoall | final => recovered words differ from the Vec-backed coder's", tag, line));
                                    }
                                }
                                Err(()) => rep.fail("C13", format!("backend={} :: {} | intorem | reimport 1 | undoall | final => error", tag, line)),
                            }
                        }
                    }
                }
            }};
        }
        check_remainders!("cursor_vec".into(), Cursor::new_at_write_end(tsuf.clone()));
        check_remainders!("cursor_slice".into(), Cursor::new_at_write_end(&tsuf[..]));
        check_remainders!("iter_fallible_adapter".into(), FallibleIteratorReadWords::new(tsuf.clone().into_iter().rev().map(Ok::<W, TestReadError>)));
        for hint in [Hint::Always, Hint::Block(2), Hint::Exact] {
            let fail_at = if rng.chance(1, 2) { Some(rng.below(tsuf.len() as u128 + 1) as usize) } else { None };
            let tag = format!(
                "custom.hint_{}{}",
                match hint {
                    Hint::Always => "always",
                    Hint::Block(_) => "block",
                    Hint::Exact => "exact",
                },
                if fail_at.is_some() { ".read_error" } else { "" }
            );
            check_remainders!(tag, TestSource { stack: tsuf.clone(), consumed: 0, calls: 0, hint, fail_at });
        }
    }
}

fn oracle_backends(rng: &mut Rng, iters: usize, rep: &mut Report) {
    for _ in 0..iters {
        bk::case::<u8, u16, u8, 3>(rng, rep);
        bk::case::<u8, u16, u8, 8>(rng, rep);
        bk::case::<u8, u32, u8, 5>(rng, rep);
        bk::case::<u16, u32, u8, 4>(rng, rep);
        bk::case::<u16, u32, u16, 12>(rng, rep);
        bk::case::<u32, u64, u16, 12>(rng, rep);
        bk::case::<u32, u64, u32, 24>(rng, rep);
        bk::case::<u64, u128, u32, 32>(rng, rep);
    }
}

pub fn oracle(rng: &mut Rng, tier: &str, rep: &mut Report) {
    check_tables();
    let iters = if tier == "thorough" { 60000 } else { 4000 };
    for (w, s, bps) in combos() {
        match (w, s) {
            (8, 16) => oracle_combo::<C8x16>(rng, &bps, iters, rep),
            (8, 32) => oracle_combo::<C8x32>(rng, &bps, iters, rep),
            (8, 64) => oracle_combo::<C8x64>(rng, &bps, iters, rep),
            (16, 32) => oracle_combo::<C16x32>(rng, &bps, iters, rep),
            (16, 64) => oracle_combo::<C16x64>(rng, &bps, iters, rep),
            (32, 64) => oracle_combo::<C32x64>(rng, &bps, iters, rep),
            (32, 128) => oracle_combo::<C32x128>(rng, &bps, iters, rep),
            (64, 128) => oracle_combo::<C64x128>(rng, &bps, iters, rep),
            _ => {}
        }
    }
    oracle_zoo_default(rng, iters / 2, rep);
    oracle_zoo_small(rng, iters / 2, rep);
    oracle_backends(rng, iters / 8, rep);
}
