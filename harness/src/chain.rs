//! Component `chain`: protocol runner (real code), case generator, implementation-level oracles.
//!
//! The coder type `ChainCoder<W, S, Vec<W>, Vec<W>, P>` depends on the precision `P`, which
//! changes during a history (`change_precision`).  Between two operations the coder is therefore
//! parked in the type-erased form [`Dyn`] (its three fields, via the `constriction_verif`
//! hooks `verif_into_parts` / `verif_from_parts`); every operation itself runs on the real
//! typed coder.
#![allow(unused)]
#![allow(unreachable_patterns)]
use constriction::stream::chain::{
    BackendError, BackendPosition, ChainCoder, ChainCoderHeads, ChangePrecisionError,
    DecoderFrontendError, EncoderFrontendError,
};
use constriction::stream::{Code, Decode, Encode, TryCodingError};
use constriction::{BitArray, CoderError, Pos, Seek};
use num_traits::AsPrimitive;

use crate::rawmodel::{RawEnc, TableModel};
use crate::util::*;

type Coder<W, S, const P: usize> = ChainCoder<W, S, Vec<W>, Vec<W>, P>;

/// a chain coder between two operations
#[derive(Clone, Debug, PartialEq, Eq)]
pub struct Dyn<W, S> {
    pub comp: Vec<W>,
    pub rems: Vec<W>,
    pub hc: W,
    pub hr: S,
    pub p: u32,
}

impl<W: BitArray + Into<S>, S: BitArray + AsPrimitive<W>> Dyn<W, S> {
    fn take<const P: usize>(&mut self) -> Coder<W, S, P> {
        assert_eq!(self.p as usize, P);
        let heads = ChainCoderHeads::<W, S, P>::verif_from_raw(self.hc, self.hr)
            .expect("harness: zero compressed head");
        ChainCoder::verif_from_parts(
            std::mem::take(&mut self.comp),
            std::mem::take(&mut self.rems),
            heads,
        )
    }
    fn peek<const P: usize>(&self) -> Coder<W, S, P> {
        self.clone().take::<P>()
    }
    fn put<const P: usize>(&mut self, c: Coder<W, S, P>) {
        let (comp, rems, heads) = c.verif_into_parts();
        let (hc, hr) = heads.verif_raw();
        *self = Dyn { comp, rems, hc, hr, p: P as u32 };
    }
    fn of<const P: usize>(c: Coder<W, S, P>) -> Self {
        let (comp, rems, heads) = c.verif_into_parts();
        let (hc, hr) = heads.verif_raw();
        Dyn { comp, rems, hc, hr, p: P as u32 }
    }
    fn show(&self) -> String {
        format!(
            "{} {} {} {}",
            show_list(self.comp.iter().map(|&w| to_u128(w))),
            show_list(self.rems.iter().map(|&w| to_u128(w))),
            hex(to_u128(self.hc)),
            hex(to_u128(self.hr))
        )
    }
}

fn words<W: BitArray>(l: &[u128]) -> Vec<W> {
    l.iter().map(|&w| from_u128(w)).collect()
}
fn unwords<W: BitArray>(l: &[W]) -> Vec<u128> {
    l.iter().map(|&w| to_u128(w)).collect()
}

// ---------------------------------------------------------------------------------------
// typed implementations of the operations

fn enc_result<E>(r: Result<(), CoderError<EncoderFrontendError, E>>) -> String {
    match r {
        Ok(()) => "ok".into(),
        Err(CoderError::Frontend(EncoderFrontendError::ImpossibleSymbol)) => "impossible".into(),
        Err(CoderError::Frontend(EncoderFrontendError::OutOfRemainders)) => "out_of_remainders".into(),
        Err(CoderError::Backend(_)) => "backend".into(),
    }
}

fn enc_impl<W, S, Pr, const P: usize>(d: &mut Dyn<W, S>, cp: Option<(u128, u128)>) -> String
where
    W: BitArray + Into<S> + AsPrimitive<Pr>,
    S: BitArray + AsPrimitive<W>,
    Pr: BitArray + Into<W>,
{
    let m = RawEnc::<Pr, P> { cp: cp.map(|(c, p)| (from_u128(c), from_u128(p))) };
    let mut c = d.take::<P>();
    let r = enc_result(c.encode_symbol(0usize, m));
    d.put(c);
    r
}

fn enc_sym_impl<W, S, Pr, const P: usize>(d: &mut Dyn<W, S>, cdf: &[u128], s: usize) -> String
where
    W: BitArray + Into<S> + AsPrimitive<Pr>,
    S: BitArray + AsPrimitive<W>,
    Pr: BitArray + Into<W>,
{
    let m = TableModel::<Pr, P>::new(cdf.to_vec());
    let mut c = d.take::<P>();
    let r = enc_result(c.encode_symbol(s, &m));
    d.put(c);
    r
}

fn dec_impl<W, S, Pr, const P: usize>(d: &mut Dyn<W, S>, cdf: &[u128]) -> String
where
    W: BitArray + Into<S> + AsPrimitive<Pr>,
    S: BitArray + AsPrimitive<W>,
    Pr: BitArray + Into<W>,
{
    let m = TableModel::<Pr, P>::new(cdf.to_vec());
    let mut c = d.take::<P>();
    let r = match c.decode_symbol(&m) {
        Ok(s) => hex(s as u128),
        Err(CoderError::Frontend(DecoderFrontendError::OutOfCompressedData)) => "out_of_data".into(),
        Err(CoderError::Backend(_)) => "backend".into(),
    };
    d.put(c);
    r
}

fn enc_batch_impl<W, S, Pr, const P: usize>(
    d: &mut Dyn<W, S>,
    form: u32,
    cdf: &[u128],
    syms: &[usize],
    err_at: Option<usize>,
) -> String
where
    W: BitArray + Into<S> + AsPrimitive<Pr>,
    S: BitArray + AsPrimitive<W>,
    Pr: BitArray + Into<W>,
{
    let m = TableModel::<Pr, P>::new(cdf.to_vec());
    let pairs = || syms.iter().map(|&s| (s, &m));
    let tries = || {
        syms.iter().enumerate().map(|(i, &s)| if Some(i) == err_at { Err(()) } else { Ok((s, &m)) })
    };
    let tr = |r: Result<(), TryCodingError<_, ()>>| match r {
        Ok(()) => "ok".to_string(),
        Err(TryCodingError::InvalidEntropyModel(())) => "modelerr".to_string(),
        Err(TryCodingError::CodingError(e)) => enc_result(Err(e)),
    };
    let mut c = d.take::<P>();
    let r = match form {
        0 => enc_result(c.encode_symbols(pairs())),
        1 => enc_result(c.encode_symbols_reverse(pairs())),
        2 => tr(c.try_encode_symbols(tries())),
        3 => tr(c.try_encode_symbols_reverse(tries())),
        4 => enc_result(c.encode_iid_symbols(syms.iter().copied(), &m)),
        5 => enc_result(c.encode_iid_symbols_reverse(syms.iter().copied(), &m)),
        _ => "bad-op".into(),
    };
    d.put(c);
    r
}

fn dec_batch_impl<W, S, Pr, const P: usize>(
    d: &mut Dyn<W, S>,
    form: u32,
    cdf: &[u128],
    n: usize,
    err_at: Option<usize>,
) -> String
where
    W: BitArray + Into<S> + AsPrimitive<Pr>,
    S: BitArray + AsPrimitive<W>,
    Pr: BitArray + Into<W>,
{
    let m = TableModel::<Pr, P>::new(cdf.to_vec());
    let mut out: Vec<u128> = Vec::new();
    let mut c = d.take::<P>();
    let mut tail = String::new();
    match form {
        0 => {
            for r in c.decode_symbols((0..n).map(|_| &m)) {
                match r {
                    Ok(s) => out.push(s as u128),
                    Err(CoderError::Frontend(_)) => {
                        tail = " out_of_data".into();
                        break;
                    }
                    Err(_) => {
                        tail = " backend".into();
                        break;
                    }
                }
            }
        }
        1 => {
            let it = (0..n).map(|i| if Some(i) == err_at { Err(()) } else { Ok(&m) });
            for r in c.try_decode_symbols(it) {
                match r {
                    Ok(s) => out.push(s as u128),
                    Err(TryCodingError::InvalidEntropyModel(())) => {
                        tail = " modelerr".into();
                        break;
                    }
                    Err(TryCodingError::CodingError(CoderError::Frontend(_))) => {
                        tail = " out_of_data".into();
                        break;
                    }
                    Err(_) => {
                        tail = " backend".into();
                        break;
                    }
                }
            }
        }
        2 => {
            for r in c.decode_iid_symbols(n, &m) {
                match r {
                    Ok(s) => out.push(s as u128),
                    Err(CoderError::Frontend(_)) => {
                        tail = " out_of_data".into();
                        break;
                    }
                    Err(_) => {
                        tail = " backend".into();
                        break;
                    }
                }
            }
        }
        _ => return "bad-op".into(),
    }
    d.put(c);
    format!("{}{}", show_list(out), tail)
}

/// operations that depend on the coder precision only
pub enum POp {
    Whole,
    IntoRem,
    IntoComp,
    IntoBin,
    Mex,
    MFull,
    Clone,
    /// `seek((BackendPosition { compressed, remainders }, heads(hc, hr)))`
    Seek(usize, usize, u128, u128),
    /// `Pos::pos()`
    Pos,
}

/// result of an exporter: `Ok((prefix, suffix))` or the canonical error string
type Exported = Result<(Vec<u128>, Vec<u128>), String>;

fn into_rem_impl<W, S, const P: usize>(d: &Dyn<W, S>) -> Exported
where
    W: BitArray + Into<S>,
    S: BitArray + AsPrimitive<W>,
{
    match d.peek::<P>().into_remainders() {
        Ok((pre, suf)) => Ok((unwords(&pre), unwords(&suf))),
        Err(_) => Err("backend".into()),
    }
}
fn into_comp_impl<W, S, const P: usize>(d: &Dyn<W, S>) -> Exported
where
    W: BitArray + Into<S>,
    S: BitArray + AsPrimitive<W>,
{
    match d.peek::<P>().into_compressed() {
        Ok((pre, suf)) => Ok((unwords(&pre), unwords(&suf))),
        Err(CoderError::Frontend(_)) => Err("notwhole".into()),
        Err(CoderError::Backend(_)) => Err("backend".into()),
    }
}
fn into_bin_impl<W, S, const P: usize>(d: &Dyn<W, S>) -> Exported
where
    W: BitArray + Into<S>,
    S: BitArray + AsPrimitive<W>,
{
    match d.peek::<P>().into_binary() {
        Ok((pre, suf)) => Ok((unwords(&pre), unwords(&suf))),
        Err(CoderError::Frontend(_)) => Err("notwhole".into()),
        Err(CoderError::Backend(_)) => Err("backend".into()),
    }
}

fn show_exported(e: Exported) -> String {
    match e {
        Ok((a, b)) => format!("{} {}", show_list(a), show_list(b)),
        Err(s) => s,
    }
}

fn pop_impl<W, S, const P: usize>(d: &mut Dyn<W, S>, op: &POp) -> String
where
    W: BitArray + Into<S>,
    S: BitArray + AsPrimitive<W>,
{
    match op {
        POp::Whole => format!("{}", d.peek::<P>().is_whole()),
        POp::IntoRem => show_exported(into_rem_impl::<W, S, P>(d)),
        POp::IntoComp => show_exported(into_comp_impl::<W, S, P>(d)),
        POp::IntoBin => show_exported(into_bin_impl::<W, S, P>(d)),
        POp::Mex => format!("{}", Decode::<P>::maybe_exhausted(&d.peek::<P>())),
        POp::MFull => format!("{}", Encode::<P>::maybe_full(&d.peek::<P>())),
        POp::Clone => {
            let c = d.take::<P>();
            let c2 = c.clone();
            drop(c);
            d.put(c2);
            "ok".into()
        }
        POp::Pos => {
            let c = d.peek::<P>();
            let (bp, heads) = c.pos();
            let (hc, hr) = heads.verif_raw();
            format!(
                "{} {} {} {}",
                hex(bp.compressed as u128),
                hex(bp.remainders as u128),
                hex(to_u128(hc)),
                hex(to_u128(hr))
            )
        }
        POp::Seek(pc, pr, hc, hr) => {
            let heads = match ChainCoderHeads::<W, S, P>::verif_from_raw(from_u128(*hc), from_u128(*hr)) {
                Some(h) => h,
                None => return "unsupported".into(),
            };
            let mut c = d.take::<P>();
            let r = c.seek((BackendPosition { compressed: *pc, remainders: *pr }, heads));
            d.put(c);
            match r {
                Ok(()) => "ok".into(),
                Err(()) => "err".into(),
            }
        }
    }
}

/// 0 = from_binary, 1 = from_compressed, 2 = from_remainders
fn ctor_impl<W, S, const P: usize>(kind: u32, data: Vec<W>) -> Result<Dyn<W, S>, ()>
where
    W: BitArray + Into<S>,
    S: BitArray + AsPrimitive<W>,
{
    let r = match kind {
        0 => Coder::<W, S, P>::from_binary(data).map_err(|_| ()),
        1 => Coder::<W, S, P>::from_compressed(data).map_err(|_| ()),
        _ => Coder::<W, S, P>::from_remainders(data).map_err(|_| ()),
    };
    r.map(Dyn::of)
}

fn cp_result<W, S, const Q: usize>(
    d: &mut Dyn<W, S>,
    r: Result<Coder<W, S, Q>, ChangePrecisionError<W, Vec<W>>>,
) -> String
where
    W: BitArray + Into<S>,
    S: BitArray + AsPrimitive<W>,
{
    match r {
        Ok(c) => {
            d.put(c);
            "ok".into()
        }
        Err(ChangePrecisionError::Decrease(CoderError::Frontend(EncoderFrontendError::OutOfRemainders))) => {
            "out_of_remainders".into()
        }
        Err(ChangePrecisionError::Decrease(CoderError::Frontend(EncoderFrontendError::ImpossibleSymbol))) => {
            "impossible".into()
        }
        Err(_) => "backend".into(),
    }
}

/// `change_precision::<Q>()`; the method consumes the coder even when it fails, so the harness
/// runs it on a clone and keeps the old coder on failure
fn cp_impl<W, S, const P: usize, const Q: usize>(d: &mut Dyn<W, S>) -> String
where
    W: BitArray + Into<S>,
    S: BitArray + AsPrimitive<W>,
{
    let r = d.peek::<P>().change_precision::<Q>();
    cp_result(d, r)
}
fn incp_impl<W, S, const P: usize, const Q: usize>(d: &mut Dyn<W, S>) -> String
where
    W: BitArray + Into<S>,
    S: BitArray + AsPrimitive<W>,
{
    match d.peek::<P>().increase_precision::<Q>() {
        Ok(c) => {
            d.put(c);
            "ok".into()
        }
        Err(_) => "backend".into(),
    }
}
fn decp_impl<W, S, const P: usize, const Q: usize>(d: &mut Dyn<W, S>) -> String
where
    W: BitArray + Into<S>,
    S: BitArray + AsPrimitive<W>,
{
    match d.peek::<P>().decrease_precision::<Q>() {
        Ok(c) => {
            d.put(c);
            "ok".into()
        }
        Err(CoderError::Frontend(EncoderFrontendError::OutOfRemainders)) => "out_of_remainders".into(),
        Err(CoderError::Frontend(EncoderFrontendError::ImpossibleSymbol)) => "impossible".into(),
        Err(_) => "backend".into(),
    }
}

// ---------------------------------------------------------------------------------------
// runtime → const-generic dispatch

pub trait ChainCombo {
    type W: BitArray + Into<Self::S>;
    type S: BitArray + AsPrimitive<Self::W>;
    const WBITS: u32;
    const SBITS: u32;
    /// `None` = this (B, P) is not compiled in
    fn enc(d: &mut Dyn<Self::W, Self::S>, b: u32, cp: Option<(u128, u128)>) -> Option<String>;
    fn dec(d: &mut Dyn<Self::W, Self::S>, b: u32, cdf: &[u128]) -> Option<String>;
    fn enc_sym(d: &mut Dyn<Self::W, Self::S>, b: u32, cdf: &[u128], s: usize) -> Option<String>;
    fn enc_batch(d: &mut Dyn<Self::W, Self::S>, b: u32, form: u32, cdf: &[u128], syms: &[usize], err_at: Option<usize>) -> Option<String>;
    fn dec_batch(d: &mut Dyn<Self::W, Self::S>, b: u32, form: u32, cdf: &[u128], n: usize, err_at: Option<usize>) -> Option<String>;
}

macro_rules! impl_chain_combo {
    ($name:ident, $W:ty, $S:ty; $($B:ty => [$($P:literal),*]);*) => {
        impl ChainCombo for $name {
            type W = $W;
            type S = $S;
            const WBITS: u32 = <$W>::BITS;
            const SBITS: u32 = <$S>::BITS;
            fn enc(d: &mut Dyn<$W, $S>, b: u32, cp: Option<(u128, u128)>) -> Option<String> {
                match (b, d.p) {
                    $($( (bb, $P) if bb == <$B>::BITS => Some(enc_impl::<$W, $S, $B, $P>(d, cp)), )*)*
                    _ => None,
                }
            }
            fn dec(d: &mut Dyn<$W, $S>, b: u32, cdf: &[u128]) -> Option<String> {
                match (b, d.p) {
                    $($( (bb, $P) if bb == <$B>::BITS => Some(dec_impl::<$W, $S, $B, $P>(d, cdf)), )*)*
                    _ => None,
                }
            }
            fn enc_sym(d: &mut Dyn<$W, $S>, b: u32, cdf: &[u128], s: usize) -> Option<String> {
                match (b, d.p) {
                    $($( (bb, $P) if bb == <$B>::BITS => Some(enc_sym_impl::<$W, $S, $B, $P>(d, cdf, s)), )*)*
                    _ => None,
                }
            }
            fn enc_batch(d: &mut Dyn<$W, $S>, b: u32, form: u32, cdf: &[u128], syms: &[usize], err_at: Option<usize>) -> Option<String> {
                match (b, d.p) {
                    $($( (bb, $P) if bb == <$B>::BITS => Some(enc_batch_impl::<$W, $S, $B, $P>(d, form, cdf, syms, err_at)), )*)*
                    _ => None,
                }
            }
            fn dec_batch(d: &mut Dyn<$W, $S>, b: u32, form: u32, cdf: &[u128], n: usize, err_at: Option<usize>) -> Option<String> {
                match (b, d.p) {
                    $($( (bb, $P) if bb == <$B>::BITS => Some(dec_batch_impl::<$W, $S, $B, $P>(d, form, cdf, n, err_at)), )*)*
                    _ => None,
                }
            }
        }
    };
}
crate::for_each_combo!(impl_chain_combo);

/// operations dispatched on the coder precision alone, and on (old, new) precision pairs
pub trait ChainPrec: ChainCombo {
    fn precisions() -> &'static [u32];
    fn pop(d: &mut Dyn<Self::W, Self::S>, op: &POp) -> Option<String>;
    fn ctor(kind: u32, p: u32, data: Vec<Self::W>) -> Option<Result<Dyn<Self::W, Self::S>, ()>>;
    fn into_rem(d: &Dyn<Self::W, Self::S>) -> Option<Exported>;
    fn into_comp(d: &Dyn<Self::W, Self::S>) -> Option<Exported>;
    fn into_bin(d: &Dyn<Self::W, Self::S>) -> Option<Exported>;
    /// kind 0 = change_precision, 1 = increase_precision, 2 = decrease_precision
    fn cp(d: &mut Dyn<Self::W, Self::S>, kind: u32, q: u32) -> Option<String>;
}

macro_rules! cp_all {
    ($d:ident, $q:ident, $C:ty; [$($P:literal),*]; $Qs:tt) => {
        $( cp_all!(@row $d, $q, $C; $P; $Qs); )*
    };
    (@row $d:ident, $q:ident, $C:ty; $P:literal; [$($Q:literal),*]) => {
        $( if $d.p == $P && $q == $Q {
            return Some(cp_impl::<<$C as ChainCombo>::W, <$C as ChainCombo>::S, $P, $Q>($d));
        } )*
    };
}

/// `increase_precision::<Q>` needs `Q >= P` and `decrease_precision::<Q>` needs `Q <= P` at
/// compile time: walk the *sorted* precision list
macro_rules! cp_ord {
    ($d:ident, $kind:ident, $q:ident, $C:ty; ) => {};
    ($d:ident, $kind:ident, $q:ident, $C:ty; $H:literal $(, $T:literal)*) => {
        if $kind == 1 && $d.p == $H && $q == $H {
            return Some(incp_impl::<<$C as ChainCombo>::W, <$C as ChainCombo>::S, $H, $H>($d));
        }
        if $kind == 2 && $d.p == $H && $q == $H {
            return Some(decp_impl::<<$C as ChainCombo>::W, <$C as ChainCombo>::S, $H, $H>($d));
        }
        $(
            if $kind == 1 && $d.p == $H && $q == $T {
                return Some(incp_impl::<<$C as ChainCombo>::W, <$C as ChainCombo>::S, $H, $T>($d));
            }
            if $kind == 2 && $d.p == $T && $q == $H {
                return Some(decp_impl::<<$C as ChainCombo>::W, <$C as ChainCombo>::S, $T, $H>($d));
            }
        )*
        cp_ord!($d, $kind, $q, $C; $($T),*);
    };
}

macro_rules! impl_chain_prec {
    ($name:ident; $($P:literal),*) => {
        impl ChainPrec for $name {
            fn precisions() -> &'static [u32] { &[$($P),*] }
            fn pop(d: &mut Dyn<Self::W, Self::S>, op: &POp) -> Option<String> {
                match d.p {
                    $( $P => Some(pop_impl::<Self::W, Self::S, $P>(d, op)), )*
                    _ => None,
                }
            }
            fn ctor(kind: u32, p: u32, data: Vec<Self::W>) -> Option<Result<Dyn<Self::W, Self::S>, ()>> {
                match p {
                    $( $P => Some(ctor_impl::<Self::W, Self::S, $P>(kind, data)), )*
                    _ => None,
                }
            }
            fn into_rem(d: &Dyn<Self::W, Self::S>) -> Option<Exported> {
                match d.p { $( $P => Some(into_rem_impl::<Self::W, Self::S, $P>(d)), )* _ => None }
            }
            fn into_comp(d: &Dyn<Self::W, Self::S>) -> Option<Exported> {
                match d.p { $( $P => Some(into_comp_impl::<Self::W, Self::S, $P>(d)), )* _ => None }
            }
            fn into_bin(d: &Dyn<Self::W, Self::S>) -> Option<Exported> {
                match d.p { $( $P => Some(into_bin_impl::<Self::W, Self::S, $P>(d)), )* _ => None }
            }
            fn cp(d: &mut Dyn<Self::W, Self::S>, kind: u32, q: u32) -> Option<String> {
                if kind == 0 {
                    cp_all!(d, q, $name; [$($P),*]; [$($P),*]);
                } else {
                    cp_ord!(d, kind, q, $name; $($P),*);
                }
                None
            }
        }
    };
}
// sorted union of the precisions that `for_each_combo!` lists for each (Word, State)
impl_chain_prec!(C8x16; 1, 2, 3, 4, 5, 7, 8);
impl_chain_prec!(C8x32; 1, 2, 3, 4, 5, 7, 8);
impl_chain_prec!(C8x64; 1, 3, 8);
impl_chain_prec!(C16x32; 1, 2, 4, 7, 8, 12, 15, 16);
impl_chain_prec!(C16x64; 1, 8, 12, 16);
impl_chain_prec!(C32x64; 1, 8, 12, 16, 24, 31, 32);
impl_chain_prec!(C32x128; 1, 16, 24, 32);
impl_chain_prec!(C64x128; 1, 12, 24, 32);

// ---------------------------------------------------------------------------------------
// protocol runner

fn opt_idx(s: &str) -> Option<Option<usize>> {
    if s == "-" {
        Some(None)
    } else {
        Some(Some(parse_hex(s)? as usize))
    }
}

/// what `undo` re-does (see the Lean driver)
pub enum Ghost {
    Sym(u32, Vec<u128>, usize),
    Prec(u32),
}

fn undo_one<C: ChainPrec>(d: &mut Dyn<C::W, C::S>, ghost: &mut Vec<Ghost>) -> String {
    match ghost.pop() {
        None => "empty".into(),
        Some(Ghost::Sym(b, cdf, s)) => C::enc_sym(d, b, &cdf, s).unwrap_or_else(|| "unsupported".into()),
        Some(Ghost::Prec(q)) => C::cp(d, 0, q).unwrap_or_else(|| "unsupported".into()),
    }
}

fn run_hist<C: ChainPrec>(segs: &[Vec<&str>], p0: u32) -> String {
    let init = &segs[1];
    let ctor = |kind: u32, ws: &str| -> Option<Option<Result<Dyn<C::W, C::S>, ()>>> {
        let l = parse_list(ws)?;
        Some(C::ctor(kind, p0, words::<C::W>(&l)))
    };
    let made = match init.as_slice() {
        ["binary", ws] => ctor(0, ws),
        ["compressed", ws] => ctor(1, ws),
        ["remainders", ws] => ctor(2, ws),
        ["raw", comp, rems, hc, hr] => (|| {
            let comp = parse_list(comp)?;
            let rems = parse_list(rems)?;
            let hc = parse_hex(hc)?;
            let hr = parse_hex(hr)?;
            if !C::precisions().contains(&p0) {
                return Some(None);
            }
            if hc == 0 {
                return Some(Some(Err(())));
            }
            Some(Some(Ok(Dyn {
                comp: words::<C::W>(&comp),
                rems: words::<C::W>(&rems),
                hc: from_u128(hc),
                hr: from_u128(hr),
                p: p0,
            })))
        })(),
        _ => None,
    };
    let mut d = match made {
        None => return "bad-op".into(),
        Some(None) => return "unsupported".into(),
        Some(Some(Err(()))) => return "err".into(),
        Some(Some(Ok(d))) => d,
    };
    let mut stash: Vec<u128> = Vec::new();
    let mut ghost: Vec<Ghost> = Vec::new();
    let mut snaps: Vec<(u32, usize, usize, u128, u128)> = Vec::new();
    let mut outs: Vec<String> = vec!["ok".into()];
    for seg in &segs[2..] {
        let mut dead = false;
        let r = guarded(|| -> Option<String> {
            let uns = || "unsupported".to_string();
            Some(match seg.as_slice() {
                ["dec", b, cdf] => {
                    let b = parse_hex(b)? as u32;
                    let cdf = parse_list(cdf)?;
                    let o = C::dec(&mut d, b, &cdf).unwrap_or_else(uns);
                    if let Some(s) = parse_hex(&o) {
                        ghost.push(Ghost::Sym(b, cdf, s as usize));
                    }
                    o
                }
                ["undo"] => undo_one::<C>(&mut d, &mut ghost),
                ["undoall"] => {
                    let mut n = 0u128;
                    loop {
                        if ghost.is_empty() {
                            break format!("{:x} ok", n);
                        }
                        match guarded(|| undo_one::<C>(&mut d, &mut ghost)) {
                            Ok(o) if o == "ok" => n += 1,
                            Ok(o) => break format!("{:x} {}", n, o),
                            Err(class) => {
                                dead = true;
                                break format!("{:x} {}", n, class);
                            }
                        }
                    }
                }
                ["enc", b, cum, pr] => {
                    C::enc(&mut d, parse_hex(b)? as u32, Some((parse_hex(cum)?, parse_hex(pr)?))).unwrap_or_else(uns)
                }
                ["encnone", b] => C::enc(&mut d, parse_hex(b)? as u32, None).unwrap_or_else(uns),
                ["encsym", b, cdf, s] => {
                    C::enc_sym(&mut d, parse_hex(b)? as u32, &parse_list(cdf)?, parse_hex(s)? as usize).unwrap_or_else(uns)
                }
                ["encs", b, form, cdf, syms, err_at] => {
                    let syms: Vec<usize> = parse_list(syms)?.iter().map(|&s| s as usize).collect();
                    let form = parse_hex(form)? as u32;
                    if form > 5 {
                        return None;
                    }
                    C::enc_batch(&mut d, parse_hex(b)? as u32, form, &parse_list(cdf)?, &syms, opt_idx(err_at)?)
                        .unwrap_or_else(uns)
                }
                ["decs", b, form, cdf, n, err_at] => {
                    let form = parse_hex(form)? as u32;
                    if form > 2 {
                        return None;
                    }
                    let b = parse_hex(b)? as u32;
                    let cdf = parse_list(cdf)?;
                    let o = C::dec_batch(&mut d, b, form, &cdf, parse_hex(n)? as usize, opt_idx(err_at)?)
                        .unwrap_or_else(uns);
                    if let Some(syms) = o.split(' ').next().and_then(parse_list) {
                        for s in syms {
                            ghost.push(Ghost::Sym(b, cdf.clone(), s as usize));
                        }
                    }
                    o
                }
                [op @ ("cp" | "incp" | "decp"), q] => {
                    let q = parse_hex(q)? as u32;
                    let kind = match *op {
                        "cp" => 0,
                        "incp" => 1,
                        _ => 2,
                    };
                    let legal = q >= 1
                        && q <= C::WBITS
                        && C::WBITS + q <= C::SBITS
                        && (kind != 1 || q >= d.p)
                        && (kind != 2 || q <= d.p);
                    if !legal {
                        uns()
                    } else {
                        let old = d.p;
                        let o = C::cp(&mut d, kind, q).unwrap_or_else(uns);
                        if o == "ok" {
                            ghost.push(Ghost::Prec(old));
                        }
                        o
                    }
                }
                ["reimport", k] => {
                    let k = parse_hex(k)?;
                    if k != 1 && k != 2 {
                        return None;
                    }
                    match C::into_rem(&d)? {
                        Err(e) => e,
                        Ok((pre, suf)) => {
                            let data: Vec<u128> = if k == 1 {
                                suf.clone()
                            } else {
                                pre.iter().chain(suf.iter()).copied().collect()
                            };
                            match C::ctor(2, d.p, words::<C::W>(&data))? {
                                Ok(nd) => {
                                    d = nd;
                                    stash = if k == 1 { pre } else { Vec::new() };
                                    "ok".into()
                                }
                                Err(()) => "err".into(),
                            }
                        }
                    }
                }
                ["final", which] => {
                    let e = match *which {
                        "comp" => C::into_comp(&d)?,
                        "bin" => C::into_bin(&d)?,
                        _ => return None,
                    };
                    match e {
                        Ok((pre, suf)) => {
                            show_list(stash.iter().chain(pre.iter()).chain(suf.iter()).copied())
                        }
                        Err(s) => s,
                    }
                }
                ["seekto", i] => {
                    let i = parse_hex(i)? as usize;
                    match snaps.get(i) {
                        None => uns(),
                        Some(&(p, pc, pr, hc, hr)) => {
                            if p != d.p {
                                uns()
                            } else {
                                C::pop(&mut d, &POp::Seek(pc, pr, hc, hr))?
                            }
                        }
                    }
                }
                ["whole"] => C::pop(&mut d, &POp::Whole)?,
                ["raw"] => format!("{} {}", d.show(), hex(d.p as u128)),
                ["intorem"] => C::pop(&mut d, &POp::IntoRem)?,
                ["intocomp"] => C::pop(&mut d, &POp::IntoComp)?,
                ["intobin"] => C::pop(&mut d, &POp::IntoBin)?,
                ["mex"] => C::pop(&mut d, &POp::Mex)?,
                ["mfull"] => C::pop(&mut d, &POp::MFull)?,
                ["clone"] => C::pop(&mut d, &POp::Clone)?,
                ["snap"] => {
                    let s = C::pop(&mut d, &POp::Pos)?;
                    let v: Vec<u128> = s.split(' ').map(|t| parse_hex(t).unwrap()).collect();
                    snaps.push((d.p, v[0] as usize, v[1] as usize, v[2], v[3]));
                    s
                }
                _ => return None,
            })
        });
        match r {
            Ok(Some(s)) => {
                outs.push(s);
                if dead {
                    break;
                }
            }
            Ok(None) => {
                outs.push("bad-op".into());
                break;
            }
            Err(class) => {
                outs.push(class.into());
                break;
            }
        }
    }
    outs.join(" | ")
}

// ---------------------------------------------------------------------------------------
// complete single-step sweeps (only `(u8, u16)`, through the raw-heads hook)

fn fold_list(mut h: u64, l: &[u128]) -> u64 {
    h = digest_step(h, l.len() as u128);
    for &v in l {
        h = digest_step(h, v);
    }
    h
}

fn fold_dyn<W: BitArray, S: BitArray>(mut h: u64, d: &Dyn<W, S>) -> u64 {
    h = digest_step(h, to_u128(d.hc));
    h = digest_step(h, to_u128(d.hr));
    h = fold_list(h, &unwords(&d.comp));
    fold_list(h, &unwords(&d.rems))
}

fn panic_code(class: &str) -> u128 {
    match class {
        "panic:overflow" => 4,
        "panic:shift" => 5,
        _ => 6,
    }
}

/// folds the outcome of one guarded step that returns the protocol string
fn fold_step<W: BitArray + Into<S>, S: BitArray + AsPrimitive<W>>(
    h: u64,
    mut d: Dyn<W, S>,
    f: impl FnOnce(&mut Dyn<W, S>) -> String,
) -> u64 {
    match guarded(|| f(&mut d)) {
        Err(class) => digest_step(h, panic_code(class)),
        Ok(s) => match s.as_str() {
            "out_of_data" => digest_step(h, 1),
            "out_of_remainders" => digest_step(h, 2),
            "impossible" => digest_step(h, 3),
            "ok" => fold_dyn(digest_step(h, 0), &d),
            sym => match parse_hex(sym) {
                Some(v) => fold_dyn(digest_step(digest_step(h, 0), v), &d),
                None => digest_step(h, 99),
            },
        },
    }
}

fn fold_exported(h: u64, e: Result<Exported, &'static str>) -> u64 {
    match e {
        Err(class) => digest_step(h, panic_code(class)),
        Ok(Ok((a, b))) => fold_list(fold_list(digest_step(h, 0), &a), &b),
        Ok(Err(s)) if s == "notwhole" => digest_step(h, 8),
        Ok(Err(_)) => digest_step(h, 99),
    }
}

fn sweep(p: u32, b: u32, kind: &str, lo: u128, hi: u128) -> Option<(u64, u64)> {
    type C = C8x16;
    const W: u32 = 8;
    const S: u32 = 16;
    let top: u128 = 1 << p;
    let hr0: u128 = 1 << (S - W - p);
    let mk = |comp: &[u128], rems: &[u128], hc: u128, hr: u128| Dyn::<u8, u16> {
        comp: words(comp),
        rems: words(rems),
        hc: hc as u8,
        hr: hr as u16,
        p,
    };
    let probe: [u128; 4] = [0, 1, 1 << (W - 1), (1 << W) - 1];
    let mut n = 0u64;
    let mut h = DIGEST_INIT;
    if !C::precisions().contains(&p) {
        return None;
    }
    match kind {
        "decbits" => {
            let cdf = [0, top / 2, top];
            for hc in lo..=hi {
                for w in 0..(1u128 << W) {
                    h = fold_step(h, mk(&[w], &[], hc, hr0), |d| C::dec(d, b, &cdf).unwrap());
                    n += 1;
                }
            }
        }
        "decbits0" => {
            let cdf = [0, top / 2, top];
            for hc in lo..=hi {
                h = fold_step(h, mk(&[], &[], hc, hr0), |d| C::dec(d, b, &cdf).unwrap());
                n += 1;
            }
        }
        "decrem" => {
            for hr in lo..=hi {
                for pr in 1..top {
                    for r in 0..pr {
                        h = fold_step(h, mk(&[r], &[], 1, hr), |d| C::dec(d, b, &[0, pr, top]).unwrap());
                        h = fold_step(h, mk(&[top - pr + r], &[], 1, hr), |d| C::dec(d, b, &[0, top - pr, top]).unwrap());
                        n += 2;
                    }
                }
            }
        }
        "encbits" => {
            for hc in lo..=hi {
                for q in 0..top {
                    h = fold_step(h, mk(&[], &[], hc, hr0), |d| C::enc(d, b, Some((q, 1))).unwrap());
                    n += 1;
                }
            }
        }
        "encrem" => {
            for hr in lo..=hi {
                for pr in 1..top {
                    h = fold_step(h, mk(&[], &[], 1, hr), |d| C::enc(d, b, Some((0, pr))).unwrap());
                    h = fold_step(h, mk(&[], &[], 1, hr), |d| C::enc(d, b, Some((top - pr, pr))).unwrap());
                    n += 2;
                    for &w in &probe {
                        h = fold_step(h, mk(&[], &[w], 1, hr), |d| C::enc(d, b, Some((0, pr))).unwrap());
                        n += 1;
                    }
                }
            }
        }
        "cp" => {
            // `b` is the new precision
            if !(b >= 1 && b <= W && W + b <= S) {
                return None;
            }
            for hr in lo..=hi {
                h = fold_step(h, mk(&[], &[], 1, hr), |d| C::cp(d, 0, b).unwrap());
                n += 1;
                for &w in &probe {
                    h = fold_step(h, mk(&[], &[w], 1, hr), |d| C::cp(d, 0, b).unwrap());
                    n += 1;
                }
            }
        }
        "export" => {
            for hr in lo..=hi {
                for hc in [1u128, 2, (1 << W) - 1] {
                    let d = mk(&[5], &[7], hc, hr);
                    h = fold_exported(h, guarded(|| C::into_rem(&d).unwrap()));
                    h = fold_exported(h, guarded(|| C::into_comp(&d).unwrap()));
                    h = fold_exported(h, guarded(|| C::into_bin(&d).unwrap()));
                    n += 3;
                }
            }
        }
        "import" => {
            for w1 in lo..=hi {
                for w0 in 0..(1u128 << W) {
                    for &w in &probe {
                        // Rust `Vec` order: bottom first
                        let src = [3, w, w0, w1];
                        for kind in 0..3 {
                            h = match C::ctor(kind, p, words::<u8>(&src)).unwrap() {
                                Ok(d) => fold_dyn(digest_step(h, 0), &d),
                                Err(()) => digest_step(h, 9),
                            };
                            n += 1;
                        }
                    }
                }
            }
        }
        _ => return None,
    }
    Some((n, h))
}

pub fn run(segs: &[Vec<&str>]) -> String {
    let head = &segs[0];
    if head.first() == Some(&"chainsweep") {
        if head.len() != 8 || segs.len() != 1 {
            return "bad-op".into();
        }
        let v: Option<Vec<u128>> = [1usize, 2, 3, 4, 6, 7].iter().map(|&i| parse_hex(head[i])).collect();
        let v = match v {
            Some(v) => v,
            None => return "bad-op".into(),
        };
        if (v[0], v[1]) != (8, 16) {
            return "unsupported".into();
        }
        return match sweep(v[2] as u32, v[3] as u32, head[5], v[4], v[5]) {
            Some((n, h)) => format!("{} {:x}", n, h),
            None => "bad-op".into(),
        };
    }
    if head.len() != 4 || head[0] != "chain" || segs.len() < 2 {
        return "bad-op".into();
    }
    let (w, s, p) = match (parse_hex(head[1]), parse_hex(head[2]), parse_hex(head[3])) {
        (Some(w), Some(s), Some(p)) => (w, s, p as u32),
        _ => return "bad-op".into(),
    };
    match (w, s) {
        (8, 16) => run_hist::<C8x16>(segs, p),
        (8, 32) => run_hist::<C8x32>(segs, p),
        (8, 64) => run_hist::<C8x64>(segs, p),
        (16, 32) => run_hist::<C16x32>(segs, p),
        (16, 64) => run_hist::<C16x64>(segs, p),
        (32, 64) => run_hist::<C32x64>(segs, p),
        (32, 128) => run_hist::<C32x128>(segs, p),
        (64, 128) => run_hist::<C64x128>(segs, p),
        _ => "unsupported".into(),
    }
}

pub fn gen(_rng: &mut Rng, _tier: &str, _out: &mut Vec<String>) {}

pub fn oracle(_rng: &mut Rng, _tier: &str, _rep: &mut Report) {}
