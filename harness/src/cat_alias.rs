// ---------------------------------------------------------------------------------------
// API-coverage oracles (included into cat.rs):
//  * the deprecated constructor aliases return exactly what the function they forward to
//    returns (same accept / reject / panic class, same symbol table)            -- C05, C19
//  * direct `from_iterable_entropy_model` calls of the three non-contiguous types from every
//    iterable source representation (the ops `togendec` / `togenenc` / `togenlookup` /
//    non-contiguous `tolookup` reach the same functions through `to_generic_*` = `From<&M>`)
//                                                                                -- C05, C10
// `LazyContiguousCategoricalEntropyModel` does not implement `IterableEntropyModel`, so there
// is no `from_iterable_entropy_model` path from it.

use constriction::stream::model::LeakyQuantizer;
use probability::distribution::Gaussian;

type STable<S> = Vec<(S, u128, u128)>;

fn stable_of<'m, M, S, const P: usize>(m: &'m M) -> STable<S>
where
    M: IterableEntropyModel<'m, P, Symbol = S>,
{
    m.symbol_table().map(|(s, c, p)| (s, to_u128(c), nz::<M::Probability>(p))).collect()
}

/// float table classes: valid ones and every kind of invalid one
fn float_tables(rng: &mut Rng, max_valid_len: usize) -> Vec<(&'static str, Vec<f64>)> {
    let mut v: Vec<(&'static str, Vec<f64>)> = Vec::new();
    let n = 2 + (rng.next() as usize % (max_valid_len - 1));
    let pos = |rng: &mut Rng| 0.001 + (rng.next() % 100_000) as f64 / 100.0;
    v.push(("random", (0..n).map(|_| pos(rng)).collect()));
    v.push(("two", vec![pos(rng), pos(rng)]));
    v.push(("equal", vec![1.0; n]));
    let mut z: Vec<f64> = (0..n.max(3)).map(|_| pos(rng)).collect();
    z[1] = 0.0;
    v.push(("with_zero", z));
    v.push(("dyadic", vec![0.125, 0.5, 0.25, 0.125]));
    v.push(("range", (0..n).map(|i| if i % 2 == 0 { 1e-3 } else { 1e3 }).collect()));
    // invalid
    v.push(("empty", vec![]));
    v.push(("single", vec![1.0]));
    v.push(("all_zero", vec![0.0; 3]));
    let mut neg: Vec<f64> = (0..n.max(3)).map(|_| pos(rng)).collect();
    neg[1] = -0.5;
    v.push(("negative", neg));
    v.push(("nan", vec![1.0, f64::NAN, 2.0]));
    v.push(("inf", vec![1.0, f64::INFINITY, 2.0]));
    v.push(("too_long", vec![1.0; 300]));
    v
}

fn outcome<S: std::fmt::Debug>(r: &Result<Result<STable<S>, ()>, &'static str>) -> String {
    match r {
        Ok(Ok(t)) => format!("accepted {:?}", t),
        Ok(Err(())) => "rejected".into(),
        Err(c) => c.to_string(),
    }
}

fn alias_compare<S: PartialEq + std::fmt::Debug>(
    rep: &mut Report,
    name: &str,
    desc: String,
    alias: Result<Result<STable<S>, ()>, &'static str>,
    target: Result<Result<STable<S>, ()>, &'static str>,
) {
    rep.eval("C05");
    rep.eval("C19");
    rep.count(&format!(
        "C05.alias.{}.{}",
        name,
        match &target {
            Ok(Ok(_)) => "accepted",
            Ok(Err(())) => "rejected",
            Err(_) => "panicked",
        }
    ));
    if alias != target {
        let (a, t) = (outcome(&alias), outcome(&target));
        let what = if alias.as_ref().map(|r| r.is_ok()).ok() != target.as_ref().map(|r| r.is_ok()).ok() { "C19" } else { "C05" };
        cat_fail(rep, what, format!("{} => deprecated alias {} differs from the function it forwards to: alias {} / target {}", desc, name, &a[..a.len().min(300)], &t[..t.len().min(300)]));
    }
}

macro_rules! alias_checks {
    ($rng:expr, $rep:expr, $F:ty, $Pr:ty, $P:literal, $lookup:tt) => {{
        let fname = stringify!($F);
        for (class, tbl64) in float_tables($rng, 10) {
            let tbl: Vec<$F> = tbl64.iter().map(|&x| x as $F).collect();
            let n = tbl.len();
            let base = format!("float table {} {:?} ({}, {}, P={})", class, &tbl64[..n.min(12)], fname, stringify!($Pr), $P);
            // contiguous
            #[allow(deprecated)]
            let a = guarded(|| ContiguousCategoricalEntropyModel::<$Pr, Vec<$Pr>, $P>::from_floating_point_probabilities::<$F>(&tbl).map(|m| stable_of::<_, usize, $P>(&m)));
            let t = guarded(|| ContiguousCategoricalEntropyModel::<$Pr, Vec<$Pr>, $P>::from_floating_point_probabilities_perfect::<$F>(&tbl).map(|m| stable_of::<_, usize, $P>(&m)));
            alias_compare($rep, "contiguous.from_floating_point_probabilities", format!("ContiguousCategoricalEntropyModel {}", base), a, t);
            // symbol lists: matching, too short, too long, with a repeated entry
            for (sc, syms) in [
                ("match", (0..n).map(|i| 3 * i as i32 - 7).collect::<Vec<i32>>()),
                ("short", (0..n.saturating_sub(1)).map(|i| i as i32).collect()),
                ("long", (0..n + 1).map(|i| i as i32).collect()),
                ("repeat", (0..n).map(|i| if i == 1 { 0 } else { i as i32 }).collect()),
            ] {
                let d = format!("{} symbols {} {:?}", base, sc, &syms[..syms.len().min(12)]);
                #[allow(deprecated)]
                let a = guarded(|| NonContiguousCategoricalDecoderModel::<i32, $Pr, Vec<($Pr, i32)>, $P>::from_symbols_and_floating_point_probabilities::<$F>(&syms, &tbl).map(|m| stable_of::<_, i32, $P>(&m)));
                let t = guarded(|| NonContiguousCategoricalDecoderModel::<i32, $Pr, Vec<($Pr, i32)>, $P>::from_symbols_and_floating_point_probabilities_perfect::<$F>(syms.iter().cloned(), &tbl).map(|m| stable_of::<_, i32, $P>(&m)));
                alias_compare($rep, "ncdec.from_symbols_and_floating_point_probabilities", format!("NonContiguousCategoricalDecoderModel {}", d), a, t);
                // the encoder has no symbol table: observe it through every listed symbol (+ one outside)
                let probe = |m: &NonContiguousCategoricalEncoderModel<i32, $Pr, $P>| -> STable<i32> {
                    let mut keys: Vec<i32> = syms.clone();
                    keys.push(1 << 20);
                    keys.sort();
                    keys.dedup();
                    let mut out: STable<i32> = keys.iter().filter_map(|&s| m.left_cumulative_and_probability(s).map(|(c, p)| (s, to_u128(c), nz::<$Pr>(p)))).collect();
                    out.push((-1, m.support_size() as u128, 0));
                    out
                };
                #[allow(deprecated)]
                let a = guarded(|| NonContiguousCategoricalEncoderModel::<i32, $Pr, $P>::from_symbols_and_floating_point_probabilities::<$F>(syms.iter().cloned(), &tbl).map(|m| probe(&m)));
                let t = guarded(|| NonContiguousCategoricalEncoderModel::<i32, $Pr, $P>::from_symbols_and_floating_point_probabilities_perfect::<$F>(syms.iter().cloned(), &tbl).map(|m| probe(&m)));
                alias_compare($rep, "ncenc.from_symbols_and_floating_point_probabilities", format!("NonContiguousCategoricalEncoderModel {}", d), a, t);
                alias_checks!(@lookup_nc $lookup, $rep, $F, $Pr, $P, syms, tbl, d);
            }
            alias_checks!(@lookup_c $lookup, $rep, $F, $Pr, $P, tbl, base);
        }
    }};
    (@lookup_c true, $rep:expr, $F:ty, $Pr:ty, $P:literal, $tbl:expr, $base:expr) => {{
        #[allow(deprecated)]
        let a = guarded(|| ContiguousLookupDecoderModel::<$Pr, Vec<$Pr>, Box<[$Pr]>, $P>::from_floating_point_probabilities::<$F>(&$tbl).map(|m| stable_of::<_, usize, $P>(&m)));
        let t = guarded(|| ContiguousLookupDecoderModel::<$Pr, Vec<$Pr>, Box<[$Pr]>, $P>::from_floating_point_probabilities_perfect::<$F>(&$tbl).map(|m| stable_of::<_, usize, $P>(&m)));
        alias_compare($rep, "lookup.from_floating_point_probabilities", format!("ContiguousLookupDecoderModel {}", $base), a, t);
    }};
    (@lookup_c false, $rep:expr, $F:ty, $Pr:ty, $P:literal, $tbl:expr, $base:expr) => {{}};
    (@lookup_nc true, $rep:expr, $F:ty, $Pr:ty, $P:literal, $syms:expr, $tbl:expr, $d:expr) => {{
        #[allow(deprecated)]
        let a = guarded(|| NonContiguousLookupDecoderModel::<i32, $Pr, Vec<($Pr, i32)>, Box<[$Pr]>, $P>::from_symbols_and_floating_point_probabilities::<$F>(&$syms, &$tbl).map(|m| stable_of::<_, i32, $P>(&m)));
        let t = guarded(|| NonContiguousLookupDecoderModel::<i32, $Pr, Vec<($Pr, i32)>, Box<[$Pr]>, $P>::from_symbols_and_floating_point_probabilities_perfect::<$F>($syms.iter().cloned(), &$tbl).map(|m| stable_of::<_, i32, $P>(&m)));
        alias_compare($rep, "nclookup.from_symbols_and_floating_point_probabilities", format!("NonContiguousLookupDecoderModel {}", $d), a, t);
    }};
    (@lookup_nc false, $rep:expr, $F:ty, $Pr:ty, $P:literal, $syms:expr, $tbl:expr, $d:expr) => {{}};
}

pub fn oracle_aliases(rng: &mut Rng, rep: &mut Report) {
    alias_checks!(rng, rep, f64, u8, 8, true);
    alias_checks!(rng, rep, f32, u8, 8, true);
    alias_checks!(rng, rep, f64, u16, 12, true);
    alias_checks!(rng, rep, f32, u16, 16, true);
    alias_checks!(rng, rep, f64, u32, 24, false);
    alias_checks!(rng, rep, f32, u32, 32, false);
}

// ---- direct `from_iterable_entropy_model` -------------------------------------------------

/// decoder + encoder targets from one iterable source
fn from_iterable_cell<'m, M, S, Pr, const P: usize>(rng: &mut Rng, rep: &mut Report, src: &'m M, source: &str, desc: &str)
where
    M: IterableEntropyModel<'m, P, Symbol = S, Probability = Pr>,
    S: Copy + std::hash::Hash + Eq + Default + std::fmt::Debug,
    Pr: BitArray,
{
    let b = Pr::BITS as u32;
    let p = P as u32;
    let cell = |t: &str| format!("C05.from_iterable.{}.{}.b{}.{}", source, t, b, if p == b { "P=B" } else { "P<B" });
    let r = guarded(|| -> Result<(), (&'static str, String)> {
        let want: STable<S> = stable_of::<_, S, P>(src);
        let total = pow2(p);
        let mut qs: Vec<u128> = if total <= 4096 { (0..total).collect() } else { (0..200).map(|_| rng.below(total)).collect() };
        for e in &want {
            qs.push(e.1);
            qs.push(e.1 + e.2 - 1);
        }
        qs.push(total - 1);
        // decoder
        let dec = NonContiguousCategoricalDecoderModel::<S, Pr, Vec<(Pr, S)>, P>::from_iterable_entropy_model(src);
        if stable_of::<_, S, P>(&dec) != want {
            return Err(("C05", "NonContiguousCategoricalDecoderModel::from_iterable_entropy_model: symbol table differs from the source's".into()));
        }
        if stable_of::<_, S, P>(&src.to_generic_decoder_model()) != want {
            return Err(("C05", "to_generic_decoder_model: symbol table differs from the source's".into()));
        }
        for &q in &qs {
            let (s, c, pr) = dec.quantile_function(from_u128(q));
            let got = (s, to_u128(c), nz::<Pr>(pr));
            let w = want.iter().find(|e| e.1 <= q && q < e.1 + e.2).copied();
            if Some(got) != w {
                return Err(("C10", format!("direct decoder: quantile {:x} => {:?}, the source's table says {:?}", q, got, w)));
            }
        }
        // encoder
        let enc = NonContiguousCategoricalEncoderModel::<S, Pr, P>::from_iterable_entropy_model(src);
        let gen = src.to_generic_encoder_model();
        if enc.support_size() != want.len() || gen.support_size() != want.len() {
            return Err(("C05", format!("encoder support_size {} / {} but the source has {} symbols", enc.support_size(), gen.support_size(), want.len())));
        }
        for e in &want {
            for (which, m) in [("from_iterable_entropy_model", &enc), ("to_generic_encoder_model", &gen)] {
                let r = m.left_cumulative_and_probability(e.0).map(|(c, q)| (to_u128(c), nz::<Pr>(q)));
                if r != Some((e.1, e.2)) {
                    return Err(("C05", format!("encoder {}: symbol {:?} => {:?}, the source's table says {:x}:{:x}", which, e.0, r, e.1, e.2)));
                }
            }
        }
        Ok(())
    });
    for t in ["ncdec", "ncenc"] {
        rep.count(&cell(t));
    }
    rep.eval("C05");
    rep.eval("C10");
    match r {
        Ok(Ok(())) => {}
        Ok(Err((prop, e))) => {
            cat_fail(rep, prop, format!("{} => {}", desc, e));
            if prop != "C05" {
                cat_fail(rep, "C05", format!("{} => {}", desc, e));
            }
        }
        Err(class) => cat_fail(rep, "C05", format!("{} => direct from_iterable_entropy_model: {}", desc, class)),
    }
}

/// lookup target (needs `Probability: Into<usize>`)
fn from_iterable_lookup_cell<'m, M, S, Pr, const P: usize>(rng: &mut Rng, rep: &mut Report, src: &'m M, source: &str, desc: &str)
where
    M: IterableEntropyModel<'m, P, Symbol = S, Probability = Pr>,
    S: Copy + Default + PartialEq + std::fmt::Debug,
    Pr: BitArray + Into<usize>,
    usize: AsPrimitive<Pr>,
{
    let b = Pr::BITS as u32;
    let p = P as u32;
    let r = guarded(|| -> Result<(), (&'static str, String)> {
        let want: STable<S> = stable_of::<_, S, P>(src);
        let total = pow2(p);
        let lk = NonContiguousLookupDecoderModel::<S, Pr, Vec<(Pr, S)>, Box<[Pr]>, P>::from_iterable_entropy_model(src);
        let gl = src.to_generic_lookup_decoder_model();
        if stable_of::<_, S, P>(&lk) != want || stable_of::<_, S, P>(&gl) != want {
            return Err(("C05", "NonContiguousLookupDecoderModel::from_iterable_entropy_model / to_generic_lookup_decoder_model: symbol table differs from the source's".into()));
        }
        let mut qs: Vec<u128> = if total <= 4096 { (0..total).collect() } else { (0..1500).map(|_| rng.below(total)).collect() };
        for e in &want {
            qs.push(e.1);
            qs.push(e.1 + e.2 - 1);
        }
        qs.push(total - 1);
        for &q in &qs {
            let w = want.iter().find(|e| e.1 <= q && q < e.1 + e.2).copied();
            for (which, (s, c, pr)) in [("from_iterable_entropy_model", lk.quantile_function(from_u128(q))), ("to_generic_lookup_decoder_model", gl.quantile_function(from_u128(q)))] {
                let got = (s, to_u128(c), nz::<Pr>(pr));
                if Some(got) != w {
                    return Err(("C10", format!("lookup {}: quantile {:x} => {:?}, the source's table says {:?}", which, q, got, w)));
                }
            }
        }
        Ok(())
    });
    rep.count(&format!("C05.from_iterable.{}.nclookup.b{}.{}", source, b, if p == b { "P=B" } else { "P<B" }));
    rep.eval("C05");
    rep.eval("C10");
    match r {
        Ok(Ok(())) => {}
        Ok(Err((prop, e))) => {
            cat_fail(rep, prop, format!("{} => {}", desc, e));
            if prop != "C05" {
                cat_fail(rep, "C05", format!("{} => {}", desc, e));
            }
        }
        Err(class) => cat_fail(rep, "C05", format!("{} => direct lookup from_iterable_entropy_model: {}", desc, class)),
    }
}

macro_rules! from_iterable_family {
    ($rng:expr, $rep:expr, $Pr:ty, $P:literal, $lookup:tt) => {{
        let p: u32 = $P;
        let b: u32 = <$Pr>::BITS as u32;
        for it in 0..3usize {
            let maxn = pow2(p).min(if it == 0 { 2 } else { 30 });
            let n = if maxn <= 2 { 2 } else { 2 + $rng.below(maxn - 1) as usize };
            let probs = random_table($rng, p, n);
            let infer = it % 2 == 1;
            let given: Vec<$Pr> = probs[..n - infer as usize].iter().map(|&q| from_u128(q)).collect();
            let given128: Vec<u128> = probs[..n - infer as usize].to_vec();
            // contiguous
            if let Ok(m) = ContiguousCategoricalEntropyModel::<$Pr, Vec<$Pr>, $P>::from_nonzero_fixed_point_probabilities(given.iter(), infer) {
                let d = format!("{} | togendec", describe(b, p, &Ctor::Contig { probs: given128.clone(), infer }));
                from_iterable_cell::<_, usize, $Pr, $P>($rng, $rep, &m, "contiguous", &d);
                from_iterable_cell::<_, usize, $Pr, $P>($rng, $rep, &m.as_view(), "contiguous_view", &d);
                from_iterable_family!(@lk $lookup, $rng, $rep, $Pr, $P, usize, &m, "contiguous", &d);
                from_iterable_family!(@lkc $lookup, $rng, $rep, $Pr, $P, &m, &d);
            }
            // non-contiguous decoder (symbol type i32)
            let labels: Vec<i32> = (0..n).map(|i| 5 * i as i32 - 11).collect();
            if let Ok(m) = NonContiguousCategoricalDecoderModel::<i32, $Pr, Vec<($Pr, i32)>, $P>::from_symbols_and_nonzero_fixed_point_probabilities(labels.iter().copied(), given.iter(), infer) {
                let d = format!("{} | togendec (symbol type i32, labels 5i-11)", describe(b, p, &Ctor::NcDec { syms: (0..n).collect(), probs: given128.clone(), infer }));
                from_iterable_cell::<_, i32, $Pr, $P>($rng, $rep, &m, "ncdec", &d);
                from_iterable_family!(@lk $lookup, $rng, $rep, $Pr, $P, i32, &m, "ncdec", &d);
                from_iterable_family!(@lknc $lookup, $rng, $rep, $Pr, $P, labels, given, infer, &d);
            }
            // uniform
            let range = (2 + $rng.below(pow2(p).min(200) - 1)) as usize;
            if let Ok(m) = guarded(|| UniformModel::<$Pr, $P>::new(range)) {
                let d = format!("{} | togendec", describe(b, p, &Ctor::Uniform { range }));
                from_iterable_cell::<_, usize, $Pr, $P>($rng, $rep, &m, "uniform", &d);
                from_iterable_family!(@lk $lookup, $rng, $rep, $Pr, $P, usize, &m, "uniform", &d);
            }
            // leaky quantized Gaussian (symbol type i32)
            let (lo, hi) = if p <= 4 { (-1i32, 1i32) } else if p <= 8 { (-8, 8) } else { (-30, 30) };
            if (hi - lo + 1) as u128 <= pow2(p) / 2 {
                let mean = ($rng.next() % 200) as f64 / 10.0 - 10.0;
                let sd = 0.3 + ($rng.next() % 100) as f64 / 8.0;
                if let Ok(m) = guarded(|| LeakyQuantizer::<f64, i32, $Pr, $P>::new(lo..=hi).quantize(Gaussian::new(mean, sd))) {
                    let d = format!("LeakyQuantizer<f64,i32,{},{}>({}..={}).quantize(Gaussian({}, {}))", stringify!($Pr), $P, lo, hi, mean, sd);
                    from_iterable_cell::<_, i32, $Pr, $P>($rng, $rep, &m, "leaky_quantized", &d);
                    from_iterable_family!(@lk $lookup, $rng, $rep, $Pr, $P, i32, &m, "leaky_quantized", &d);
                }
            }
        }
    }};
    (@lk true, $rng:expr, $rep:expr, $Pr:ty, $P:literal, $S:ty, $m:expr, $name:expr, $d:expr) => {
        from_iterable_lookup_cell::<_, $S, $Pr, $P>($rng, $rep, $m, $name, $d)
    };
    (@lk false, $rng:expr, $rep:expr, $Pr:ty, $P:literal, $S:ty, $m:expr, $name:expr, $d:expr) => {};
    // contiguous lookup decoder as a source
    (@lkc true, $rng:expr, $rep:expr, $Pr:ty, $P:literal, $m:expr, $d:expr) => {{
        let l = $m.to_lookup_decoder_model();
        from_iterable_cell::<_, usize, $Pr, $P>($rng, $rep, &l, "lookup", $d);
        from_iterable_lookup_cell::<_, usize, $Pr, $P>($rng, $rep, &l, "lookup", $d);
    }};
    (@lkc false, $rng:expr, $rep:expr, $Pr:ty, $P:literal, $m:expr, $d:expr) => {};
    // non-contiguous lookup decoder as a source
    (@lknc true, $rng:expr, $rep:expr, $Pr:ty, $P:literal, $labels:expr, $given:expr, $infer:expr, $d:expr) => {{
        if let Ok(l) = NonContiguousLookupDecoderModel::<i32, $Pr, Vec<($Pr, i32)>, Box<[$Pr]>, $P>::from_symbols_and_nonzero_fixed_point_probabilities($labels.iter().copied(), $given.iter(), $infer) {
            from_iterable_cell::<_, i32, $Pr, $P>($rng, $rep, &l, "nclookup", $d);
            from_iterable_lookup_cell::<_, i32, $Pr, $P>($rng, $rep, &l, "nclookup", $d);
        }
    }};
    (@lknc false, $rng:expr, $rep:expr, $Pr:ty, $P:literal, $labels:expr, $given:expr, $infer:expr, $d:expr) => {};
}

pub fn oracle_from_iterable(rng: &mut Rng, rep: &mut Report) {
    from_iterable_family!(rng, rep, u8, 4, true);
    from_iterable_family!(rng, rep, u8, 8, true);
    from_iterable_family!(rng, rep, u16, 12, true);
    from_iterable_family!(rng, rep, u16, 16, true);
    from_iterable_family!(rng, rep, u32, 24, false);
    from_iterable_family!(rng, rep, u32, 32, false);
}
