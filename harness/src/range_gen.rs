// ---------------------------------------------------------------------------------------
// generation (included into range.rs)
//
// The generators steer with the *real* encoder: they keep a live `RangeEncoder` next to the
// line being written, read `(lower, range, situation)` from it and solve for table models
// whose chosen symbol straddles a word boundary, ends just above one, or makes
// `scale * p` land on the renormalisation threshold.

/// random strictly increasing cdf `[0, …, 2^P]` with 2..=6 symbols, biased towards extreme
/// probabilities
fn gen_cdf(rng: &mut Rng, p: u32) -> Vec<u128> {
    let total = pow2(p);
    let max_n = total.min(6);
    if max_n < 2 {
        return vec![0, total];
    }
    let n = rng.range(2, max_n);
    let mut inner: Vec<u128> = Vec::new();
    let style = rng.next() % 4;
    while (inner.len() as u128) < n - 1 {
        let c = match style {
            0 => 1 + rng.below(total - 1),
            1 => 1 + rng.below((n + 1).min(total - 1)),
            2 => total - 1 - rng.below((n + 1).min(total - 1)),
            _ => {
                if rng.chance(1, 2) {
                    1 + rng.below(total - 1)
                } else {
                    rng.bits_biased(p).clamp(1, total - 1)
                }
            }
        };
        if !inner.contains(&c) {
            inner.push(c);
        }
    }
    inner.sort();
    let mut cdf = vec![0];
    cdf.extend(inner);
    cdf.push(total);
    cdf
}

/// the table `{0, a, b, 2^P}` (deduplicated) and the index of the symbol `[a, b)`;
/// requires `a < b ≤ 2^P`
fn cdf_around(p: u32, a: u128, b: u128) -> (Vec<u128>, usize) {
    let total = pow2(p);
    let mut cdf = vec![0];
    if a > 0 {
        cdf.push(a);
    }
    let idx = cdf.len() - 1;
    cdf.push(b);
    if b < total {
        cdf.push(total);
    }
    if cdf.len() == 2 {
        // a = 0, b = 2^P: a one-symbol table is not a legal model; split off the last quantum
        return (vec![0, total - 1, total], 0);
    }
    (cdf, idx)
}

fn pick_bp(rng: &mut Rng, bps: &[(u32, Vec<u32>)]) -> (u32, u32) {
    let (b, ps) = rng.pick(bps);
    (*b, *rng.pick(ps))
}

fn gen_words(rng: &mut Rng, w: u32, n: usize) -> Vec<u128> {
    (0..n).map(|_| rng.bits_biased(w)).collect()
}

fn enc_view<C: RangeCombo>(e: &Enc<C>) -> (u128, u128, bool) {
    let (_, st, sit) = e.clone().into_raw_parts();
    (to_u128(st.lower()), to_u128(st.range().get()), matches!(sit, EncoderSituation::Inverted(..)))
}

/// choose a `(cdf, symbol)` for the next encode, steering by the live encoder state
fn steer<C: RangeCombo>(rng: &mut Rng, e: &Enc<C>, w: u32, s: u32, p: u32, pool: &[(u32, u32, Vec<u128>)], b: u32) -> (Vec<u128>, usize) {
    steer_mode::<C>(rng, e, w, s, p, pool, b, None)
}

/// `mode`: `Some(3)` = upper end just above a top-word boundary, `Some(4)` = new range on the
/// renormalisation threshold, `None` = random mixture
fn steer_mode<C: RangeCombo>(rng: &mut Rng, e: &Enc<C>, w: u32, s: u32, p: u32, pool: &[(u32, u32, Vec<u128>)], b: u32, mode: Option<u64>) -> (Vec<u128>, usize) {
    let total = pow2(p);
    let (lower, range, _inv) = enc_view::<C>(e);
    let scale = range >> p;
    let m = mask(s);
    let thr = 1u128 << (s - w);
    let random = |rng: &mut Rng| {
        let cands: Vec<&(u32, u32, Vec<u128>)> = pool.iter().filter(|(bb, pp, _)| *bb == b && *pp == p).collect();
        let cdf = if !cands.is_empty() && rng.chance(3, 4) { (*rng.pick(&cands)).2.clone() } else { gen_cdf(rng, p) };
        let sym = rng.below(cdf.len() as u128 - 1) as usize;
        (cdf, sym)
    };
    if total < 4 || scale == 0 {
        return random(rng);
    }
    match mode.unwrap_or_else(|| rng.next() % 11) {
        0 | 1 | 2 => {
            // straddle a boundary T inside the interval: the wrap point 2^S, the next
            // multiple of 2^(S-W) or of 2^(S-1) above `lower`
            let unit = match rng.next() % 3 {
                0 => 0u128, // 2^S
                1 => thr,
                _ => 1u128 << (s - 1),
            };
            let dist = if unit == 0 { lower.wrapping_neg() & m } else { (unit - (lower % unit)) % unit.max(1) };
            let dist = if dist == 0 { if unit == 0 { return random(rng); } else { unit } } else { dist };
            if dist >= scale.saturating_mul(total) {
                return random(rng);
            }
            let q = dist / scale; // scale*q <= dist < scale*(q+1)
            if q >= total {
                return random(rng);
            }
            let a = match rng.next() % 4 {
                0 => q,
                1 => q.saturating_sub(1),
                2 => 0,
                _ => q - rng.below(q + 1),
            };
            let bb = match rng.next() % 4 {
                0 => q + 1,
                1 => (q + 2).min(total),
                2 => total,
                _ => q + 1 + rng.below(total - q),
            };
            cdf_around(p, a, bb)
        }
        3 => {
            // upper end just above a top-word boundary (the D3 configuration)
            let dist0 = thr - (lower % thr);
            let span = scale.saturating_mul(total);
            if dist0 > span {
                return random(rng);
            }
            let nb = (span - dist0) / thr + 1; // boundaries inside [lower, lower + scale*2^P]
            let dist = dist0 + thr * rng.below(nb);
            let q = dist / scale + if dist % scale == 0 { 0 } else { 1 }; // scale*q >= dist
            if q == 0 || q > total {
                return random(rng);
            }
            let a = match rng.next() % 4 {
                0 | 1 => 0,
                2 => q - 1,
                _ => rng.below(q),
            };
            cdf_around(p, a, q)
        }
        4 => {
            // scale * p on the renormalisation threshold: p in {ceil(thr/scale) - 1, +0, +1}
            let c = (thr + scale - 1) / scale;
            let pr = (c + rng.below(3)).saturating_sub(1).clamp(1, total - 1);
            let a = match rng.next() % 3 {
                0 => 0,
                1 => total - pr,
                _ => rng.below(total - pr + 1),
            };
            cdf_around(p, a, a + pr)
        }
        6 => {
            // D3 hunt, second step: smallest p that avoids renormalisation, lower moved to
            // just above a top-word boundary
            let pr = (thr + scale - 1) / scale;
            let d = (thr - (lower % thr)) % thr;
            let a = (d + scale - 1) / scale;
            if pr == 0 || pr >= total || a + pr > total {
                return random(rng);
            }
            cdf_around(p, a, a + pr)
        }
        7 => {
            // D3 hunt, first step: new range just above the threshold, new lower just below a
            // top-word boundary
            let c = (thr + scale - 1) / scale;
            let pr = (c + rng.below(2)).clamp(1, total - 1);
            let maxa = total - pr;
            let d0 = thr - (lower % thr);
            let mut cands = Vec::new();
            let mut d = d0;
            while (d - 1) / scale <= maxa && cands.len() < 300 {
                cands.push((d - 1) / scale);
                d += thr;
            }
            let a = if cands.is_empty() { rng.below(maxa + 1) } else { *rng.pick(&cands) };
            cdf_around(p, a, a + pr)
        }
        8 => {
            // new range `scale * p` on / next to the renormalisation threshold U = 2^(S-W):
            // U-1, U, U+1, or inside the window (U - 2^(S-2W), U) where a test on the two top words
            // only would not renormalise
            let v = if s > 2 * w { 1u128 << (s - 2 * w) } else { 1 };
            let p0 = (thr - 1) / scale; // largest p with scale * p <= U - 1
            let mut cands: Vec<u128> = vec![p0, p0 + 1, p0.saturating_sub(1), (thr + scale - 1) / scale];
            cands.retain(|&x| x >= 1 && x < total);
            if cands.is_empty() {
                return random(rng);
            }
            let inwin: Vec<u128> = cands.iter().copied().filter(|&x| scale * x < thr && scale * x + v > thr).collect();
            let pr = if !inwin.is_empty() && rng.chance(2, 3) { *rng.pick(&inwin) } else { *rng.pick(&cands) };
            let a = match rng.next() % 3 {
                0 => 0,
                1 => total - pr,
                _ => rng.below(total - pr + 1),
            };
            cdf_around(p, a, a + pr)
        }
        5 => {
            // extreme probabilities
            let pr = if rng.chance(1, 2) { 1 } else { total - 1 };
            let a = match rng.next() % 3 {
                0 => 0,
                1 => total - pr,
                _ => rng.below(total - pr + 1),
            };
            cdf_around(p, a, a + pr)
        }
        _ => random(rng),
    }
}

fn gen_raw_enc_init(rng: &mut Rng, w: u32, s: u32, p: u32) -> String {
    let thr = pow2(s - w);
    let m = mask(s);
    let total = pow2(p);
    // range: near the threshold for some p, or arbitrary
    let range = match rng.next() % 8 {
        0 => thr,
        1 => thr + 1,
        2 => m,
        3 => m - 1,
        4 => {
            // (range >> P) * pr ∈ {thr-1, thr, thr+1} with pr = 1
            (((thr - 1 + rng.below(3)) << p) | rng.below(total)) & m
        }
        5 => thr.wrapping_sub(1 + rng.below(2)), // invalid: below the threshold
        6 => 0,
        _ => rng.bits_biased(s),
    };
    let lower = match rng.next() % 6 {
        0 => m - rng.below(4),
        1 => (m - thr + 1).wrapping_add(rng.below(3)).wrapping_sub(1) & m,
        2 => range.wrapping_neg() & m,                        // lower + range = 2^S
        3 => (range.wrapping_neg() & m).wrapping_sub(1) & m,  // lower + range = 2^S - 1
        4 => (range.wrapping_neg() & m).wrapping_add(1 + rng.below(thr)) & m, // wraps
        _ => rng.bits_biased(s),
    };
    let (n, first) = match rng.next() % 4 {
        0 => (0, 0),
        _ => (1 + rng.below(3), match rng.next() % 4 { 0 => pow2(w) - 1, 1 => pow2(w) - 2, 2 => 0, _ => rng.bits_biased(w) }),
    };
    let k = (rng.next() % 3) as usize;
    format!("raw {} {:x} {:x} {:x} {:x}", show_list(gen_words(rng, w, k)), lower, range, n, first)
}

fn triples_str(ts: &[(u32, u32, Vec<u128>)]) -> String {
    ts.iter().map(|(b, p, cdf)| format!("{:x} {:x} {}", b, p, show_list(cdf.clone()))).collect::<Vec<_>>().join(" ")
}

/// one encoder history; returns the line
fn gen_enc_history<C: RangeCombo>(rng: &mut Rng, w: u32, s: u32, bps: &[(u32, Vec<u32>)], maxlen: usize) -> String {
    let mut pool: Vec<(u32, u32, Vec<u128>)> = Vec::new();
    for _ in 0..3 {
        let (b, p) = pick_bp(rng, bps);
        pool.push((b, p, gen_cdf(rng, p)));
    }
    // a history may insist on one (b, p), preferably with P == B, to provoke long inverted runs
    let fixed_bp: Option<(u32, u32)> = if rng.chance(1, 3) {
        let (b, ps) = rng.pick(bps);
        Some((*b, *ps.last().unwrap()))
    } else {
        None
    };
    let mut line = format!("range {:x} {:x} | ", w, s);
    let mut e: Enc<C>;
    match rng.next() % 10 {
        0 => {
            let k = 1 + (rng.next() % 3) as usize;
            let ws = gen_words(rng, w, k);
            line.push_str(&format!("with {}", show_list(ws.clone())));
            e = RangeEncoder::with_backend(words::<C::W>(&ws));
        }
        1 | 2 => {
            let (_, p) = pick_bp(rng, bps);
            let init = gen_raw_enc_init(rng, w, s, p);
            line.push_str(&init);
            let toks: Vec<&str> = init.split(' ').collect();
            let (lo, r, n, f) = (parse_hex(toks[2]).unwrap(), parse_hex(toks[3]).unwrap(), parse_hex(toks[4]).unwrap(), parse_hex(toks[5]).unwrap());
            match mk_state::<C>(lo, r) {
                Some(st) => e = RangeEncoder::from_raw_parts(words::<C::W>(&parse_list(toks[1]).unwrap()), st, mk_sit::<C>(n, f)),
                None => return line,
            }
        }
        _ => {
            line.push_str("new");
            e = RangeEncoder::new();
        }
    }
    let n = rng.next() as usize % (maxlen + 1);
    let mut encoded: Vec<(u32, u32, Vec<u128>)> = Vec::new();
    let mut nsnaps = 0usize;
    let mut snap_at: Vec<usize> = Vec::new(); // number of symbols encoded before each snapshot
    let mut alive = true;
    for _ in 0..n {
        let r = rng.next() % 40;
        let op: String = if r < 24 {
            let (b, p) = fixed_bp.unwrap_or_else(|| pick_bp(rng, bps));
            if r == 1 || r == 2 {
                // batch forms: encode_symbols / try_encode_symbols / encode_iid_symbols with one table,
                // sometimes failing part-way (impossible symbol in the middle, `Err` item)
                let cdf = if rng.chance(1, 2) { gen_cdf(rng, p) } else { steer::<C>(rng, &e, w, s, p, &pool, b).0 };
                let k = (rng.next() % 6) as usize;
                let mut syms: Vec<usize> = (0..k).map(|_| rng.below(cdf.len() as u128 - 1) as usize).collect();
                let form = *rng.pick(&[0u32, 2, 4]);
                let mut fail_at: Option<usize> = None;
                let mut err_at: Option<usize> = None;
                if k > 0 && rng.chance(1, 3) {
                    let j = rng.below(k as u128) as usize;
                    if form == 2 && rng.chance(1, 2) {
                        err_at = Some(j);
                    } else {
                        syms[j] = cdf.len() - 1 + (rng.next() % 3) as usize;
                    }
                    fail_at = Some(j);
                }
                let o = guarded(|| C::enc_batch(&mut e, b, p, form, &cdf, &syms, err_at));
                alive = matches!(o, Ok(Some(ref x)) if x == "ok" || x == "impossible" || x == "modelerr");
                for _ in 0..fail_at.unwrap_or(k) {
                    encoded.push((b, p, cdf.clone()));
                }
                format!("encs {:x} {:x} {:x} {} {} {}", b, p, form, show_list(cdf.clone()), show_list(syms.iter().map(|&x| x as u128).collect::<Vec<_>>()), err_at.map(|j| hex(j as u128)).unwrap_or("-".into()))
            } else if r == 0 {
                // arbitrary (possibly invalid) numeric pair within the probability type
                let cum = rng.bits_biased(b);
                let pr = rng.bits_biased(b).max(1);
                let o = guarded(|| C::enc(&mut e, b, p, Some((cum, pr))));
                alive = matches!(o, Ok(Some(ref x)) if x == "ok" || x == "impossible");
                encoded.clear(); // the round trip is not expected any more
                snap_at.clear();
                format!("enc {:x} {:x} {:x} {:x}", b, p, cum, pr)
            } else {
                let (cdf, sym) = steer::<C>(rng, &e, w, s, p, &pool, b);
                let o = guarded(|| C::enc_sym(&mut e, b, p, &cdf, sym));
                alive = matches!(o, Ok(Some(ref x)) if x == "ok");
                let op = format!("enc {:x} {:x} {:x} {:x}", b, p, cdf[sym], cdf[sym + 1] - cdf[sym]);
                encoded.push((b, p, cdf));
                op
            }
        } else {
            match r {
                24 => "export".into(),
                25 | 26 => "getc".into(),
                27 | 28 => {
                    // temporary decoder over what has been encoded so far (or a prefix of it)
                    let k = if rng.chance(2, 3) { encoded.len() } else { rng.below(encoded.len() as u128 + 1) as usize };
                    let extra = if rng.chance(1, 6) { let (b, p) = pick_bp(rng, bps); vec![(b, p, gen_cdf(rng, p))] } else { vec![] };
                    let mut ts: Vec<(u32, u32, Vec<u128>)> = encoded[..k].to_vec();
                    ts.extend(extra);
                    if ts.is_empty() { "decoder".into() } else { format!("decoder {}", triples_str(&ts)) }
                }
                29 => if rng.chance(1, 2) { "nw".into() } else { "full".into() },
                30 => "nb".into(),
                31 => "empty".into(),
                32 => "pos".into(),
                33 | 34 | 35 => {
                    nsnaps += 1;
                    snap_at.push(encoded.len());
                    "snap".into()
                }
                36 => "raw".into(),
                37 => "spec".into(),
                38 => {
                    if rng.chance(1, 8) {
                        e.clear();
                        encoded.clear();
                        snap_at.clear();
                        "clear".into()
                    } else {
                        "clone".into()
                    }
                }
                _ => { let (b, p) = pick_bp(rng, bps); format!("encnone {:x} {:x}", b, p) }
            }
        };
        line.push_str(" | ");
        line.push_str(&op);
        if !alive {
            return line;
        }
    }
    // closing sequence: everything observable about the final encoder, then the decoder side
    nsnaps += 1;
    snap_at.push(encoded.len());
    line.push_str(" | raw | nw | empty | full | getc | raw | export | spec | snap");
    line.push_str(if rng.chance(1, 2) { " | intodec | raw" } else { " | intodec2 | raw" });
    let mut decoded = 0usize;
    let total_syms = encoded.len();
    // sequential decode of a prefix (sometimes everything, sometimes one symbol too many); runs of
    // one model are sometimes decoded with the batch forms, possibly interrupted by an `Err` item
    let k = if rng.chance(2, 3) { total_syms } else { rng.below(total_syms as u128 + 1) as usize };
    let mut i = 0usize;
    while i < k {
        let (b, p, cdf) = &encoded[i];
        let mut run = 1usize;
        while i + run < k && encoded[i + run] == encoded[i] {
            run += 1;
        }
        if rng.chance(1, 2) && (run >= 2 || rng.chance(1, 4)) {
            let form = rng.next() % 3;
            let n = 1 + rng.below(run as u128) as usize;
            let err_at = if form == 1 && rng.chance(1, 2) { Some(rng.below(n as u128) as usize) } else { None };
            line.push_str(&format!(" | decs {:x} {:x} {:x} {} {:x} {}", b, p, form, show_list(cdf.clone()), n, err_at.map(|j| hex(j as u128)).unwrap_or("-".into())));
            i += err_at.unwrap_or(n);
        } else {
            line.push_str(&format!(" | dec {:x} {:x} {}", b, p, show_list(cdf.clone())));
            i += 1;
        }
    }
    line.push_str(" | exhausted | exhausted2 | raw");
    if rng.chance(1, 5) {
        let (b, p) = pick_bp(rng, bps);
        line.push_str(&format!(" | dec {:x} {:x} {} | exhausted", b, p, show_list(gen_cdf(rng, p))));
    }
    // seeks in random order with repeats
    let nseek = rng.next() % 4;
    for _ in 0..nseek {
        if snap_at.len() != nsnaps {
            // snapshots taken before a `clear` / invalid encode do not index `encoded`
            let i = rng.below(nsnaps as u128 + 1);
            line.push_str(&format!(" | seekto {:x} | raw | exhausted", i));
            continue;
        }
        let i = rng.below(nsnaps as u128) as usize;
        line.push_str(&format!(" | seekto {:x} | raw | exhausted", i));
        let from = snap_at[i];
        let cnt = rng.below((total_syms - from) as u128 + 1) as usize;
        for (b, p, cdf) in &encoded[from..from + cnt] {
            line.push_str(&format!(" | dec {:x} {:x} {}", b, p, show_list(cdf.clone())));
        }
        line.push_str(" | exhausted");
    }
    if rng.chance(1, 4) {
        // positions at and beyond the end of the data
        let (lo, r) = (rng.bits_biased(s), match rng.next() % 3 { 0 => rng.bits_biased(s), 1 => pow2(s - w), _ => mask(s) });
        let nw = e.num_words() as u128;
        let pos = match rng.next() % 3 { 0 => nw, 1 => nw + 1, _ => nw + rng.below(5) };
        line.push_str(&format!(" | seek {:x} {:x} {:x} | raw | exhausted", pos, lo, r));
    }
    line
}

/// a valid sealed stream plus the models it was encoded with
fn gen_valid_stream<C: RangeCombo>(rng: &mut Rng, w: u32, s: u32, bps: &[(u32, Vec<u32>)], maxlen: usize) -> (Vec<u128>, Vec<(u32, u32, Vec<u128>)>) {
    let mut e: Enc<C> = RangeEncoder::new();
    let mut pool: Vec<(u32, u32, Vec<u128>)> = Vec::new();
    for _ in 0..2 {
        let (b, p) = pick_bp(rng, bps);
        pool.push((b, p, gen_cdf(rng, p)));
    }
    let n = rng.next() as usize % (maxlen + 1);
    let mut encoded = Vec::new();
    for _ in 0..n {
        let (b, p) = pick_bp(rng, bps);
        let (cdf, sym) = steer::<C>(rng, &e, w, s, p, &pool, b);
        C::enc_sym(&mut e, b, p, &cdf, sym).unwrap();
        encoded.push((b, p, cdf));
    }
    (export::<C>(&e), encoded)
}

fn gen_dec_history<C: RangeCombo>(rng: &mut Rng, w: u32, s: u32, bps: &[(u32, Vec<u32>)]) -> String {
    let mut line = format!("rangedec {:x} {:x} | ", w, s);
    let (mut ws, encoded) = gen_valid_stream::<C>(rng, w, s, bps, 12);
    let mw = mask(w);
    match rng.next() % 10 {
        0 => ws = vec![0; (rng.next() % 6) as usize],
        1 => ws = vec![mw; (rng.next() % 6) as usize],
        2 | 3 => ws = { let k = (rng.next() % 7) as usize; gen_words(rng, w, k) },
        4 => {
            let k = rng.below(ws.len() as u128 + 1) as usize;
            ws.truncate(k);
        }
        5 => {
            let k = 1 + (rng.next() % 5) as usize;
            let fill = match rng.next() % 3 { 0 => 0, 1 => mw, _ => rng.bits_biased(w) };
            ws.extend(std::iter::repeat(fill).take(k));
        }
        6 => {
            if !ws.is_empty() {
                let i = rng.below(ws.len() as u128) as usize;
                ws[i] ^= 1u128 << rng.below(w as u128);
            }
        }
        _ => {}
    }
    if rng.chance(1, 6) {
        // from_raw_parts with `point - lower` around `range`
        let thr = pow2(s - w);
        let m = mask(s);
        let range = match rng.next() % 5 { 0 => thr, 1 => m, 2 => thr.wrapping_sub(1), _ => rng.bits_biased(s).max(thr) };
        let lower = rng.bits_biased(s);
        // `maybe_exhausted` compares `point - lower` with `2^(S-W+1) - 1`: hit it exactly, with
        // the cursor at the end of the data
        let exh_edge = rng.chance(1, 3);
        let range = if exh_edge { match rng.next() % 3 { 0 => m, 1 => (2 * thr + 1) & m, _ => rng.bits_biased(s).max((2 * thr + 1) & m) } } else { range };
        let delta = if exh_edge {
            (2 * thr).wrapping_sub(rng.below(4)) & m
        } else {
            match rng.next() % 5 { 0 => range.wrapping_sub(1), 1 => range, 2 => range.wrapping_add(1), 3 => 0, _ => if range == 0 { 0 } else { rng.below(range) } }
        };
        let point = lower.wrapping_add(delta) & m;
        let pos = if exh_edge { ws.len() as u128 } else { match rng.next() % 8 { 0 => ws.len() as u128 + 1, _ => rng.below(ws.len() as u128 + 1) } };
        line.push_str(&format!("rawdec {} {:x} {:x} {:x} {:x} | exhausted", show_list(ws.clone()), pos, lower, range, point));
    } else {
        line.push_str(&format!("{} {}", if rng.chance(1, 3) { "borrowed" } else { "words" }, show_list(ws.clone())));
    }
    let n = rng.next() % 16;
    let mut next_model = 0usize;
    for _ in 0..n {
        let op = match rng.next() % 13 {
            0..=6 => {
                // mostly the right models in the right order, sometimes a wrong one
                if next_model < encoded.len() && rng.chance(4, 5) {
                    let (b, p, cdf) = &encoded[next_model];
                    next_model += 1;
                    format!("dec {:x} {:x} {}", b, p, show_list(cdf.clone()))
                } else {
                    let (b, p) = pick_bp(rng, bps);
                    format!("dec {:x} {:x} {}", b, p, show_list(gen_cdf(rng, p)))
                }
            }
            7 => if rng.chance(1, 2) { "exhausted".into() } else { "exhausted2".into() },
            11 => {
                let (b, p, cdf) = if next_model < encoded.len() { encoded[next_model].clone() } else { let (b, p) = pick_bp(rng, bps); (b, p, gen_cdf(rng, p)) };
                let form = rng.next() % 3;
                let n = (rng.next() % 5) as usize;
                let err_at = if form == 1 && n > 0 && rng.chance(1, 2) { Some(rng.below(n as u128) as usize) } else { None };
                next_model = encoded.len();
                format!("decs {:x} {:x} {:x} {} {:x} {}", b, p, form, show_list(cdf), n, err_at.map(|j| hex(j as u128)).unwrap_or("-".into()))
            }
            8 => "raw".into(),
            9 | 10 => {
                let thr = pow2(s - w);
                let r = match rng.next() % 5 { 0 => thr, 1 => thr.wrapping_sub(1), 2 => mask(s), _ => rng.bits_biased(s) };
                let pos = match rng.next() % 4 { 0 => ws.len() as u128, 1 => ws.len() as u128 + 1, _ => rng.below(ws.len() as u128 + 2) };
                next_model = encoded.len();
                format!("seek {:x} {:x} {:x}", pos, rng.bits_biased(s), r)
            }
            _ => "clone".into(),
        };
        line.push_str(" | ");
        line.push_str(&op);
    }
    line.push_str(" | exhausted | raw");
    line
}

fn lattice(rng: &mut Rng, s: u32, w: u32, extra: usize, lo_min: u128) -> Vec<u128> {
    let thr = pow2(s - w);
    let m = mask(s);
    let half = pow2(s - 1);
    let mut v = vec![
        0, 1, thr - 1, thr, thr + 1, 2 * thr - 1, 2 * thr, half - 1, half, half + 1,
        m - thr - 1, m - thr, m - thr + 1, m - thr + 2, m - 2, m - 1, m,
    ];
    for _ in 0..extra {
        v.push(rng.next128() & m);
    }
    v.retain(|&x| x >= lo_min);
    v.sort();
    v.dedup();
    v
}

fn gen_sweeps(rng: &mut Rng, tier: &str, out: &mut Vec<String>) {
    let thorough = tier == "thorough";
    // (w, s, b, p)
    let mut cfgs: Vec<(u32, u32, u32, u32)> = vec![(8, 16, 8, 1), (8, 16, 8, 2), (8, 16, 8, 3), (8, 32, 8, 2), (16, 32, 8, 1), (8, 64, 8, 3), (16, 32, 16, 2)];
    if thorough {
        cfgs.extend([(8, 16, 8, 4), (8, 16, 8, 5), (8, 32, 8, 4), (16, 64, 16, 1), (32, 64, 32, 1), (32, 128, 32, 1), (64, 128, 32, 1)]);
    }
    for (w, s, b, p) in cfgs {
        let extra = if thorough { 24 } else { 6 };
        let los = lattice(rng, s, w, extra, 0);
        let mut rs = lattice(rng, s, w, extra, pow2(s - w));
        // ranges that put scale * p on the threshold
        for pr in [1u128, 2, 3] {
            let thr = pow2(s - w);
            for d in [0u128, 1, 2] {
                let sc = (thr + pr - 1) / pr + d;
                rs.push(((sc.saturating_sub(1)) << p) & mask(s));
                rs.push(((sc << p) | (pow2(p) - 1)) & mask(s));
            }
        }
        rs.retain(|&x| x >= pow2(s - w));
        rs.sort();
        rs.dedup();
        let mw = mask(w);
        let fs = vec![0, 1, mw - 1, mw];
        out.push(format!("rangesweep {:x} {:x} {:x} {:x} {} {} {}", w, s, b, p, show_list(los.clone()), show_list(rs.clone()), show_list(fs)));
        // decoder: points around lower, lower + range
        let mut pts = lattice(rng, s, w, extra, 0);
        let cdf = gen_cdf(rng, p);
        for &lo in los.iter().take(6) {
            for &r in rs.iter().take(6) {
                for d in [0u128, 1] {
                    pts.push(lo.wrapping_add(r).wrapping_sub(d) & mask(s));
                    pts.push(lo.wrapping_add(d) & mask(s));
                }
            }
        }
        pts.sort();
        pts.dedup();
        out.push(format!("rangedecsweep {:x} {:x} {:x} {:x} {} {} {} {}", w, s, b, p, show_list(los), show_list(rs), show_list(pts), show_list(cdf)));
    }
}

/// steer the live encoder into the inverted situation (words held back); returns the ops
fn steer_inverted<C: RangeCombo>(rng: &mut Rng, e: &mut Enc<C>, w: u32, s: u32, bps: &[(u32, Vec<u32>)], max_steps: usize, ops: &mut Vec<(u32, u32, Vec<u128>, usize)>) -> bool {
    let (b, ps) = bps.last().unwrap();
    let (b, p) = (*b, *ps.last().unwrap());
    for _ in 0..max_steps {
        if enc_view::<C>(e).2 {
            return true;
        }
        let md = rng.next() % 3;
        let (cdf, sym) = steer_mode::<C>(rng, e, w, s, p, &[], b, Some(md));
        if !matches!(guarded(|| C::enc_sym(e, b, p, &cdf, sym)), Ok(Some(ref x)) if x == "ok") {
            return false;
        }
        ops.push((b, p, cdf, sym));
    }
    enc_view::<C>(e).2
}

/// `clear()` at an arbitrary point — preferably while words are held back — then a fresh message
/// on the reused encoder, with everything observable about it
fn gen_clear_line<C: RangeCombo>(rng: &mut Rng, w: u32, s: u32, bps: &[(u32, Vec<u32>)]) -> String {
    let mut e: Enc<C> = RangeEncoder::new();
    let mut line = format!("range {:x} {:x} | new", w, s);
    let mut ops = Vec::new();
    if rng.chance(3, 4) {
        steer_inverted::<C>(rng, &mut e, w, s, bps, 12, &mut ops);
    } else {
        for _ in 0..(rng.next() % 6) {
            let (b, p) = pick_bp(rng, bps);
            let (cdf, sym) = steer::<C>(rng, &e, w, s, p, &[], b);
            if matches!(guarded(|| C::enc_sym(&mut e, b, p, &cdf, sym)), Ok(Some(ref x)) if x == "ok") {
                ops.push((b, p, cdf, sym));
            }
        }
    }
    for (b, p, cdf, sym) in &ops {
        line.push_str(&format!(" | enc {:x} {:x} {:x} {:x}", b, p, cdf[*sym], cdf[*sym + 1] - cdf[*sym]));
    }
    line.push_str(" | raw | snap | clear | raw | empty | nw | nb | getc | export | spec | pos");
    e.clear();
    let mut encoded: Vec<(u32, u32, Vec<u128>)> = Vec::new();
    for _ in 0..(rng.next() % 8) {
        let (b, p) = pick_bp(rng, bps);
        let (cdf, sym) = steer::<C>(rng, &e, w, s, p, &[], b);
        if !matches!(guarded(|| C::enc_sym(&mut e, b, p, &cdf, sym)), Ok(Some(ref x)) if x == "ok") {
            break;
        }
        line.push_str(&format!(" | enc {:x} {:x} {:x} {:x}", b, p, cdf[sym], cdf[sym + 1] - cdf[sym]));
        encoded.push((b, p, cdf));
        if rng.chance(1, 6) {
            line.push_str(" | raw | clear | raw");
            e.clear();
            encoded.clear();
        }
    }
    line.push_str(" | raw | nw | export | spec");
    if !encoded.is_empty() {
        line.push_str(&format!(" | decoder {}", triples_str(&encoded)));
    }
    line.push_str(" | intodec");
    for (b, p, cdf) in &encoded {
        line.push_str(&format!(" | dec {:x} {:x} {}", b, p, show_list(cdf.clone())));
    }
    line.push_str(" | exhausted | raw");
    line
}

fn gen_combo<C: RangeCombo>(rng: &mut Rng, w: u32, s: u32, bps: &[(u32, Vec<u32>)], n_enc: usize, n_dec: usize, out: &mut Vec<String>) {
    for _ in 0..n_enc / 6 {
        out.push(gen_clear_line::<C>(rng, w, s, bps));
    }
    // threshold regime (most relevant for State > 2·Word, harmless elsewhere)
    for _ in 0..(if s > 2 * w { n_enc / 4 } else { n_enc / 16 }) {
        out.push(gen_threshold_line::<C>(rng, w, s, bps));
    }
    for i in 0..n_enc {
        let maxlen = if i % 8 == 0 { 60 } else { 24 };
        out.push(gen_enc_history::<C>(rng, w, s, bps, maxlen));
    }
    for _ in 0..n_dec {
        out.push(gen_dec_history::<C>(rng, w, s, bps));
    }
}

/// byte-exact example of README-rust.md (range coding): five Gaussian-quantised symbols with
/// the crate's own `DefaultLeakyQuantizer` at PRECISION 24 must give `[0x1C31EFEB, 0x87B430DA]`;
/// passed numerically, checked against the implementation (`expect`), the reference (`spec`)
/// and decoded again by seeking to the start
pub fn doc_vectors() -> Vec<String> {
    use constriction::stream::model::{DefaultLeakyQuantizer, EncoderModel};
    use probability::distribution::Gaussian;
    let symbols = [23i32, -15, 78, 43, -69];
    let means = [35.2, -1.7, 30.1, 71.2, -75.1];
    let stds = [10.1, 25.3, 23.8, 35.4, 3.9];
    let quantizer = DefaultLeakyQuantizer::new(-100..=100);
    let mut line = String::from("range 20 40 | new");
    let mut decs = String::new();
    for i in 0..5 {
        let m = quantizer.quantize(Gaussian::new(means[i], stds[i]));
        let (c, p) = EncoderModel::<24>::left_cumulative_and_probability(&m, symbols[i]).unwrap();
        let (c, p) = (c as u128, p.get() as u128);
        line.push_str(&format!(" | enc 20 18 {:x} {:x}", c, p));
        let (cdf, _) = cdf_around(24, c, c + p);
        decs.push_str(&format!(" | dec 20 18 {}", show_list(cdf)));
    }
    line.push_str(" | expect 1c31efeb,87b430da | export | spec | nw | intodec");
    line.push_str(&decs);
    line.push_str(" | exhausted");
    vec![line]
}

/// `num_inverted` at the top of `usize`: `pos()`, `num_words()`, `num_bits()` overflow, a further
/// renormalisation while inverted wraps the counter (`expect` panics).  No op that would flush the
/// held-back words is used (that would write 2^64 words).
fn gen_usize_edges(out: &mut Vec<String>) {
    out.push("range 8 10 | raw - e500 6400 ffffffffffffffff 7e | raw | nw".into());
    out.push("range 8 10 | raw 5 e500 6400 ffffffffffffffff 7e | pos".into());
    out.push("range 8 10 | raw - e500 6400 10000000000000000 7e | raw".into());
    for (w, s, bps) in combos() {
        // a (B, 1) pair exists for every combination
        let b = bps.iter().find(|(_, ps)| ps.contains(&1)).map(|(b, _)| *b).unwrap();
        let u = pow2(s - w);
        let lower = mask(s) - u / 2; // 2^S - U/2 - 1: the symbol [1, 2) at P = 1 straddles 2^S
        for n in [u64::MAX as u128, u64::MAX as u128 - 1, u64::MAX as u128 - 2] {
            for tail in ["nw | nb | pos", "pos | nw", "nb", "snap | empty"] {
                out.push(format!(
                    "range {:x} {:x} | raw 1,2 {:x} {:x} {:x} 7e | raw | empty | enc {:x} 1 1 1 | raw | empty | {}",
                    w, s, lower, u, n, b, tail
                ));
                out.push(format!("range {:x} {:x} | raw - {:x} {:x} {:x} 7e | {} | raw", w, s, lower, u, n, tail));
            }
        }
    }
}

pub fn gen(rng: &mut Rng, tier: &str, out: &mut Vec<String>) {
    let (n_enc, n_dec) = if tier == "thorough" { (5000, 1600) } else { (260, 90) };
    out.extend(doc_vectors());
    gen_usize_edges(out);
    // tables that violate the hypothesis of the table round-trip theorem are refused
    out.push("rangedec 8 10 | words 12,34 | dec 8 8 0,80,80,100 | raw".into());
    out.push("rangedec 8 10 | words 12,34 | dec 8 8 0,100 | raw".into());
    out.push("range 8 10 | new | enc 8 8 0 80 | decoder 8 8 0,80,100 8 8 1,80,100 | raw".into());
    // P == W, first symbol of one quantum: `range` is 2^(S-W) - 1 before the first renormalisation
    // (probabilities 1,3,100,152 resp. 1,257,20000,45278; message 0 1 0 0)
    out.push("range 8 20 | new | enc 8 8 0 1 | raw | enc 8 8 1 3 | raw | enc 8 8 0 1 | raw | enc 8 8 0 1 | raw | export | spec | intodec | dec 8 8 0,1,4,68,100 | dec 8 8 0,1,4,68,100 | dec 8 8 0,1,4,68,100 | dec 8 8 0,1,4,68,100 | exhausted".into());
    out.push("range 10 40 | new | enc 10 10 0 1 | raw | enc 10 10 1 101 | raw | enc 10 10 0 1 | raw | enc 10 10 0 1 | raw | export | spec | intodec | dec 10 10 0,1,102,4f22,10000 | dec 10 10 0,1,102,4f22,10000 | dec 10 10 0,1,102,4f22,10000 | dec 10 10 0,1,102,4f22,10000 | exhausted".into());
    out.push("range 8 40 | new | enc 8 8 ff 1 | raw | enc 8 8 0 1 | raw | enc 8 8 80 2 | raw | export | spec".into());
    out.push("range 20 80 | new | enc 20 20 0 1 | raw | enc 20 20 ffffffff 1 | raw | enc 20 20 1 3 | raw | export | spec".into());
    gen_sweeps(rng, tier, out);
    // a malformed line and glue cases
    out.push("range 8 10 | new | frobnicate".into());
    out.push("range 8 10 | new | export | nw | nb | empty | getc | decoder | pos | spec | intodec | exhausted | raw".into());
    out.push("rangedec 8 10 | words - | exhausted | raw | seek 0 0 ffff | seek 1 0 ffff".into());
    for (w, s, bps) in combos() {
        match (w, s) {
            (8, 16) => gen_combo::<C8x16>(rng, w, s, &bps, n_enc, n_dec, out),
            (8, 32) => gen_combo::<C8x32>(rng, w, s, &bps, n_enc, n_dec, out),
            (8, 64) => gen_combo::<C8x64>(rng, w, s, &bps, n_enc, n_dec, out),
            (16, 32) => gen_combo::<C16x32>(rng, w, s, &bps, n_enc, n_dec, out),
            (16, 64) => gen_combo::<C16x64>(rng, w, s, &bps, n_enc, n_dec, out),
            (32, 64) => gen_combo::<C32x64>(rng, w, s, &bps, n_enc, n_dec, out),
            (32, 128) => gen_combo::<C32x128>(rng, w, s, &bps, n_enc, n_dec, out),
            (64, 128) => gen_combo::<C64x128>(rng, w, s, &bps, n_enc, n_dec, out),
            _ => {}
        }
    }
}

/// class of the pre-renormalisation range `r1 = (range >> P) * p` relative to the threshold
/// `U = 2^(S-W)` (`None`: nowhere near)
fn threshold_class(r1: u128, w: u32, s: u32) -> Option<&'static str> {
    let u = 1u128 << (s - w);
    let v = if s > 2 * w { 1u128 << (s - 2 * w) } else { 1 };
    if r1 + 1 == u {
        Some("r1=U-1")
    } else if r1 == u {
        Some("r1=U")
    } else if r1 == u + 1 {
        Some("r1=U+1")
    } else if r1 < u && r1 + v > u {
        Some("r1.in.(U-2^(S-2W),U)")
    } else if r1 > u && r1 < u + v {
        Some("r1.in.(U,U+2^(S-2W))")
    } else {
        None
    }
}

/// messages in the threshold regime for the correspondence: `P == W` (or the largest available
/// precision), a first symbol of one quantum (so that `range` becomes `2^(S-W) - 1` before the
/// first renormalisation), then symbols steered onto the threshold classes
fn gen_threshold_line<C: RangeCombo>(rng: &mut Rng, w: u32, s: u32, bps: &[(u32, Vec<u32>)]) -> String {
    let (b, ps) = bps.last().unwrap();
    let (b, p) = (*b, *ps.last().unwrap());
    let total = pow2(p);
    let mut e: Enc<C> = RangeEncoder::new();
    let mut line = format!("range {:x} {:x} | new", w, s);
    let mut encoded: Vec<(u32, u32, Vec<u128>)> = Vec::new();
    let n = 2 + rng.next() % 7;
    for i in 0..n {
        let (cdf, sym) = if i == 0 && rng.chance(3, 4) {
            let a = match rng.next() % 3 { 0 => 0, 1 => total - 1, _ => rng.below(total) };
            cdf_around(p, a, a + 1)
        } else {
            let mode = match rng.next() % 4 { 0 | 1 => Some(8), 2 => Some(4), _ => Some(5) };
            steer_mode::<C>(rng, &e, w, s, p, &[], b, mode)
        };
        if !matches!(guarded(|| C::enc_sym(&mut e, b, p, &cdf, sym)), Ok(Some(ref x)) if x == "ok") {
            break;
        }
        line.push_str(&format!(" | enc {:x} {:x} {:x} {:x}", b, p, cdf[sym], cdf[sym + 1] - cdf[sym]));
        if rng.chance(1, 3) {
            line.push_str(" | raw | export | spec");
        }
        encoded.push((b, p, cdf));
    }
    line.push_str(" | raw | nw | export | spec | intodec");
    for (b, p, cdf) in &encoded {
        line.push_str(&format!(" | dec {:x} {:x} {}", b, p, show_list(cdf.clone())));
    }
    line.push_str(" | exhausted | raw");
    line
}

// ---------------------------------------------------------------------------------------
// boundary hunt: final encoder states whose interval ends sit on / next to word boundaries

/// classes of a final state `(lower, range)`: residues of the interval ends modulo `2^(S-W)`
/// and the relation of the point word to the upper word
fn boundary_classes(lower: u128, range: u128, w: u32, s: u32) -> Vec<&'static str> {
    let m = mask(s);
    let u = 1u128 << (s - w);
    let up = lower.wrapping_add(range) & m;
    let (ur, lr) = (up & (u - 1), lower & (u - 1));
    let mut v = Vec::new();
    if ur == 0 { v.push("up=0"); }
    if ur == 1 { v.push("up=1"); }
    if ur == 2 { v.push("up=2"); }
    if ur == u - 1 { v.push("up=-1"); }
    if ur == u - 2 { v.push("up=-2"); }
    if lr == 0 { v.push("lo=0"); }
    if lr == 1 { v.push("lo=1"); }
    if lr == u - 1 { v.push("lo=-1"); }
    // two seal words (point word = upper word) with the upper end next to a boundary: the
    // configurations in which the zero word decides whether a suffix can leave the interval
    let pw = (lower.wrapping_add(u - 1) & m) >> (s - w);
    if pw == up >> (s - w) {
        if ur == u - 1 { v.push("2words&up=-1"); }
        if ur == u - 2 { v.push("2words&up=-2"); }
        if ur == 1 { v.push("2words&up=1"); }
        if ur == 2 { v.push("2words&up=2"); }
    } else {
        if ur == 0 { v.push("1word&up=0"); }
        if ur == 1 { v.push("1word&up=1"); }
        if ur == u - 1 { v.push("1word&up=-1"); }
    }
    if s > 2 * w {
        let z = 1u128 << (s - 2 * w);
        if ur < z { v.push("up.lowzone"); }
        if ur >= u - z { v.push("up.highzone"); }
        if lr < z { v.push("lo.lowzone"); }
        if lr >= u - z { v.push("lo.highzone"); }
    }
    v
}

fn word_relation(lower: u128, range: u128, w: u32, s: u32) -> &'static str {
    let m = mask(s);
    let u = 1u128 << (s - w);
    let pw = (lower.wrapping_add(u - 1) & m) >> (s - w);
    let uw = (lower.wrapping_add(range) & m) >> (s - w);
    if pw == uw { "pointword=upperword" } else if (pw + 1) & mask(w) == uw { "pointword+1=upperword" } else { "pointword<<upperword" }
}

/// solutions of `a * q ≡ rhs (mod 2^k)` as `(q0, step)`: `q ≡ q0 (mod step)`
fn solve_lin(a: u128, rhs: u128, k: u32) -> Option<(u128, u128)> {
    if k == 0 {
        return Some((0, 1));
    }
    let mm = mask(k);
    let (a, r) = (a & mm, rhs & mm);
    if a == 0 {
        return if r == 0 { Some((0, 1)) } else { None };
    }
    let v = a.trailing_zeros();
    if r & ((1u128 << v) - 1) != 0 {
        return None;
    }
    let (a1, r1, k1) = (a >> v, r >> v, k - v);
    let mut x = a1;
    for _ in 0..7 {
        x = x.wrapping_mul(2u128.wrapping_sub(a1.wrapping_mul(x)));
    }
    Some((r1.wrapping_mul(x) & mask(k1), 1u128 << k1))
}

/// up to three members of `{q ≡ q0 (mod step)} ∩ [lo, hi]`
fn in_range(rng: &mut Rng, sol: Option<(u128, u128)>, lo: u128, hi: u128) -> Vec<u128> {
    let mut v = Vec::new();
    if let Some((q0, step)) = sol {
        if lo > hi {
            return v;
        }
        let first = if q0 >= lo { q0 } else { q0 + (lo - q0 + step - 1) / step * step };
        if first > hi {
            return v;
        }
        let count = (hi - first) / step + 1;
        v.push(first);
        v.push(first + (count - 1) * step);
        v.push(first + rng.below(count) * step);
        v.dedup();
    }
    v
}

/// candidate `(cum, q)` (`q = cum + p`) for the last symbol, aiming the interval ends at word
/// boundaries without renormalising
fn final_candidates(rng: &mut Rng, lower: u128, range: u128, w: u32, s: u32, p: u32) -> Vec<(u128, u128)> {
    let total = pow2(p);
    let scale = range >> p;
    let mut out: Vec<(u128, u128)> = Vec::new();
    if scale == 0 {
        return out;
    }
    let u = 1u128 << (s - w);
    let k = s - w;
    let pmin = ((u + scale - 1) / scale).max(1); // smallest p without renormalisation
    if pmin > total {
        return out;
    }
    let up_targets = [0u128, 1, 2, u - 1, u - 2];
    let lo_targets = [0u128, 1, u - 1];
    let mut cums: Vec<u128> = vec![0];
    for &t in &lo_targets {
        let sol = solve_lin(scale, t.wrapping_sub(lower), k);
        cums.extend(in_range(rng, sol, 0, total - pmin));
    }
    // nearest candidates around the next boundaries (exact solutions are rare for S > 2W)
    let d0 = u - (lower & (u - 1));
    let span = scale * total;
    let mut d = d0;
    let mut near_q: Vec<u128> = Vec::new();
    let mut nb = 0;
    while d <= span && nb < 3 {
        near_q.push((d - 1) / scale);
        near_q.push((d + scale - 1) / scale);
        if (d - 1) / scale <= total - pmin {
            cums.push((d - 1) / scale);
        }
        if (d + scale - 1) / scale <= total - pmin {
            cums.push((d + scale - 1) / scale);
        }
        d += u;
        nb += 1;
    }
    let mut qs: Vec<u128> = Vec::new();
    for &t in &up_targets {
        let sol = solve_lin(scale, t.wrapping_sub(lower), k);
        qs.extend(in_range(rng, sol, pmin, total));
    }
    qs.extend(near_q.into_iter().filter(|&q| q >= pmin && q <= total));
    for &q in &qs {
        out.push((0, q));
        out.push((q - pmin, q));
        out.push((rng.below(q - pmin + 1), q));
        for &c in &cums {
            if c + pmin <= q {
                out.push((c, q));
            }
        }
    }
    for &c in &cums {
        if c + pmin <= total {
            out.push((c, c + pmin));
            out.push((c, total));
            out.push((c, c + pmin + rng.below(total - c - pmin + 1)));
        }
    }
    out.retain(|&(c, q)| c < q && q <= total && !(c == 0 && q == total));
    out
}

const HUNT_CLASSES: [&str; 19] = [
    "up=0", "up=1", "up=2", "up=-1", "up=-2", "lo=0", "lo=1", "lo=-1",
    "2words&up=-1", "2words&up=-1", "2words&up=-2", "2words&up=1", "2words&up=2", "1word&up=0", "1word&up=-1",
    "up.lowzone", "up.highzone", "lo.lowzone", "lo.highzone",
];

/// the last symbol of a hunted message: tries the candidates on clones of the live encoder and
/// returns one whose final state falls into the wanted class (or any class, or `None`)
fn pick_hunt_class(rng: &mut Rng, w: u32, s: u32) -> &'static str {
    let nclass = if s > 2 * w { HUNT_CLASSES.len() } else { 15 };
    HUNT_CLASSES[rng.below(nclass as u128) as usize]
}

fn hunt_final<C: RangeCombo>(rng: &mut Rng, e: &Enc<C>, w: u32, s: u32, b: u32, p: u32, budget: usize, want: &'static str) -> Option<(Vec<u128>, usize, bool)> {
    let (lower, range, _) = enc_view::<C>(e);
    let mut cands = final_candidates(rng, lower, range, w, s, p);
    for i in (1..cands.len()).rev() {
        let j = rng.below(i as u128 + 1) as usize;
        cands.swap(i, j);
    }
    let mut fallback: Option<(Vec<u128>, usize)> = None;
    for &(cum, q) in cands.iter().take(budget) {
        let (cdf, sym) = cdf_around(p, cum, q);
        let mut e2 = e.clone();
        if !matches!(guarded(|| C::enc_sym(&mut e2, b, p, &cdf, sym)), Ok(Some(ref x)) if x == "ok") {
            continue;
        }
        let (lo2, r2, _) = enc_view::<C>(&e2);
        let cl = boundary_classes(lo2, r2, w, s);
        if cl.contains(&want) {
            return Some((cdf, sym, true));
        }
        if !cl.is_empty() && fallback.is_none() {
            fallback = Some((cdf, sym));
        }
    }
    fallback.map(|(c, sy)| (c, sy, false))
}

/// the symbol before the last one of a hunted message: prefers a choice after which
/// `hunt_final` succeeds
fn hunt_prep<C: RangeCombo>(rng: &mut Rng, e: &Enc<C>, w: u32, s: u32, b: u32, p: u32, pool: &[(u32, u32, Vec<u128>)], want: &'static str) -> (Vec<u128>, usize) {
    let mut last = steer::<C>(rng, e, w, s, p, pool, b);
    let mut some: Option<(Vec<u128>, usize)> = None;
    for _ in 0..10 {
        let mode = match rng.next() % 3 { 0 => Some(7), 1 => Some(4), _ => None };
        let (cdf, sym) = steer_mode::<C>(rng, e, w, s, p, pool, b, mode);
        let mut e2 = e.clone();
        if matches!(guarded(|| C::enc_sym(&mut e2, b, p, &cdf, sym)), Ok(Some(ref x)) if x == "ok") {
            match hunt_final::<C>(rng, &e2, w, s, b, p, 12, want) {
                Some((_, _, true)) => return (cdf, sym),
                Some(_) if some.is_none() => some = Some((cdf.clone(), sym)),
                _ => {}
            }
        }
        last = (cdf, sym);
    }
    some.unwrap_or(last)
}
