pub fn oracle(_rng: &mut Rng, _tier: &str, _rep: &mut Report) {}
