// ---------------------------------------------------------------------------------------
// implementation-level oracles (included into backend.rs); no reference to the Lean model:
// every expectation is computed from the trait contracts (C17) on the real objects.

/// a live backend plus the replay text of everything done to it so far
struct Obj<W: Wd> {
    b: Option<Box<dyn Dyn<W>>>,
    desc: String,
}

impl<W: Wd> Obj<W> {
    fn new(kind: &str, w: u32, init: &str) -> Option<Self> {
        let seg: Vec<&str> = init.split(' ').collect();
        match do_init::<W>(kind, &seg) {
            Init::Ok(b) => Some(Obj { b: Some(b), desc: format!("{} {:x} | {}", kind, w, init) }),
            _ => None,
        }
    }
    fn op(&mut self, op: Op<W>) -> String {
        self.desc.push_str(" | ");
        self.desc.push_str(&show_op(&op));
        // breadcrumb: if the real code aborts (std's UB checks do not unwind), `check` reports this line
        set_case(&self.desc);
        match self.b.take() {
            None => "dead".into(),
            Some(b) => match guarded(move || b.op(&op)) {
                Ok((s, nb)) => {
                    self.b = Some(nb);
                    s
                }
                Err(class) => class.into(),
            },
        }
    }
    fn dup(&self) -> Obj<W> {
        Obj { b: self.b.as_ref().map(|b| b.dup()), desc: format!("{} | (clone)", self.desc) }
    }
    /// `(tag, words, number)` of the `raw` dump
    fn raw(&mut self) -> (String, Vec<u128>, u128) {
        let s = self.op(Op::Raw);
        let t: Vec<&str> = s.split(' ').collect();
        if t.len() == 3 {
            (t[0].to_string(), parse_list(t[1]).unwrap_or_default(), parse_hex(t[2]).unwrap_or(0))
        } else {
            (s.clone(), vec![], 0)
        }
    }
}

const RW_KINDS: [&str; 6] = [
    "backend.cursor-owned", "backend.cursor-box", "backend.cursor-mut",
    "backend.rev-cursor", "backend.rev-cursor-box", "backend.rev-cursor-mut",
];

fn rand_cursor_init(rng: &mut Rng, w: u32) -> (String, usize, usize) {
    let len = (rng.next() % 9) as usize;
    let pos = match rng.next() % 5 {
        0 => 0,
        1 => len,
        _ => rng.below(len as u128 + 1) as usize,
    };
    (format!("at {} {:x}", show_list(gen_ws(rng, w, len)), pos), len, pos)
}

fn rand_op_parsed<W: Wd>(rng: &mut Rng, w: u32, class: u32, lenhint: usize) -> Op<W> {
    let s = random_op(rng, w, class, lenhint);
    let seg: Vec<&str> = s.split(' ').collect();
    parse_op::<W>(&seg).expect("generated op parses")
}

/// free space of a cursor computed from its dump (not from `space_left`)
fn free_of(tag: &str, len: usize, pos: usize) -> usize {
    if tag == "rev" { pos } else { len - pos }
}

/// The `ReadWords` contract on an arbitrary iterator (C17): reads return `expect` in order (an
/// `Err` item surfaces once as a read error / as itself and does not end the stream), then
/// `Ok(None)` forever; and whenever `maybe_exhausted()` says `false` the next read is not `Ok(None)`.
fn check_iter_contract<W: Wd, I>(kind: &str, it: I, expect: &[Result<W, ()>], describe: &str, rng: &mut Rng, rep: &mut Report)
where
    I: Iterator<Item = Result<W, ()>> + Clone,
{
    rep.count(&format!("C17.iter.{}", kind));
    let extra = 3;
    for fallible in [true, false] {
        let desc = format!(
            "iter-adapter kind={} adapter={} expected-items={} ({})",
            kind,
            if fallible { "FallibleIteratorReadWords" } else { "InfallibleIteratorReadWords" },
            show_items(expect),
            describe
        );
        set_case(&desc);
        let mut fa = FallibleIteratorReadWords::new(it.clone());
        let mut ia = InfallibleIteratorReadWords::new(it.clone());
        let mut trace = String::new();
        for i in 0..expect.len() + extra {
            let stack = rng.chance(1, 2);
            type Wr<W> = Result<W, ()>;
            // what the adapter claims, then what it does
            let (maybe, got): (bool, String) = if fallible {
                if stack {
                    let m = <_ as ReadWords<W, Stack>>::maybe_exhausted(&fa);
                    (m, match <_ as ReadWords<W, Stack>>::read(&mut fa) { Ok(o) => show_word(o), Err(()) => "readerr".into() })
                } else {
                    let m = <_ as ReadWords<W, Queue>>::maybe_exhausted(&fa);
                    (m, match <_ as ReadWords<W, Queue>>::read(&mut fa) { Ok(o) => show_word(o), Err(()) => "readerr".into() })
                }
            } else if stack {
                let m = <_ as ReadWords<Wr<W>, Stack>>::maybe_exhausted(&ia);
                (m, match <_ as ReadWords<Wr<W>, Stack>>::read(&mut ia).unwrap() { Some(x) => show_item(&x), None => "none".into() })
            } else {
                let m = <_ as ReadWords<Wr<W>, Queue>>::maybe_exhausted(&ia);
                (m, match <_ as ReadWords<Wr<W>, Queue>>::read(&mut ia).unwrap() { Some(x) => show_item(&x), None => "none".into() })
            };
            let sem = if stack { "s" } else { "q" };
            trace.push_str(&format!(" | maybe_exhausted_{}={} read_{}={}", sem, maybe, sem, got));
            let want = match expect.get(i) {
                Some(Ok(x)) => hex(to_u128(*x)),
                Some(Err(())) => if fallible { "readerr".to_string() } else { "x".to_string() },
                None => "none".to_string(),
            };
            rep.eval("C17");
            if !maybe && got == "none" {
                rep.fail("C17", format!("{}{} => maybe_exhausted() returned false but the next read() returned Ok(None)", desc, trace));
                break;
            }
            rep.eval("C17");
            if got != want {
                rep.fail("C17", format!("{}{} => step {}: read {} expected {} (items in order, Err items once, then end-of-data forever)", desc, trace, i, got, want));
                break;
            }
        }
    }
}

/// class "iterators whose size_hint is not exact"
fn oracle_inexact_iters<W: Wd>(rng: &mut Rng, w: u32, rep: &mut Report) {
    let wd = |x: u128| -> W { from_u128::<W>(x) };
    // ---- protocol-expressible: hand-written iterator with a legal loose hint / no upper bound
    {
        let n = (rng.next() % 7) as usize;
        let script = gen_script(rng, w, n);
        let fallible = rng.chance(1, 2);
        let lo = rng.below(3);
        let (hi, kind) = if rng.chance(1, 3) { ("inf".to_string(), "no-upper-bound") } else { (format!("{:x}", rng.below(4)), "loose-hint") };
        rep.count(&format!("C17.iter.{}", kind));
        let mut o = Obj::<W>::new(
            "backend.iter",
            w,
            &format!("{}-loose {} {:x} {}", if fallible { "fallible" } else { "infallible" }, script, lo, hi),
        )
        .unwrap();
        let toks: Vec<&str> = if script == "-" { vec![] } else { script.split(',').collect() };
        let mut expect: Vec<String> = Vec::new();
        for t in &toks {
            if *t == "_" {
                break;
            }
            expect.push(if *t == "x" { if fallible { "readerr".into() } else { "x".into() } } else { t.to_string() });
        }
        for i in 0..toks.len() + 3 {
            let stack = rng.chance(1, 2);
            let m = o.op(if stack { Op::ExhS } else { Op::ExhQ });
            let r = o.op(if stack { Op::ReadS } else { Op::ReadQ });
            let e = expect.get(i).cloned().unwrap_or("none".into());
            rep.eval("C17");
            if m == "false" && r == "none" {
                rep.fail("C17", format!("{} => maybe_exhausted() returned false but the next read() returned Ok(None)", o.desc));
                break;
            }
            rep.eval("C17");
            if r != e {
                rep.fail("C17", format!("{} => read {} expected {} (in order, Err once, then end-of-data forever)", o.desc, r, e));
                break;
            }
        }
    }
    // ---- std adaptors whose upper bound exceeds what they yield
    let len = (rng.next() % 7) as usize;
    let base: Vec<Result<W, ()>> = (0..len).map(|_| if rng.chance(1, 8) { Err(()) } else { Ok(wd(gen_word(rng, w))) }).collect();
    let k = rng.below(len as u128 + 2) as usize;
    let params = format!("base={} k={:x} W={}", show_items(&base), k, w);
    let first_k: Vec<Result<W, ()>> = base.iter().take(k).cloned().collect();
    {
        let mut c = 0usize;
        let it = base.clone().into_iter().take_while(move |_| {
            c += 1;
            c <= k
        });
        check_iter_contract("take_while", it, &first_k, &params, rng, rep);
    }
    {
        let mut c = 0usize;
        let it = base.clone().into_iter().map_while(move |x| {
            c += 1;
            if c <= k { Some(x) } else { None }
        });
        check_iter_contract("map_while", it, &first_k, &params, rng, rep);
    }
    {
        let it = base.clone().into_iter().scan(0usize, move |c, x| {
            *c += 1;
            if *c <= k { Some(x) } else { None }
        });
        check_iter_contract("scan", it, &first_k, &params, rng, rep);
    }
    {
        // keep every second item
        let mut c = 0usize;
        let it = base.clone().into_iter().filter(move |_| {
            c += 1;
            c % 2 == 1
        });
        let want: Vec<Result<W, ()>> = base.iter().step_by(2).cloned().collect();
        check_iter_contract("filter", it, &want, &params, rng, rep);
    }
    {
        // `from_fn` knows nothing about its length; `take(n)` then claims "at most n"
        let items = base.clone();
        let mut i = 0usize;
        let n = k + (rng.next() % 3) as usize;
        let it = std::iter::from_fn(move || {
            i += 1;
            items.get(i - 1).cloned()
        })
        .take(n);
        let want: Vec<Result<W, ()>> = base.iter().take(n).cloned().collect();
        check_iter_contract("from_fn_take", it, &want, &format!("{} n={:x}", params, n), rng, rep);
    }
    {
        // unbounded hint: `from_fn` alone is `(0, None)`
        let items = base.clone();
        let mut i = 0usize;
        let it = std::iter::from_fn(move || {
            i += 1;
            items.get(i - 1).cloned()
        });
        check_iter_contract("from_fn", it, &base, &params, rng, rep);
    }
    {
        let mut c = 0usize;
        let a = base.clone().into_iter().take_while(move |_| {
            c += 1;
            c <= k
        });
        let b = base.clone().into_iter().filter(|x| x.is_ok());
        let mut want = first_k.clone();
        want.extend(base.iter().filter(|x| x.is_ok()).cloned());
        check_iter_contract("chain", a.chain(b), &want, &params, rng, rep);
    }
    {
        let mut c = 0usize;
        let mut it = base
            .clone()
            .into_iter()
            .take_while(move |_| {
                c += 1;
                c <= k
            })
            .peekable();
        if rng.chance(1, 2) {
            let _ = it.peek();
        }
        check_iter_contract("peekable", it, &first_k, &params, rng, rep);
    }
    {
        // exact-size control group: the plain vector iterator
        check_iter_contract("vec_into_iter", base.clone().into_iter(), &base, &params, rng, rep);
    }
}

fn oracle_w<W: Wd>(rng: &mut Rng, w: u32, iters: usize, rep: &mut Report) {
    let wd = |x: u128| -> W { from_u128::<W>(x) };
    for it in 0..iters {
        // ------------------------------------------------------------------ iterators with inexact size hints
        oracle_inexact_iters::<W>(rng, w, rep);
        // ------------------------------------------------------------------ LIFO
        {
            let kinds = ["backend.vec", "backend.smallvec", RW_KINDS[0], RW_KINDS[1], RW_KINDS[2], RW_KINDS[3], RW_KINDS[4], RW_KINDS[5]];
            let kind = *rng.pick(&kinds);
            let is_stack = kind == "backend.vec" || kind == "backend.smallvec";
            let init = if is_stack {
                let n = (rng.next() % 7) as usize;
                format!("data {}", show_list(gen_ws(rng, w, n)))
            } else {
                rand_cursor_init(rng, w).0
            };
            let mut o = Obj::<W>::new(kind, w, &init).unwrap();
            // wander to an arbitrary reachable state first
            for _ in 0..(rng.next() % 6) {
                let op = rand_op_parsed::<W>(rng, w, if is_stack { 0 } else { 1 }, 8);
                o.op(op);
            }
            let (tag, buf0, n0) = o.raw();
            let free = if is_stack { 6 } else { free_of(&tag, buf0.len(), n0 as usize) };
            let k = rng.below(free as u128 + 1) as usize;
            let ws = gen_ws(rng, w, k);
            let mut ok = true;
            for &x in &ws {
                rep.eval("C17");
                if o.op(Op::Write(wd(x))) != "ok" {
                    rep.fail("C17", format!("{} => write within the free space ({} of {}) did not succeed", o.desc, k, free));
                    ok = false;
                    break;
                }
            }
            if ok {
                for &x in ws.iter().rev() {
                    rep.eval("C17");
                    let r = o.op(Op::ReadS);
                    if r != hex(x) {
                        rep.fail("C17", format!("{} => stack read returned {} expected {:x} (LIFO)", o.desc, r, x));
                        ok = false;
                        break;
                    }
                }
            }
            if ok {
                let (tag1, buf1, n1) = o.raw();
                rep.eval("C17");
                let same = if is_stack { buf1 == buf0 } else { n1 == n0 && buf1.len() == buf0.len() && tag1 == tag };
                if !same {
                    rep.fail("C17", format!("{} => state after k writes and k stack reads is not the state before", o.desc));
                }
                rep.sample("C17", || o.desc.clone());
            }
            rep.count(&format!("C17.lifo.{}", kind));
        }
        // ------------------------------------------------------------------ FIFO (cursors)
        {
            let kind = *rng.pick(&RW_KINDS);
            let (init, _, _) = rand_cursor_init(rng, w);
            let mut o = Obj::<W>::new(kind, w, &init).unwrap();
            for _ in 0..(rng.next() % 6) {
                let op = rand_op_parsed::<W>(rng, w, 1, 8);
                o.op(op);
            }
            let (tag, buf0, n0) = o.raw();
            let free = free_of(&tag, buf0.len(), n0 as usize);
            let k = rng.below(free as u128 + 1) as usize;
            let ws = gen_ws(rng, w, k);
            let p = o.op(Op::Pos);
            let mut ok = true;
            for &x in &ws {
                if o.op(Op::Write(wd(x))) != "ok" {
                    rep.fail("C17", format!("{} => write within the free space did not succeed", o.desc));
                    ok = false;
                    break;
                }
            }
            if ok {
                rep.eval("C17");
                let r = o.op(Op::Seek(parse_hex(&p).unwrap() as usize));
                if r != "ok" {
                    rep.fail("C17", format!("{} => seeking back to a reported position failed", o.desc));
                    ok = false;
                }
            }
            if ok {
                for &x in ws.iter() {
                    rep.eval("C17");
                    let r = o.op(Op::ReadQ);
                    if r != hex(x) {
                        rep.fail("C17", format!("{} => queue read returned {} expected {:x} (FIFO)", o.desc, r, x));
                        break;
                    }
                }
            }
            rep.count(&format!("C17.fifo.{}", kind));
        }
        // ------------------------------------------------------------------ FIFO + fusedness (iterators)
        {
            let n = (rng.next() % 8) as usize;
            let script = gen_script(rng, w, n);
            let fallible = rng.chance(1, 2);
            let mut o = Obj::<W>::new("backend.iter", w, &format!("{} {}", if fallible { "fallible" } else { "infallible" }, script)).unwrap();
            let toks: Vec<&str> = if script == "-" { vec![] } else { script.split(',').collect() };
            let mut expect: Vec<String> = Vec::new();
            for t in &toks {
                if *t == "_" {
                    break;
                }
                expect.push(if *t == "x" { if fallible { "readerr".into() } else { "x".into() } } else { t.to_string() });
            }
            let total = toks.len() + 3;
            for i in 0..total {
                rep.eval("C17");
                let rem = o.op(Op::RemQ);
                let r = if rng.chance(1, 2) { o.op(Op::ReadS) } else { o.op(Op::ReadQ) };
                let e = expect.get(i).cloned().unwrap_or("none".into());
                if r != e {
                    rep.fail("C17", format!("{} => read {} expected {} (in order, then end-of-data forever)", o.desc, r, e));
                    break;
                }
                let erem = expect.len().saturating_sub(i);
                if rem != hex(erem as u128) {
                    rep.fail("C17", format!("{} => remaining {} but {} more reads yield data", o.desc, rem, erem));
                    break;
                }
            }
            rep.count("C17.iter");
        }
        // ------------------------------------------------------------------ fusedness (vec, cursors)
        {
            let all: Vec<&str> = ["backend.vec", "backend.smallvec"].iter().copied().chain(CUR_KINDS.iter().map(|k| k.0)).collect();
            let kind = *rng.pick(&all);
            let is_stack = kind == "backend.vec" || kind == "backend.smallvec";
            let init = if is_stack {
                let n = (rng.next() % 5) as usize;
                format!("data {}", show_list(gen_ws(rng, w, n)))
            } else {
                rand_cursor_init(rng, w).0
            };
            let mut o = Obj::<W>::new(kind, w, &init).unwrap();
            let queue = !is_stack && rng.chance(1, 2);
            let rd = |o: &mut Obj<W>| if queue { o.op(Op::ReadQ) } else { o.op(Op::ReadS) };
            let mut reads = 0;
            while rd(&mut o) != "none" {
                reads += 1;
                if reads > 20 {
                    rep.fail("C17", format!("{} => more reads succeed than the buffer has words", o.desc));
                    break;
                }
            }
            for _ in 0..(1 + rng.next() % 4) {
                rep.eval("C17");
                // queries in between must not revive the source
                if rng.chance(1, 3) {
                    o.op(if queue { Op::RemQ } else { Op::RemS });
                }
                let r = rd(&mut o);
                if r != "none" {
                    rep.fail("C17", format!("{} => read returned {} after end-of-data", o.desc, r));
                    break;
                }
            }
            rep.count(&format!("C17.fused.{}", kind));
        }
        // ------------------------------------------------------------------ remaining / space_left are exact
        {
            let all: Vec<&str> = ["backend.vec", "backend.smallvec"].iter().copied().chain(CUR_KINDS.iter().map(|k| k.0)).collect();
            let kind = *rng.pick(&all);
            let is_stack = kind == "backend.vec" || kind == "backend.smallvec";
            let init = if is_stack {
                let n = (rng.next() % 7) as usize;
                format!("data {}", show_list(gen_ws(rng, w, n)))
            } else {
                rand_cursor_init(rng, w).0
            };
            let mut o = Obj::<W>::new(kind, w, &init).unwrap();
            for _ in 0..(rng.next() % 8) {
                let op = rand_op_parsed::<W>(rng, w, if is_stack { 0 } else { 1 }, 8);
                o.op(op);
            }
            for queue in [false, true] {
                if is_stack && queue {
                    continue;
                }
                let rem = o.op(if queue { Op::RemQ } else { Op::RemS });
                let exh = o.op(if queue { Op::ExhQ } else { Op::ExhS });
                let mut c = o.dup();
                let mut n = 0u128;
                loop {
                    let r = if queue { c.op(Op::ReadQ) } else { c.op(Op::ReadS) };
                    if r == "none" || n > 64 {
                        break;
                    }
                    n += 1;
                }
                rep.eval("C17");
                if rem != hex(n) {
                    rep.fail("C17", format!("{} => remaining_{} = {} but {:x} reads succeed", o.desc, if queue { "q" } else { "s" }, rem, n));
                }
                let e: Vec<&str> = exh.split(' ').collect();
                if e.len() == 2 && (e[0] != format!("{}", n == 0) || (e[1] == "false" && n == 0)) {
                    rep.fail("C17", format!("{} => is_exhausted/maybe_exhausted = {} but {:x} reads succeed", o.desc, exh, n));
                }
            }
            let sl = o.op(Op::SpaceLeft);
            let full = o.op(Op::Full);
            if sl != UNSUP {
                let mut c = o.dup();
                let mut n = 0u128;
                while c.op(Op::Write(wd(0x5a))) == "ok" && n <= 64 {
                    n += 1;
                }
                rep.eval("C17");
                if sl != hex(n) {
                    rep.fail("C17", format!("{} => space_left = {} but {:x} writes succeed", o.desc, sl, n));
                }
                let f: Vec<&str> = full.split(' ').collect();
                if f.len() == 2 && (f[0] != format!("{}", n == 0) || (f[1] == "false" && n == 0)) {
                    rep.fail("C17", format!("{} => is_full/maybe_full = {} but {:x} writes succeed", o.desc, full, n));
                }
                rep.count(&format!("C17.space_left.{}", kind));
            } else if full == "false" {
                rep.eval("C17");
                let mut c = o.dup();
                if c.op(Op::Write(wd(1))) != "ok" {
                    rep.fail("C17", format!("{} => maybe_full = false but the write failed", o.desc));
                }
            }
            rep.count(&format!("C17.remaining.{}", kind));
        }
        // ------------------------------------------------------------------ seek laws
        {
            let all: Vec<&str> = ["backend.vec", "backend.smallvec"].iter().copied().chain(CUR_KINDS.iter().map(|k| k.0)).collect();
            let kind = *rng.pick(&all);
            let is_stack = kind == "backend.vec" || kind == "backend.smallvec";
            let init = if is_stack {
                let n = (rng.next() % 7) as usize;
                format!("data {}", show_list(gen_ws(rng, w, n)))
            } else {
                rand_cursor_init(rng, w).0
            };
            let mut o = Obj::<W>::new(kind, w, &init).unwrap();
            for _ in 0..(rng.next() % 6) {
                let op = rand_op_parsed::<W>(rng, w, if is_stack { 0 } else { 1 }, 8);
                o.op(op);
            }
            let raw0 = o.raw();
            let p = parse_hex(&o.op(Op::Pos)).unwrap();
            rep.eval("C17");
            if o.op(Op::Seek(p as usize)) != "ok" || o.raw() != raw0 {
                rep.fail("C17", format!("{} => seek(pos()) does not restore the state", o.desc));
            }
            let len = raw0.1.len() as u128;
            let q: u128 = match rng.next() % 6 {
                0 => 0,
                1 => len,
                2 => len + 1,
                3 => *rng.pick(&FAR),
                _ => rng.below(len + 3),
            };
            let r = o.op(Op::Seek(q as usize));
            let raw1 = o.raw();
            rep.eval("C17");
            if (r == "ok") != (q <= len) {
                rep.fail("C17", format!("{} => seek {:x} with len {:x} returned {}", o.desc, q, len, r));
            } else if r != "ok" {
                if raw1 != raw0 {
                    rep.fail("C17", format!("{} => a refused seek changed the state", o.desc));
                }
            } else {
                let now = parse_hex(&o.op(Op::Pos)).unwrap();
                let good = if is_stack { raw1.1[..] == raw0.1[..q as usize] && now == q } else { raw1.1 == raw0.1 && now == q };
                if !good {
                    rep.fail("C17", format!("{} => after seek {:x}: pos {:x}, contents changed unexpectedly", o.desc, q, now));
                }
            }
            rep.count(&format!("C17.seek.{}", kind));
        }
        // ------------------------------------------------------------------ into_reversed is observationally a no-op
        {
            let kind = *rng.pick(&RW_KINDS);
            let (init, _, _) = rand_cursor_init(rng, w);
            let mut a = Obj::<W>::new(kind, w, &init).unwrap();
            for _ in 0..(rng.next() % 5) {
                let op = rand_op_parsed::<W>(rng, w, 1, 8);
                a.op(op);
            }
            let mut b = a.dup();
            if b.op(Op::IntoReversed) != "ok" {
                rep.fail("C17", format!("{} => into_reversed failed", b.desc));
            }
            let steps = rng.next() % 26;
            let mut ok = true;
            for _ in 0..steps {
                let op: Op<W> = match rng.next() % 12 {
                    0..=2 => Op::ReadS,
                    3..=5 => Op::ReadQ,
                    6..=7 => Op::Write(wd(gen_word(rng, w))),
                    8 => { let n = (rng.next() % 4) as usize; Op::Extend(gen_ws(rng, w, n).into_iter().map(wd).collect()) }
                    9 => if rng.chance(1, 2) { Op::RemS } else { Op::RemQ },
                    10 => if rng.chance(1, 2) { Op::ExhS } else { Op::ExhQ },
                    _ => if rng.chance(1, 2) { Op::SpaceLeft } else { Op::Full },
                };
                let ra = a.op(op.clone());
                let rb = b.op(op);
                rep.eval("C17");
                if ra != rb {
                    rep.fail("C17", format!("{} => {} on the cursor but {} on its into_reversed twin", a.desc, ra, rb));
                    ok = false;
                    break;
                }
            }
            if ok {
                // positions mirror each other, and reversing back gives the same object
                let (ta, ba, pa) = a.raw();
                let (_, bb, pb) = b.raw();
                rep.eval("C17");
                let mut rev = bb.clone();
                rev.reverse();
                if pa + pb != ba.len() as u128 || rev != ba {
                    rep.fail("C17", format!("{} => twin is not the mirror image: {:?}@{:x} vs {:?}@{:x}", a.desc, ba, pa, bb, pb));
                }
                b.op(Op::IntoReversed);
                if b.raw() != (ta, ba, pa) {
                    rep.fail("C17", format!("{} => into_reversed twice is not the identity", b.desc));
                }
                rep.sample("C17", || b.desc.clone());
            }
            rep.count(&format!("C17.reverse.{}", kind));
        }
        // ------------------------------------------------------------------ C20: buf_mut misuse ends in a value or a panic
        {
            let kind = rng.pick(&CUR_KINDS).0;
            let (init, len, _pos) = rand_cursor_init(rng, w);
            let mut o = Obj::<W>::new(kind, w, &init).unwrap();
            let shrink: Op<W> = if rng.chance(1, 2) {
                Op::BmTruncate(rng.below(len as u128 + 1) as usize)
            } else {
                let n = rng.below(len as u128 + 2) as usize;
                Op::BmSet(gen_ws(rng, w, n).into_iter().map(wd).collect())
            };
            o.op(shrink);
            for _ in 0..6 {
                let op = rand_op_parsed::<W>(rng, w, 1, len);
                let r = o.op(op);
                rep.eval("C20");
                if r.starts_with("panic:") {
                    rep.count("C20.panicked_cleanly");
                    break;
                }
            }
            if it < 3 {
                rep.sample("C20", || o.desc.clone());
            }
        }
        // ------------------------------------------------------------------ views and copies behave like the original
        {
            let kind = rng.pick(&CUR_KINDS).0;
            let writable = kind != "backend.cursor-slice" && kind != "backend.rev-cursor-slice";
            let (init, _, _) = rand_cursor_init(rng, w);
            let mut o = Obj::<W>::new(kind, w, &init).unwrap();
            for _ in 0..(rng.next() % 4) {
                let op = rand_op_parsed::<W>(rng, w, 1, 8);
                o.op(op);
            }
            // the view is a forward cursor over the same words at the same position
            let (_, buf0, pos0) = o.raw();
            let vk = (rng.next() % 3) as u8;
            let vname = ["as_view", "as_mut_view", "cloned"][vk as usize];
            let prog_s = random_prog(rng, w, buf0.len());
            let prog = parse_prog::<W>(&prog_s).unwrap();
            // reference: the same program run step by step on a fresh forward cursor of the kind
            // the view has (`&[W]` for as_view, writable otherwise)
            let ref_kind = if vk == 0 { "backend.cursor-slice" } else { "backend.cursor-owned" };
            let mut reference = Obj::<W>::new(ref_kind, w, &format!("at {} {:x}", show_list(buf0.clone()), pos0)).unwrap();
            let mut expect: Vec<String> = Vec::new();
            for sub in &prog {
                expect.push(reference.op(sub.clone()));
            }
            let got = o.op(Op::View(vk, prog.clone()));
            rep.count(&format!("C17.op.{}", vname));
            if vk == 1 && !writable {
                rep.eval("C17");
                if got != UNSUP {
                    rep.fail("C17", format!("{} => as_mut_view exists on a read-only buffer?", o.desc));
                }
            } else {
                rep.eval("C17");
                if got != show_outs(expect.clone()) {
                    rep.fail("C17", format!("{} => the {} answered {} but a cursor at the same position answers {}", o.desc, vname, got, show_outs(expect)));
                }
                // afterwards: position untouched; words untouched unless written through `as_mut_view`,
                // in which case the parent holds exactly what the view held at the end
                let (_, buf1, pos1) = o.raw();
                let (_, rbuf, _) = reference.raw();
                rep.eval("C17");
                let want = if vk == 1 { rbuf } else { buf0.clone() };
                if pos1 != pos0 || buf1 != want {
                    rep.fail("C17", format!("{} => after the {}: parent {:?}@{:x}, expected {:?}@{:x}", o.desc, vname, buf1, pos1, want, pos0));
                }
            }
        }
        // ------------------------------------------------------------------ constructors and conversion traits
        {
            let len = (rng.next() % 7) as usize;
            let ws = gen_ws(rng, w, len);
            let l = show_list(ws.clone());
            let pos = rng.below(len as u128 + 2);
            let rw = ["backend.cursor-owned", "backend.cursor-box", "backend.cursor-mut", "backend.rev-cursor", "backend.rev-cursor-box", "backend.rev-cursor-mut"];
            let kind = *rng.pick(&rw);
            // `new_at_pos_mut` / `new_at_write_end_mut` = `new_at_pos` / `new_at_write_end`
            let a = Obj::<W>::new(kind, w, &format!("at_mut {} {:x}", l, pos)).map(|mut o| o.raw());
            let b = Obj::<W>::new(kind, w, &format!("at {} {:x}", l, pos)).map(|mut o| o.raw());
            rep.eval("C17");
            rep.count("C17.op.new_at_pos_mut");
            if a != b || a.is_some() != (pos <= len as u128) {
                rep.fail("C17", format!("{} {:x} | at_mut {} {:x} => {:?} but new_at_pos gives {:?}", kind, w, l, pos, a, b));
            }
            let a = Obj::<W>::new(kind, w, &format!("end_mut {}", l)).map(|mut o| o.raw());
            let b = Obj::<W>::new(kind, w, &format!("end {}", l)).map(|mut o| o.raw());
            rep.eval("C17");
            rep.count("C17.op.new_at_write_end_mut");
            if a != b {
                rep.fail("C17", format!("{} {:x} | end_mut {} => {:?} but new_at_write_end gives {:?}", kind, w, l, a, b));
            }
            // a cursor made through `new_at_pos_mut` writes into its buffer
            if let Some(mut o) = Obj::<W>::new("backend.cursor-mut", w, &format!("at_mut {} {:x}", l, pos)) {
                let x = gen_word(rng, w);
                let r = o.op(Op::Write(wd(x)));
                let (_, buf, p1) = o.raw();
                rep.eval("C17");
                let fits = (pos as usize) < len;
                if (r == "ok") != fits || (fits && (buf[pos as usize] != x || p1 != pos + 1)) {
                    rep.fail("C17", format!("{} => write through a new_at_pos_mut cursor did not land at the position", o.desc));
                }
            }
            // conversion traits: Stack flavours = new_at_write_end (reads the buffer as a stack from
            // its end), Queue flavours = new_at_write_beginning; the Seek flavours agree with them
            let all_kinds: Vec<&str> = CUR_KINDS.iter().map(|k| k.0).collect();
            let kind = *rng.pick(&all_kinds);
            let slice_kind = kind.ends_with("slice");
            for (conv, stack) in [("into_read_s", true), ("into_read_q", false), ("into_seek_read_s", true), ("into_seek_read_q", false),
                                  ("as_read_s", true), ("as_read_q", false), ("as_seek_read_s", true), ("as_seek_read_q", false)] {
                if conv.starts_with("as_") && !slice_kind {
                    continue;
                }
                let mut o = match Obj::<W>::new(kind, w, &format!("{} {}", conv, l)) {
                    Some(o) => o,
                    None => {
                        rep.fail("C17", format!("{} {:x} | {} {} => constructor missing", kind, w, conv, l));
                        continue;
                    }
                };
                rep.count(&format!("C17.op.{}", conv));
                let want = Obj::<W>::new(kind, w, &format!("{} {}", if stack { "end" } else { "begin" }, l)).unwrap().raw();
                rep.eval("C17");
                if o.raw() != want {
                    rep.fail("C17", format!("{} => differs from Cursor::new_at_write_{}", o.desc, if stack { "end" } else { "beginning" }));
                }
                // only for forward kinds the "stack from the end / queue from the start" reading applies directly
                if !kind.contains("rev") {
                    let mut expect: Vec<String> = if stack { ws.iter().rev().map(|&x| hex(x)).collect() } else { ws.iter().map(|&x| hex(x)).collect() };
                    expect.push("none".into());
                    let mut got = Vec::new();
                    for _ in 0..=len {
                        got.push(if stack { o.op(Op::ReadS) } else { o.op(Op::ReadQ) });
                    }
                    rep.eval("C17");
                    if got != expect {
                        rep.fail("C17", format!("{} => read {:?} expected {:?}", o.desc, got, expect));
                    }
                    // and it is seekable like any cursor
                    if conv.contains("seek") {
                        let q = rng.below(len as u128 + 2);
                        rep.eval("C17");
                        if (o.op(Op::Seek(q as usize)) == "ok") != (q <= len as u128) {
                            rep.fail("C17", format!("{} => seek {:x} with len {:x}", o.desc, q, len));
                        }
                    }
                }
            }
        }
        // ------------------------------------------------------------------ callbacks receive every word once, in order
        {
            let mut fa: Vec<u128> = (0..(rng.next() % 3)).map(|_| rng.below(10)).collect();
            fa.sort();
            fa.dedup();
            let mut o = Obj::<W>::new("backend.callback", w, &format!("fallible {}", show_list(fa.clone()))).unwrap();
            let mut expect: Vec<u128> = Vec::new();
            let mut calls = 0u128;
            for _ in 0..(rng.next() % 8) {
                if rng.chance(2, 3) {
                    let x = gen_word(rng, w);
                    // through the adapter, or by taking the callback out with `into_inner` and calling it
                    let direct = rng.chance(1, 3);
                    if direct {
                        rep.count("C17.op.into_inner");
                    }
                    let r = if direct { o.op(Op::IntoInner(wd(x))) } else { o.op(Op::Write(wd(x))) };
                    let fails = fa.contains(&calls);
                    calls += 1;
                    rep.eval("C17");
                    if !fails {
                        expect.push(x);
                    }
                    if (r == "ok") == fails {
                        rep.fail("C17", format!("{} => write returned {} but the callback {}", o.desc, r, if fails { "failed" } else { "succeeded" }));
                    }
                } else {
                    let n = (rng.next() % 4) as usize;
                    let ws = gen_ws(rng, w, n);
                    let r = o.op(Op::Extend(ws.iter().map(|&x| wd(x)).collect()));
                    let mut er = "ok".to_string();
                    for (i, &x) in ws.iter().enumerate() {
                        let fails = fa.contains(&calls);
                        calls += 1;
                        if fails {
                            er = format!("cberr {:x}", ws.len() - i - 1);
                            break;
                        }
                        expect.push(x);
                    }
                    rep.eval("C17");
                    if r != er {
                        rep.fail("C17", format!("{} => extend_from_iter returned {} expected {}", o.desc, r, er));
                    }
                }
            }
            let (_, log, n) = o.raw();
            rep.eval("C17");
            if log != expect || n != calls {
                rep.fail("C17", format!("{} => callback saw {:?} ({} calls), expected {:?} ({} calls)", o.desc, log, n, expect, calls));
            }
            rep.count("C17.callback");
        }
    }
}

/// `Reverse<B>` over the bounded iterator adapters (not only over cursors): `is_exhausted()`,
/// `remaining()` and the number of reads that succeed must agree, in both semantics
fn oracle_reverse_adapters<W: Wd>(rng: &mut Rng, w: u32, reps: usize, rep: &mut Report) {
    use constriction::backends::{BoundedReadWords, FallibleIteratorReadWords, ReadWords, Reverse};
    use constriction::{Queue, Stack};
    for _ in 0..reps {
        let n = (rng.next() % 6) as usize;
        let ws: Vec<W> = (0..n).map(|_| from_u128::<W>(rng.below(1u128 << w.min(63)))).collect();
        let desc = format!("backend.reverse-iter {:x} | Reverse(FallibleIteratorReadWords over {} words)", w, n);
        crate::util::set_case(&desc);
        macro_rules! run {
            ($S:ty, $name:expr) => {{
                let mut r = Reverse(FallibleIteratorReadWords::new(ws.clone().into_iter().map(Ok::<W, std::convert::Infallible>)));
                let mut left = n;
                loop {
                    rep.eval("C17");
                    let rem = BoundedReadWords::<W, $S>::remaining(&r);
                    let ex = BoundedReadWords::<W, $S>::is_exhausted(&r);
                    if rem != left || ex != (left == 0) {
                        rep.fail("C17", format!("{} | {} reads so far ({}) => remaining() = {:x}, is_exhausted() = {} but {:x} words are left", desc, n - left, $name, rem, ex, left));
                        break;
                    }
                    match ReadWords::<W, $S>::read(&mut r) {
                        Ok(Some(_)) if left > 0 => left -= 1,
                        Ok(None) if left == 0 => break,
                        other => {
                            rep.fail("C17", format!("{} | read ({}) => {:?} with {:x} words left", desc, $name, other.map(|x| x.map(|v| to_u128(v))), left));
                            break;
                        }
                    }
                }
            }};
        }
        run!(Stack, "stack");
        run!(Queue, "queue");
        rep.count("C17.reverse_over_iterator_adapter");
    }
}

pub fn oracle(rng: &mut Rng, tier: &str, rep: &mut Report) {
    let iters = if tier == "thorough" { 20000 } else { 1500 };
    let rr = if tier == "thorough" { 2000 } else { 100 };
    oracle_reverse_adapters::<u8>(rng, 8, rr, rep);
    oracle_reverse_adapters::<u32>(rng, 32, rr, rep);
    oracle_w::<u8>(rng, 8, iters, rep);
    oracle_w::<u16>(rng, 16, iters, rep);
    oracle_w::<u32>(rng, 32, iters, rep);
    oracle_w::<u64>(rng, 64, iters, rep);
}
