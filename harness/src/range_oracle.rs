// ---------------------------------------------------------------------------------------
// implementation-level oracles (included into range.rs; no reference to the Lean model)

/// minimal unsigned big integer (little-endian base 2^32 limbs) for the exact C12 check
#[derive(Clone, PartialEq, Eq, Debug)]
struct Big(Vec<u64>);

impl Big {
    fn one() -> Big {
        Big(vec![1])
    }
    fn trim(mut self) -> Big {
        while self.0.len() > 1 && *self.0.last().unwrap() == 0 {
            self.0.pop();
        }
        self
    }
    fn mul_small(&self, y: u32) -> Big {
        let mut out = Vec::with_capacity(self.0.len() + 1);
        let mut carry = 0u64;
        for &l in &self.0 {
            let t = l * y as u64 + carry;
            out.push(t & 0xffff_ffff);
            carry = t >> 32;
        }
        out.push(carry);
        Big(out).trim()
    }
    fn add(&self, o: &Big) -> Big {
        let n = self.0.len().max(o.0.len());
        let mut out = Vec::with_capacity(n + 1);
        let mut carry = 0u64;
        for i in 0..n {
            let t = self.0.get(i).copied().unwrap_or(0) + o.0.get(i).copied().unwrap_or(0) + carry;
            out.push(t & 0xffff_ffff);
            carry = t >> 32;
        }
        out.push(carry);
        Big(out).trim()
    }
    fn shl(&self, k: usize) -> Big {
        let limbs = k / 32;
        let bits = (k % 32) as u32;
        let mut out = vec![0u64; limbs];
        let mut carry = 0u64;
        for &l in &self.0 {
            let t = (l << bits) | carry;
            out.push(t & 0xffff_ffff);
            carry = t >> 32;
        }
        out.push(carry);
        Big(out).trim()
    }
    fn mul_u128(&self, y: u128) -> Big {
        let mut acc = Big(vec![0]);
        for i in 0..4 {
            let part = ((y >> (32 * i)) & 0xffff_ffff) as u32;
            if part != 0 {
                acc = acc.add(&self.mul_small(part).shl(32 * i));
            }
        }
        acc
    }
    fn from_u128(x: u128) -> Big {
        Big((0..4).map(|i| ((x >> (32 * i)) & 0xffff_ffff) as u64).collect()).trim()
    }
    fn add_u128(&self, y: u128) -> Big {
        self.add(&Big::from_u128(y))
    }
    /// `self >> k`
    fn shr(&self, k: usize) -> Big {
        let limbs = k / 32;
        let bits = (k % 32) as u32;
        let mut out = Vec::new();
        for i in limbs..self.0.len() {
            let lo = self.0[i] >> bits;
            let hi = if bits > 0 { (self.0.get(i + 1).copied().unwrap_or(0) << (32 - bits)) & 0xffff_ffff } else { 0 };
            out.push(lo | hi);
        }
        if out.is_empty() {
            out.push(0);
        }
        Big(out).trim()
    }
    /// `self mod 2^k` for `k <= 128`
    fn low_bits(&self, k: usize) -> u128 {
        let mut x = 0u128;
        for (i, &l) in self.0.iter().enumerate().take(4) {
            x |= (l as u128) << (32 * i);
        }
        if k >= 128 { x } else { x & ((1u128 << k) - 1) }
    }
    fn le(&self, o: &Big) -> bool {
        let a = self.clone().trim();
        let b = o.clone().trim();
        if a.0.len() != b.0.len() {
            return a.0.len() < b.0.len();
        }
        for i in (0..a.0.len()).rev() {
            if a.0[i] != b.0[i] {
                return a.0[i] < b.0[i];
            }
        }
        true
    }
}

/// running state of the multiplicative size bound
/// `2^num_bits · ∏ p_i · ∏ 2^k_i  ≤  2^(S+2W) · ∏ 2^P_i · ∏ (2^k_i + 1)`, `k_i = S − W − P_i`
struct SizeBound {
    prod_p: Big,
    prod_k1: Big,
    sum_k: usize,
    sum_p: usize,
}

impl SizeBound {
    fn new() -> Self {
        SizeBound { prod_p: Big::one(), prod_k1: Big::one(), sum_k: 0, sum_p: 0 }
    }
    fn push(&mut self, w: u32, s: u32, p: u32, prob: u128) {
        let k = (s - w - p) as usize;
        self.prod_p = self.prod_p.mul_u128(prob);
        self.prod_k1 = self.prod_k1.shl(k).add(&self.prod_k1);
        self.sum_k += k;
        self.sum_p += p as usize;
    }
    fn holds(&self, w: u32, s: u32, num_bits: usize) -> bool {
        let lhs = self.prod_p.shl(num_bits + self.sum_k);
        let rhs = self.prod_k1.shl((s + 2 * w) as usize + self.sum_p);
        lhs.le(&rhs)
    }
}

/// Independent arbitrary-precision reference coder (C06): interval `[lo, lo + r)` at scale
/// `2^(W·m + S)`, no registers, no carries, no situations.
struct RefCoder {
    lo: Big,
    r: u128,
    m: usize,
    n: usize,
}

impl RefCoder {
    fn new(s: u32) -> Self {
        RefCoder { lo: Big(vec![0]), r: mask(s), m: 0, n: 0 }
    }
    fn step(&mut self, w: u32, s: u32, p: u32, cum: u128, prob: u128) {
        let scale = self.r >> p;
        self.lo = self.lo.add_u128(scale * cum);
        self.r = scale * prob;
        if self.r < (1u128 << (s - w)) {
            self.lo = self.lo.shl(w as usize);
            self.r <<= w;
            self.m += 1;
        }
        self.n += 1;
    }
    fn words(&self, w: u32, s: u32) -> Vec<u128> {
        if self.n == 0 {
            return vec![];
        }
        let sw = (s - w) as usize;
        let y = self.lo.add_u128((1u128 << sw) - 1).shr(sw);
        let mut out: Vec<u128> = (0..=self.m).rev().map(|i| y.shr(i * w as usize).low_bits(w as usize)).collect();
        let upper_word = self.lo.add_u128(self.r).shr(sw).low_bits(w as usize);
        if upper_word == y.low_bits(w as usize) {
            out.push(0);
        }
        out
    }
}

/// per-(property, type combination) cap on listed failures, so that a flood of one kind cannot
/// crowd the others out of the (globally capped) report; the rest is counted in HIST
struct Caps(std::collections::BTreeMap<(String, String), usize>);

impl Caps {
    fn new() -> Self {
        Caps(std::collections::BTreeMap::new())
    }
    fn fail(&mut self, rep: &mut Report, prop: &str, tag: &str, text: String) {
        let c = self.0.entry((prop.to_string(), tag.to_string())).or_insert(0);
        *c += 1;
        if *c <= 3 {
            rep.fail(prop, text);
        } else {
            rep.count(&format!("{}.failures_not_listed.{}", prop, tag));
        }
    }
}

thread_local! {
    /// property under evaluation and protocol line of the case being run (also announced with
    /// `set_case`, so that a process abort names it)
    static NOTE: std::cell::RefCell<(String, String)> = std::cell::RefCell::new((String::new(), String::new()));
}

/// announce the case about to be run against the real code
fn note(prop: &str, line: &str) {
    set_case(line);
    NOTE.with(|n| {
        let mut n = n.borrow_mut();
        n.0.clear();
        n.0.push_str(prop);
        n.1.clear();
        n.1.push_str(line);
    });
}

/// a panic in a call where the property promises a result (encode of an in-support symbol, seal,
/// size queries, decode of the encoder's own words, …) is a failure of that property
fn panic_fail(rep: &mut Report, caps: &mut Caps, tag: &str, class: &str) {
    let (prop, line) = NOTE.with(|n| n.borrow().clone());
    let prop = if prop.is_empty() { "C02".to_string() } else { prop };
    caps.fail(rep, &prop, tag, format!("{} => {} in a call into the crate that must return a result", line, class));
    rep.count(&format!("oracle.caught_panic.{}", tag));
}

fn dec_remaining<C: RangeCombo>(d: &Dec<C>) -> usize {
    let (cursor, _, _) = d.clone().into_raw_parts();
    BoundedReadWords::<C::W, Queue>::remaining(&cursor)
}

/// decode all symbols of `msg` from `d`; `Err(text)` on the first deviation
fn decode_expect<C: RangeCombo, Bk: ReadWords<C::W, Queue>>(
    d: &mut RangeDecoder<C::W, C::S, Bk>,
    msg: &[(u32, u32, Vec<u128>, usize)],
) -> Result<(), String> {
    for (i, (b, p, cdf, sym)) in msg.iter().enumerate() {
        let o = guarded(|| C::dec(d, *b, *p, cdf).unwrap());
        match o {
            Ok(o) if o == hex(*sym as u128) => {}
            Ok(o) => return Err(format!("symbol {} decoded as {} expected {:x}", i, o, sym)),
            Err(class) => return Err(format!("symbol {}: {}", i, class)),
        }
    }
    Ok(())
}

fn msg_ops(msg: &[(u32, u32, Vec<u128>, usize)]) -> String {
    msg.iter()
        .map(|(b, p, cdf, sym)| format!(" | enc {:x} {:x} {:x} {:x}", b, p, cdf[*sym], cdf[*sym + 1] - cdf[*sym]))
        .collect::<String>()
}

fn msg_decs(msg: &[(u32, u32, Vec<u128>, usize)]) -> String {
    msg.iter().map(|(b, p, cdf, _)| format!(" | dec {:x} {:x} {}", b, p, show_list(cdf.clone()))).collect::<String>()
}

fn oracle_combo<C: RangeCombo>(rng: &mut Rng, w: u32, s: u32, bps: &[(u32, Vec<u32>)], iters: usize, rep: &mut Report) {
    let tag = format!("{}x{}", w, s);
    // failures of C11 at State > 2·Word are the open known finding D3; a handful of replays per
    // type combination is enough, the rest is only counted so that they cannot crowd out other
    // failures in the (capped) report
    let mut d3_reported = 0usize;
    let mut caps = Caps::new();
    for _ in 0..iters {
        let res = guarded(|| {
        // ---------------- build a message, inspecting one coder and leaving its twin alone ----
        let prefix: Vec<u128> = if rng.chance(1, 5) { { let k = 1 + (rng.next() % 3) as usize; gen_words(rng, w, k) } } else { vec![] };
        let mk = |prefix: &Vec<u128>| -> Enc<C> {
            if prefix.is_empty() { RangeEncoder::new() } else { RangeEncoder::with_backend(words::<C::W>(prefix)) }
        };
        let mut coder = mk(&prefix);
        let mut twin = mk(&prefix);
        let head = if prefix.is_empty() { format!("range {:x} {:x} | new", w, s) } else { format!("range {:x} {:x} | with {}", w, s, show_list(prefix.clone())) };
        let mut pool: Vec<(u32, u32, Vec<u128>)> = Vec::new();
        for _ in 0..3 {
            let (b, p) = pick_bp(rng, bps);
            pool.push((b, p, gen_cdf(rng, p)));
        }
        let fixed_bp: Option<(u32, u32)> = if rng.chance(1, 3) {
            let (b, ps) = rng.pick(bps);
            Some((*b, *ps.last().unwrap()))
        } else {
            None
        };
        let n = match rng.next() % 8 { 0 => 0, 1 => 1, 2 => 60, _ => rng.next() % 40 } as usize;
        let want = pick_hunt_class(rng, w, s);
        // threshold regime: largest precision (P == W where the types allow it), a first symbol of
        // one quantum (range = 2^(S-W) - 1 before the first renormalisation), then new ranges
        // steered onto / next to the renormalisation threshold — mid-message, compared with the
        // reference coder after every symbol (C06)
        let thr_regime = rng.chance(1, 5);
        let fixed_bp = if thr_regime { let (bb, ps) = bps.last().unwrap(); Some((*bb, *ps.last().unwrap())) } else { fixed_bp };
        // some messages end with a directed pair of symbols: new range on the threshold, then
        // an upper end just above a word boundary (the configuration of defect D3)
        // hunt: 0 = none, 1 = D3 configuration (modes 7, 6), 2 = interval ends on / next to word
        // boundaries (`hunt_prep`, `hunt_final`), for every type combination
        let hunt: u32 = if n >= 2 { match rng.next() % 6 { 0 | 1 => 1, 2 | 3 | 4 => 2, _ => 0 } } else { 0 };
        let mut msg: Vec<(u32, u32, Vec<u128>, usize)> = Vec::new();
        let mut snaps: Vec<(usize, RangeCoderState<C::W, C::S>, bool)> = Vec::new();
        let mut bound = SizeBound::new();
        let mut reference = RefCoder::new(s);
        let mut desc = head.clone();
        let mut broken = false;
        let mut c06_reported = false;
        let (mut c18_reported, mut c12_reported, mut diverged) = (false, false, false);
        // "peek while inverted, then continue": in these messages every boundary at which the
        // encoder holds words back is inspected through a guard (view or temporary decoder)
        let peek_inverted = rng.chance(1, 2);
        let mut peeked_inverted = false;
        let mut inverted_steps = 0usize;
        for step in 0..=n {
            // --- at every symbol boundary: snapshot (C07), size queries (C18, C12), sometimes views (C08)
            note("C02", &desc);
            let (_, _, inv) = enc_view::<C>(&coder);
            if inv {
                inverted_steps += 1;
                rep.count("C07.snapshot_while_inverted");
            }
            let (pos, st) = coder.pos();
            snaps.push((pos, st, inv));
            if rng.chance(1, 6) {
                // `clone()` and `clone_from()` (into an encoder with other contents and situation) are copies
                let before = show_enc::<C>(&coder);
                let copy = coder.clone();
                let mut other: Enc<C> = RangeEncoder::new();
                other.clone_from(&copy);
                rep.eval("C08");
                rep.count("C08.clone_from");
                let (a, b2) = (show_enc::<C>(&copy), show_enc::<C>(&other));
                if a != before || b2 != before {
                    caps.fail(rep, "C08", &tag, format!("{} | clone | raw => the encoder is {} but clone() gives {} and clone_from() into a fresh encoder gives {}", desc, before, a, b2));
                    caps.fail(rep, "C02", &tag, format!("{} | clone | raw => the encoder is {} but clone() gives {} and clone_from() into a fresh encoder gives {}", desc, before, a, b2));
                }
                coder = other;
            }
            let expected = export::<C>(&twin);
            rep.eval("C18");
            let (nw, nb, em) = (coder.num_words(), coder.num_bits(), coder.is_empty());
            if (nw != expected.len() || nb != expected.len() * w as usize || em != expected.is_empty()) && !c18_reported && !diverged {
                // reported once per message; the other properties are still checked on it
                c18_reported = true;
                caps.fail(rep, "C18", &tag, format!("{} | nw | nb | empty | export => num_words {:x} num_bits {:x} is_empty {} but exporting returns {:x} words", desc, nw, nb, em, expected.len()));
            }
            // C06: what exporting now returns is what the big-number reference prescribes
            rep.eval("C06");
            let ref_words = reference.words(w, s);
            if expected[prefix.len()..] != ref_words[..] && !c06_reported {
                // reported once per message; the other properties are still checked on it
                c06_reported = true;
                caps.fail(rep, "C06", &tag, format!("{} | export => {} but the arbitrary-precision reference coder gives {}", desc, show_list(expected[prefix.len()..].to_vec()), show_list(ref_words)));
            }
            rep.eval("C12");
            let payload_bits = (expected.len() - prefix.len()) * w as usize;
            if (!bound.holds(w, s, payload_bits) || expected.len() - prefix.len() > step + 2) && !c12_reported {
                c12_reported = true;
                caps.fail(rep, "C12", &tag, format!("{} | export | nb | nw => {:x} bits / {:x} words after {:x} symbols exceed the bound", desc, payload_bits, expected.len() - prefix.len(), step));
            }
            let peek_now = peek_inverted && inv && !diverged;
            if (peek_now || rng.chance(1, 3)) && !diverged {
                rep.eval("C08");
                let kind = if peek_now { (rng.next() % 2) * 2 } else { rng.next() % 4 };
                NOTE.with(|n| n.borrow_mut().0 = "C08".into());
                let mut temp_dec_err: Option<String> = None;
                let shown_r = guarded(|| -> Vec<u128> {
                    match kind {
                        0 => unwords(&coder.get_compressed()),
                        1 => export::<C>(&coder),
                        2 => {
                            // temporary decoder: must decode everything encoded so far (C02 on a prefix)
                            let mut d = coder.decoder();
                            match decode_expect::<C, _>(&mut d, &msg) {
                                Ok(()) => {
                                    if !d.maybe_exhausted() {
                                        temp_dec_err = Some("temporary decoder not exhausted after all symbols".into());
                                    }
                                }
                                Err(t) => temp_dec_err = Some(format!("temporary decoder: {}", t)),
                            }
                            drop(d);
                            expected.clone()
                        }
                        _ => {
                            coder = coder.clone();
                            expected.clone()
                        }
                    }
                });
                desc.push_str(match kind { 0 => " | getc", 1 => " | export", 2 => " | decoder", _ => " | clone" });
                if kind == 2 {
                    rep.eval("C02");
                    if let Some(t) = temp_dec_err {
                        if prefix.is_empty() {
                            caps.fail(rep, "C02", &tag, format!("{} => {}", desc, t));
                        }
                    }
                }
                if inv {
                    rep.count("C08.inspected_while_inverted");
                    if kind == 0 || kind == 2 {
                        peeked_inverted = true;
                        rep.count(&format!("C08.peek_while_inverted.{}", tag));
                    }
                }
                match shown_r {
                    Err(class) => {
                        diverged = true;
                        caps.fail(rep, "C08", &tag, format!("{} => inspection panicked: {}", desc, class));
                        caps.fail(rep, "C02", &tag, format!("{} => inspection panicked: {}", desc, class));
                        broken = true;
                        break;
                    }
                    Ok(shown) => {
                        if shown != expected {
                            diverged = true;
                            caps.fail(rep, "C08", &tag, format!("{} => view {} but finishing now gives {}", desc, show_list(shown), show_list(expected.clone())));
                        }
                    }
                }
                if !diverged && show_enc::<C>(&coder) != show_enc::<C>(&twin) {
                    // not fatal for the run: the inspected coder goes on, is sealed and decoded below
                    diverged = true;
                    caps.fail(rep, "C08", &tag, format!("{} | raw => inspected coder {} differs from uninspected twin {}", desc, show_enc::<C>(&coder), show_enc::<C>(&twin)));
                }
            }
            if step == n {
                break;
            }
            // --- C09: an out-of-support symbol (first index past the table, or a huge value) is
            // rejected and leaves the raw parts of the encoder untouched
            if rng.chance(1, 6) {
                let (b, p, cdf) = rng.pick(&pool).clone();
                let sym = match rng.next() % 4 {
                    0 => cdf.len() - 1,
                    1 => cdf.len() - 1 + 0x1_0000_0000usize,
                    2 => usize::MAX - (rng.next() % 3) as usize,
                    _ => cdf.len() + (rng.next() % 0x1_0001) as usize,
                };
                let before = show_enc::<C>(&coder);
                let o = guarded(|| C::enc_sym(&mut coder, b, p, &cdf, sym).unwrap());
                rep.eval("C09");
                rep.eval("C20");
                desc.push_str(&format!(" | encnone {:x} {:x}", b, p));
                if inv {
                    rep.count("C09.rejected_while_inverted");
                }
                if o != Ok("impossible".to_string()) || show_enc::<C>(&coder) != before {
                    caps.fail(rep, "C09", &tag, format!("{} | raw => out-of-support symbol {:x}: result {:?}, encoder before {} after {}", desc, sym, o, before, show_enc::<C>(&coder)));
                    broken = true;
                    break;
                }
            }
            // --- encode the next symbol on both
            let (b, p) = fixed_bp.unwrap_or_else(|| pick_bp(rng, bps));
            let (b, p, mode) = if hunt != 0 && step + 2 >= n {
                let (bb, ps) = bps.last().unwrap();
                (*bb, *ps.last().unwrap(), Some(if step + 2 == n { 7 } else { 6 }))
            } else {
                (b, p, None)
            };
            let (cdf, sym) = if hunt == 2 && step + 2 == n {
                hunt_prep::<C>(rng, &coder, w, s, b, p, &pool, want)
            } else if hunt == 2 && step + 1 == n {
                match hunt_final::<C>(rng, &coder, w, s, b, p, 32, want) {
                    Some((cdf, sym, exact)) => {
                        rep.count(if exact { "C11.hunt.final.wanted_class" } else { "C11.hunt.final.some_class" });
                        (cdf, sym)
                    }
                    None => {
                        rep.count("C11.hunt.final.missed");
                        steer::<C>(rng, &coder, w, s, p, &pool, b)
                    }
                }
            } else if thr_regime && mode.is_none() {
                if step == 0 {
                    let total = pow2(p);
                    let a = match rng.next() % 3 { 0 => 0, 1 => total - 1, _ => rng.below(total) };
                    cdf_around(p, a, a + 1)
                } else {
                    let md = match rng.next() % 4 { 0 | 1 => Some(8), 2 => Some(4), _ => None };
                    steer_mode::<C>(rng, &coder, w, s, p, &pool, b, md)
                }
            } else {
                steer_mode::<C>(rng, &coder, w, s, p, &pool, b, mode)
            };
            {
                // which threshold class does the new (pre-renormalisation) range fall into?
                let r = to_u128(coder.state().range().get());
                if let Some(cl) = threshold_class((r >> p) * (cdf[sym + 1] - cdf[sym]), w, s) {
                    rep.count(&format!("C06.threshold.{}.{}", tag, cl));
                }
            }
            desc.push_str(&format!(" | enc {:x} {:x} {:x} {:x}", b, p, cdf[sym], cdf[sym + 1] - cdf[sym]));
            let o1 = guarded(|| C::enc_sym(&mut coder, b, p, &cdf, sym).unwrap());
            let o2 = guarded(|| C::enc_sym(&mut twin, b, p, &cdf, sym).unwrap());
            rep.eval("C02");
            if o1 != Ok("ok".to_string()) || o2 != Ok("ok".to_string()) {
                caps.fail(rep, "C02", &tag, format!("{} => encoding an in-support symbol returned {:?}", desc, o1));
                broken = true;
                break;
            }
            bound.push(w, s, p, cdf[sym + 1] - cdf[sym]);
            reference.step(w, s, p, cdf[sym], cdf[sym + 1] - cdf[sym]);
            msg.push((b, p, cdf, sym));
            if peeked_inverted {
                rep.count(&format!("C08.peek_while_inverted_then_encoded_more.{}", tag));
                peeked_inverted = false;
            }
        }
        if broken {
            return;
        }
        rep.count(&format!("hist.{}", tag));
        if inverted_steps > 0 {
            rep.count(&format!("hist.{}.visited_inverted", tag));
        }
        if inverted_steps >= 3 {
            rep.count("hist.long_inverted_run");
        }
        let (fin_lower, _, fin_inv) = enc_view::<C>(&coder);
        if fin_inv {
            let wraps = fin_lower.wrapping_add((1u128 << (s - w)) - 1) & mask(s) < fin_lower;
            rep.count(if wraps { "seal.inverted.wrap" } else { "seal.inverted.nowrap" });
        }
        // the documented weakness D3, read off the final encoder state before sealing: State
        // wider than two Words, the zero word is emitted (top word of `lower + range` equals the
        // point word) and the upper end is less than 2^(S-2W) above `point_word·2^(S-W)`
        // (= the hypothesis `D3Safe` of the partial theorem is false)
        let d3_condition: &str = {
            let (lo, r, _) = enc_view::<C>(&coder);
            let m = mask(s);
            let u = pow2(s - w);
            let up = lo.wrapping_add(r) & m;
            let pw = (lo.wrapping_add(u - 1) & m) >> (s - w);
            let uw = up >> (s - w);
            if s > 2 * w && pw == uw && (up & (u - 1)) < pow2(s - 2 * w) { "yes" } else { "no" }
        };
        if s > 2 * w {
            if d3_condition == "yes" {
                rep.count(&format!("C11.d3_condition.{}", tag));
            }
            if hunt == 1 { rep.count("C11.hunted"); }
        }
        if !msg.is_empty() {
            let (lo, r, _) = enc_view::<C>(&coder);
            for cl in boundary_classes(lo, r, w, s) {
                rep.count(&format!("final.{}.{}", tag, cl));
            }
            rep.count(&format!("final.{}.{}", tag, word_relation(lo, r, w, s)));
        }
        note("C02", &format!("{} | pos | export", desc));
        let final_snap = coder.pos();
        // the conversion `Vec::from(encoder)` hands out the same words as `into_compressed()` (every
        // word of them: a trailing zero word is data, it is what protects the message from what follows)
        let via_from: Vec<C::W> = Vec::from(coder.clone());
        let sealed_w: Vec<C::W> = coder.into_compressed().unwrap();
        let sealed = unwords(&sealed_w);
        rep.eval("C06");
        rep.eval("C11");
        if via_from != sealed_w {
            let t = format!("{} | Vec::from(encoder) => {} but into_compressed() gives {}", desc, show_list(unwords(&via_from)), show_list(sealed.clone()));
            caps.fail(rep, "C06", &tag, t.clone());
            caps.fail(rep, "C11", &tag, t.clone());
            caps.fail(rep, "C02", &tag, t);
        }
        let twin_sealed = unwords(&twin.into_compressed().unwrap());
        rep.eval("C08");
        if sealed != twin_sealed {
            // the inspections changed what the encoder outputs: a C08 failure, and the stream
            // sealed after peeking is not the message's stream (C02); it is still decoded below
            diverged = true;
            caps.fail(rep, "C08", &tag, format!("{} | export => {} but the uninspected twin gives {}", desc, show_list(sealed.clone()), show_list(twin_sealed.clone())));
            caps.fail(rep, "C02", &tag, format!("{} | export => {} but the same message without the inspections seals to {}", desc, show_list(sealed.clone()), show_list(twin_sealed)));
        }
        let plain = format!("{}{}", head, msg_ops(&msg));
        // replay text of the round trip: the history with its inspections if they mattered
        let rt = if diverged { desc.clone() } else { plain.clone() };
        let plain_new = format!("range {:x} {:x} | new{}", w, s, msg_ops(&msg));
        rep.sample("C02", || format!("{} | export | intodec{} | exhausted", plain, msg_decs(&msg)));
        rep.sample("C08", || desc.clone());
        let payload: Vec<u128> = sealed[prefix.len()..].to_vec();
        rep.count(&format!("seal.words.{}", payload.len().saturating_sub(snaps.last().unwrap().0 - prefix.len())));

        // ---------------- C02: round trip ----------------
        note("C02", &format!("{} | export | intodec{} | exhausted", rt, msg_decs(&msg)));
        rep.eval("C02");
        if msg.is_empty() && !payload.is_empty() {
            caps.fail(rep, "C02", &tag, format!("{} | export => empty message produced words {}", plain, show_list(payload.clone())));
        }
        let mut d: Dec<C> = RangeDecoder::from_compressed(words::<C::W>(&payload)).unwrap();
        let mut ok = true;
        for (i, (b, p, cdf, sym)) in msg.iter().enumerate() {
            // C18: a decoder with whole words left must not claim exhaustion
            rep.eval("C18");
            if dec_remaining::<C>(&d) > 0 && d.maybe_exhausted() {
                caps.fail(rep, "C18", &tag, format!("{} | export | intodec{} | exhausted => true although words remain", plain, msg_decs(&msg[..i])));
            }
            let o = guarded(|| C::dec(&mut d, *b, *p, cdf).unwrap());
            if o != Ok(hex(*sym as u128)) {
                caps.fail(rep, "C02", &tag, format!("{} | export | intodec{} => symbol {:x} decoded as {:?} expected {:x}", rt, msg_decs(&msg[..=i]), i, o, sym));
                ok = false;
                break;
            }
        }
        if !ok || diverged {
            return;
        }
        rep.eval("C18");
        if !d.maybe_exhausted() {
            caps.fail(rep, "C02", &tag, format!("{} | export | intodec{} | exhausted => false after the last symbol", rt, msg_decs(&msg)));
            caps.fail(rep, "C18", &tag, format!("{} | export | intodec{} | exhausted => false after exactly the encoded symbols", plain, msg_decs(&msg)));
        }

        // ---------------- C02 over iterator sources: the same words through `FallibleIteratorReadWords` /
        // `InfallibleIteratorReadWords`, from an exact-size iterator and from one without an upper size
        // bound (`iter::from_fn`, what a file or socket reader looks like): same symbols, and possibly
        // exhausted after the last one ----------------
        {
            use constriction::backends::FallibleIteratorReadWords;
            note("C02", &format!("{} | export | iterator-source{} | exhausted", rt, msg_decs(&msg)));
            let ws: Vec<C::W> = words::<C::W>(&payload);
            for kind in 0..2u32 {
                rep.eval("C02");
                rep.count("C02.iterator_source");
                let res: Result<Result<bool, String>, &'static str> = guarded(|| match kind {
                    0 => {
                        let mut d = RangeDecoder::<C::W, C::S, _>::with_backend(FallibleIteratorReadWords::new(ws.clone().into_iter().map(Ok::<_, ()>))).map_err(|_| "decoder refused".to_string())?;
                        decode_expect::<C, _>(&mut d, &msg)?;
                        Ok(d.maybe_exhausted())
                    }
                    1 => {
                        let mut it = ws.clone().into_iter();
                        let mut d = RangeDecoder::<C::W, C::S, _>::with_backend(FallibleIteratorReadWords::new(std::iter::from_fn(move || it.next().map(Ok::<_, ()>)))).map_err(|_| "decoder refused".to_string())?;
                        decode_expect::<C, _>(&mut d, &msg)?;
                        Ok(d.maybe_exhausted())
                    }
                    _ => unreachable!(),
                });
                let names = ["FallibleIteratorReadWords over an exact-size iterator", "FallibleIteratorReadWords over iter::from_fn (no upper size bound)", "InfallibleIteratorReadWords over iter::from_fn (no upper size bound)"];
                match res {
                    Ok(Ok(true)) => {}
                    Ok(Ok(false)) => caps.fail(rep, "C02", &tag, format!("{} | export | decoder over {}{} | exhausted => false after the last symbol", rt, names[kind as usize], msg_decs(&msg))),
                    Ok(Err(t)) => caps.fail(rep, "C02", &tag, format!("{} | export | decoder over {}{} => {}", rt, names[kind as usize], msg_decs(&msg), t)),
                    Err(class) => caps.fail(rep, "C02", &tag, format!("{} | export | decoder over {}{} => {}", rt, names[kind as usize], msg_decs(&msg), class)),
                }
            }
        }

        // ---------------- C10 with a source that fails once: a read error at the j-th word is an error value,
        // and decoding on afterwards (a caller that collects `Result`s) still never panics ----------------
        if !msg.is_empty() {
            use constriction::backends::FallibleIteratorReadWords;
            let ws: Vec<C::W> = words::<C::W>(&payload);
            let j = (s / w) as usize + rng.below(ws.len() as u128 + 2) as usize;
            let line = format!("{} | export | decoder over an iterator whose read #{:x} fails once{}{}", rt, j, msg_decs(&msg), msg_decs(&msg));
            note("C10", &line);
            rep.eval("C10");
            rep.count("C10.source_fails_once");
            let res = guarded(|| {
                let mut i = 0usize;
                let wsv = ws.clone();
                let src = std::iter::from_fn(move || {
                    let k = i;
                    i += 1;
                    if k == j { Some(Err(())) } else { let k = if k > j { k - 1 } else { k }; wsv.get(k).copied().map(Ok) }
                });
                let mut d = match RangeDecoder::<C::W, C::S, _>::with_backend(FallibleIteratorReadWords::new(src)) { Ok(d) => d, Err(_) => return 0usize };
                let mut errors = 0usize;
                for (b, p, cdf, _) in msg.iter().chain(msg.iter()) {
                    if let Some(o) = C::dec(&mut d, *b, *p, cdf) {
                        if o.starts_with("readerr") || o.starts_with("err") { errors += 1; }
                    }
                }
                errors
            });
            if let Err(class) = res {
                caps.fail(rep, "C10", &tag, format!("{} => {} (decoding on after the read error must not panic)", line, class));
            }
        }

        // ---------------- C07: random access ----------------
        {
            note("C07", &format!("{} | intodec | seekto …", desc_with_snaps(&head, &msg)));
            // a snapshot's state can be rebuilt from its two numbers through the public constructor
            // (a stored jump table, the Python binding's `seek(position, (lower, range))`)
            for (i, (_, st, _)) in snaps.iter().enumerate() {
                rep.eval("C07");
                let rebuilt = RangeCoderState::<C::W, C::S>::new(st.lower(), st.range().get());
                let same = match &rebuilt { Ok(r) => r.lower() == st.lower() && r.range() == st.range(), Err(_) => false };
                if !same {
                    caps.fail(rep, "C07", &tag, format!("{} (snap after symbol {:x}) => RangeCoderState::new({:x}, {:x}) {} although the encoder handed out this snapshot", desc_with_snaps(&head, &msg), i, to_u128(st.lower()), to_u128(st.range().get()), if rebuilt.is_err() { "is rejected" } else { "differs" }));
                    break;
                }
            }
            // owned, and borrowed backends, full data (prefix included: positions count it)
            let mut owned: Dec<C> = RangeDecoder::from_compressed(sealed_w.clone()).unwrap();
            let mut borrowed = RangeDecoder::<C::W, C::S, Cursor<C::W, &[C::W]>>::from_compressed(&sealed_w[..]).unwrap();
            let nseek = 1 + rng.next() % 6;
            let mut last: Option<usize> = None;
            for k in 0..nseek {
                let i = match (k, last) {
                    (1, Some(l)) if rng.chance(1, 2) => l, // repeat
                    _ => rng.below(snaps.len() as u128) as usize,
                };
                last = Some(i);
                let (pos, st, inv) = snaps[i];
                let cnt = rng.below((msg.len() - i) as u128 + 1) as usize;
                rep.eval("C07");
                if inv {
                    rep.count("C07.seek_to_inverted_snapshot");
                }
                let r1 = owned.seek((pos, st)).map_err(|_| "seek rejected".to_string()).and_then(|_| decode_expect::<C, _>(&mut owned, &msg[i..i + cnt]));
                let r2 = borrowed.seek((pos, st)).map_err(|_| "seek rejected".to_string()).and_then(|_| decode_expect::<C, _>(&mut borrowed, &msg[i..i + cnt]));
                for r in [r1, r2] {
                    if let Err(t) = r {
                        caps.fail(rep, "C07", &tag, format!("{} (snap after symbol {:x}) | intodec | seekto {:x}{} => {}", desc_with_snaps(&head, &msg), i, i, msg_decs(&msg[i..i + cnt]), t));
                    }
                }
                if i + cnt == msg.len() && !(owned.maybe_exhausted() && borrowed.maybe_exhausted()) {
                    caps.fail(rep, "C07", &tag, format!("{} | intodec | seekto {:x}{} | exhausted => false at the end", desc_with_snaps(&head, &msg), i, msg_decs(&msg[i..])));
                }
            }
            rep.eval("C07");
            let (fp, fs) = final_snap;
            if owned.seek((fp, fs)).is_err() || !owned.maybe_exhausted() {
                caps.fail(rep, "C07", &tag, format!("{} | snap | intodec | seekto {:x} | exhausted => seeking to the final position does not leave the decoder exhausted", desc_with_snaps(&head, &msg), msg.len()));
            }
            rep.eval("C07");
            let beyond = sealed.len() + 1 + (rng.next() % 3) as usize;
            let before = show_dec::<C>(&owned);
            if owned.seek((beyond, fs)).is_ok() || show_dec::<C>(&owned) != before || borrowed.seek((beyond, fs)).is_ok() {
                caps.fail(rep, "C07", &tag, format!("{} | intodec | seek {:x} {:x} {:x} => a position beyond the data was accepted or changed the decoder", plain, beyond, to_u128(fs.lower()), to_u128(fs.range().get())));
            }
            rep.sample("C07", || format!("{} | intodec | seekto 0", desc_with_snaps(&head, &msg)));
        }

        // ---------------- C07 over a reversed backend: the encoder writes into `Reverse<Cursor>` (back to
        // front), the decoder reads the same buffer through `Reverse<Cursor>`; snapshots come from the
        // encoder's own `pos()`.  A failure is tagged with whether the snapshot was taken while words
        // were held back (`held-words=yes`: the open finding D33 — `RangeEncoder::pos` adds the number of
        // held words, which is right only for sinks whose position grows) ----------------
        if !msg.is_empty() && prefix.is_empty() {
            use constriction::backends::Reverse;
            note("C07", &format!("{} | reverse-sink | seekto …", desc_with_snaps(&head, &msg)));
            let cap = sealed.len() + 2 + (rng.next() % 4) as usize;
            let r = guarded(|| {
                let mut e = RangeEncoder::<C::W, C::S, _>::with_backend(Reverse(Cursor::new_at_write_end(vec![from_u128::<C::W>(0); cap])));
                let mut rsnaps = Vec::new();
                for (b, p, cdf, sym) in msg.iter() {
                    rsnaps.push(e.pos());
                    if C::enc_sym_any(&mut e, *b, *p, cdf, *sym).unwrap() != "ok" {
                        return None;
                    }
                }
                rsnaps.push(e.pos());
                let bk = e.into_compressed().ok()?;
                let (buf, pos) = bk.0.into_buf_and_pos();
                Some((rsnaps, buf, pos))
            });
            if let Ok(Some((rsnaps, buf, endpos))) = r {
                rep.eval("C07");
                rep.count("C07.reverse_sink_messages");
                // the sink holds the sealed words back to front
                let got: Vec<u128> = buf[endpos..].iter().rev().map(|&x| to_u128(x)).collect();
                if got != sealed {
                    caps.fail(rep, "C07", &tag, format!("{} | reverse-sink => the reversed sink holds {} but a Vec sink {}", plain, show_list(got), show_list(sealed.clone())));
                } else {
                    // a reversed decoder that has decoded everything, or was sought to the final snapshot (taken
                    // with nothing held back), is possibly exhausted
                    rep.eval("C07");
                    let fin = guarded(|| {
                        // (over exactly the words that were written: the spare room below them is not data)
                        let written: Vec<C::W> = buf[endpos..].to_vec();
                        let mut d = RangeDecoder::<C::W, C::S, _>::with_backend(Reverse(Cursor::new_at_write_end(written))).map_err(|_| "decoder refused".to_string())?;
                        decode_expect::<C, _>(&mut d, &msg)?;
                        let a = d.maybe_exhausted();
                        let held_at_end = snaps.last().map(|x| x.2).unwrap_or(false);
                        let (pos, st) = *rsnaps.last().unwrap();
                        let b = if held_at_end || pos < endpos { true } else { d.seek((pos - endpos, st)).map_err(|_| "seek to the final snapshot rejected".to_string())?; d.maybe_exhausted() };
                        Ok::<(bool, bool), String>((a, b))
                    });
                    match fin {
                        Ok(Ok((true, true))) => {}
                        Ok(Ok((a, b))) => caps.fail(rep, "C07", &tag, format!("{} | reverse-sink | reversed decoder: maybe_exhausted() after the last symbol = {}, after seeking to the final position = {}", desc_with_snaps(&head, &msg), a, b)),
                        Ok(Err(t)) => caps.fail(rep, "C07", &tag, format!("{} | reverse-sink | reversed decoder => {}", desc_with_snaps(&head, &msg), t)),
                        Err(class) => caps.fail(rep, "C07", &tag, format!("{} | reverse-sink | reversed decoder => {}", desc_with_snaps(&head, &msg), class)),
                    }
                    for _ in 0..(1 + rng.next() % 5) {
                        let i = rng.below(rsnaps.len() as u128) as usize;
                        let cnt = rng.below((msg.len() - i) as u128 + 1) as usize;
                        let held = snaps.get(i).map(|x| x.2).unwrap_or(false);
                        rep.eval("C07");
                        if held {
                            rep.count("C07.reverse_sink_seek_to_held_snapshot");
                        }
                        let (pos, st) = rsnaps[i];
                        let res = guarded(|| {
                            let mut d = RangeDecoder::<C::W, C::S, _>::with_backend(Reverse(Cursor::new_at_write_end(buf.clone()))).map_err(|_| "decoder refused".to_string())?;
                            d.seek((pos, st)).map_err(|_| "seek rejected".to_string())?;
                            decode_expect::<C, _>(&mut d, &msg[i..i + cnt])
                        });
                        let res = match res { Ok(r) => r, Err(class) => Err(class.to_string()) };
                        if let Err(t) = res {
                            caps.fail(rep, "C07", &tag, format!("{} (snap after symbol {:x}) | reverse-sink held-words={} | seekto {:x}{} => {}", desc_with_snaps(&head, &msg), i, if held { "yes" } else { "no" }, i, msg_decs(&msg[i..i + cnt]), t));
                        }
                    }
                }
            }
        }

        // ---------------- C11: arbitrary suffix ----------------
        if !msg.is_empty() {
            let mw = mask(w);
            let k = 1 + (rng.next() % (s / w + 2) as u64) as usize;
            let mut suffixes: Vec<(Vec<u128>, &str)> = Vec::new();
            let mut ones_zero = vec![mw; k];
            if k > 1 {
                for x in ones_zero.iter_mut().skip(1) {
                    *x = 0;
                }
            }
            let mut zero_ones = vec![mw; k + 1];
            zero_ones[0] = 0;
            let all: Vec<(Vec<u128>, &str)> = vec![
                (vec![mw; k], ""),
                (vec![0; k], ""),
                (ones_zero, ""),
                (zero_ones, ""),
                (gen_words(rng, w, k), ""),
            ];
            if hunt != 0 || rng.chance(1, 4) {
                suffixes.extend(all);
            } else {
                suffixes.push(all[(rng.next() % 5) as usize].clone());
            }
            if rng.chance(1, 4) {
                let (second, _) = gen_valid_stream::<C>(rng, w, s, bps, 6);
                suffixes.push((second, " (a second sealed message)"));
            }
            for (suffix, note_txt) in suffixes {
                note("C11", &format!("{} | export ; suffix {}", plain_new, show_list(suffix.clone())));
                rep.eval("C11");
                let mut data = payload.clone();
                data.extend(suffix.iter().copied());
                let mut d: Dec<C> = RangeDecoder::from_compressed(words::<C::W>(&data)).unwrap();
                if let Err(t) = decode_expect::<C, _>(&mut d, &msg) {
                    rep.count(&format!("C11.failures.{}.d3-condition={}", tag, d3_condition));
                    if s == 2 * w || d3_condition == "no" || d3_reported < 4 {
                        d3_reported += 1;
                        rep.fail("C11", format!("{} | export => {} ; suffix {}{} ; decoding sealed++suffix with{} => {} d3-condition={}", plain_new, show_list(payload.clone()), show_list(suffix.clone()), note_txt, msg_decs(&msg), t, d3_condition));
                    }
                    break;
                }
                rep.sample("C11", || format!("{} | export ; suffix {}", plain, show_list(suffix.clone())));
            }
        }

        // ---------------- C10: arbitrary words ----------------
        {
            let mw = mask(w);
            let mut data = payload.clone();
            match rng.next() % 8 {
                0 => data = vec![0; (rng.next() % 6) as usize],
                1 => data = vec![mw; (rng.next() % 6) as usize],
                2 | 3 => data = { let k = (rng.next() % 8) as usize; gen_words(rng, w, k) },
                4 => {
                    let k = rng.below(data.len() as u128 + 1) as usize;
                    data.truncate(k);
                }
                5 => {
                    if !data.is_empty() {
                        let i = rng.below(data.len() as u128) as usize;
                        data[i] ^= 1u128 << rng.below(w as u128);
                    }
                }
                6 => data.extend(gen_words(rng, w, 3)),
                _ => {} // the valid stream decoded with wrong models
            }
            let mut d10 = format!("rangedec {:x} {:x} | words {}", w, s, show_list(data.clone()));
            let mut d: Dec<C> = RangeDecoder::from_compressed(words::<C::W>(&data)).unwrap();
            let k = rng.next() % 16;
            for _ in 0..k {
                let (b, p) = pick_bp(rng, bps);
                let (b, p, cdf) = if rng.chance(1, 2) { (b, p, gen_cdf(rng, p)) } else { rng.pick(&pool).clone() };
                d10.push_str(&format!(" | dec {:x} {:x} {}", b, p, show_list(cdf.clone())));
                note("C10", &d10);
                rep.eval("C10");
                rep.eval("C20"); // a std UB precondition check would abort the process here
                match guarded(|| C::dec(&mut d, b, p, &cdf).unwrap()) {
                    Ok(o) if o == "invalid_data" => {
                        rep.count("C10.invalid_data");
                    }
                    Ok(o) => match parse_hex(&o) {
                        Some(sym) if (sym as usize) + 1 < cdf.len() && cdf[sym as usize] < cdf[sym as usize + 1] => {}
                        _ => {
                            caps.fail(rep, "C10", &tag, format!("{} => {} is not a symbol of the model", d10, o));
                            break;
                        }
                    },
                    Err(class) => {
                        caps.fail(rep, "C10", &tag, format!("{} => {}", d10, class));
                        break;
                    }
                }
            }
            rep.sample("C10", || d10.clone());
        }

        // ---------------- C20: malformed campaign on raw parts ----------------
        // Encoders assembled by `from_raw_parts` from any `RangeCoderState` the constructor
        // accepts and any situation (also ones no history reaches), decoders assembled from raw
        // parts: every call may return an error or panic, but must not trip a std
        // unsafe-precondition check (which would abort this process) — in particular the two
        // `into_nonzero_unchecked` sites of queue.rs.
        {
            let (_, p0) = pick_bp(rng, bps);
            let init = gen_raw_enc_init(rng, w, s, p0);
            let toks: Vec<&str> = init.split(' ').collect();
            let (lo, r, n, f) = (parse_hex(toks[2]).unwrap(), parse_hex(toks[3]).unwrap(), parse_hex(toks[4]).unwrap(), parse_hex(toks[5]).unwrap());
            if let Some(st) = mk_state::<C>(lo, r) {
                let mut e: Enc<C> = RangeEncoder::from_raw_parts(words::<C::W>(&parse_list(toks[1]).unwrap()), st, mk_sit::<C>(n, f));
                let d20 = format!("range {:x} {:x} | {}", w, s, init);
                note("C20", &format!("{} | (steered encodes, getc, nw, decoder)", d20));
                for _ in 0..(rng.next() % 6) {
                    let (b, p) = pick_bp(rng, bps);
                    let (cdf, sym) = steer::<C>(rng, &e, w, s, p, &pool, b);
                    rep.eval("C20");
                    match guarded(|| C::enc_sym(&mut e, b, p, &cdf, sym).unwrap()) {
                        Ok(_) => {}
                        Err(class) => {
                            rep.count(&format!("C20.raw_encoder.{}", class));
                            break;
                        }
                    }
                    rep.eval("C20");
                    if guarded(|| { let _ = e.get_compressed().len(); let _ = e.num_words(); let mut d = e.decoder(); let _ = C::dec(&mut d, b, p, &cdf); }).is_err() {
                        rep.count("C20.raw_encoder.inspect_panic");
                        break;
                    }
                }
                rep.sample("C20", || d20.clone());
            }
            // raw decoder: point anywhere relative to [lower, lower + range)
            let thr = pow2(s - w);
            let m = mask(s);
            let range = match rng.next() % 4 { 0 => thr, 1 => m, _ => rng.bits_biased(s).max(thr) };
            let lower = rng.bits_biased(s);
            let point = rng.bits_biased(s);
            let data = gen_words(rng, w, 3);
            if let Some(st) = mk_state::<C>(lower, range) {
                note("C20", &format!("rangedec {:x} {:x} | rawdec {} 0 {:x} {:x} {:x} | dec …", w, s, show_list(data.clone()), lower, range, point));
                let cursor = Cursor::new_at_pos(words::<C::W>(&data), (rng.next() % 4) as usize).unwrap();
                if let Ok(mut d) = RangeDecoder::<C::W, C::S, _>::from_raw_parts(cursor, st, from_u128::<C::S>(point)) {
                    for _ in 0..4 {
                        let (b, p) = pick_bp(rng, bps);
                        let cdf = gen_cdf(rng, p);
                        rep.eval("C20");
                        match guarded(|| C::dec(&mut d, b, p, &cdf).unwrap()) {
                            Ok(_) => {}
                            Err(class) => {
                                caps.fail(rep, "C20", &tag, format!("rangedec {:x} {:x} | rawdec {} 0 {:x} {:x} {:x} | dec {:x} {:x} {} => {}", w, s, show_list(data.clone()), lower, range, point, b, p, show_list(cdf.clone()), class));
                                break;
                            }
                        }
                    }
                }
            }
        }
        });
        if let Err(class) = res {
            panic_fail(rep, &mut caps, &tag, class);
        }
    }
}

/// C12 (and C02 / C06): adversarial long messages.  Every symbol is chosen from the live
/// encoder's `(lower, range)` as the table symbol whose sub-interval contains the next word
/// boundary above `lower` (or the wrap-around point `2^S` if the interval already wraps), which
/// keeps the encoder in the inverted situation across as many renormalisations as possible.
/// The size bounds are checked after every symbol, the reference words at checkpoints, the
/// round trip at the end.
fn adversarial_combo<C: RangeCombo>(rng: &mut Rng, w: u32, s: u32, bps: &[(u32, Vec<u32>)], msgs: usize, rep: &mut Report) {
    let tag = format!("{}x{}", w, s);
    let m = mask(s);
    let u = 1u128 << (s - w);
    let mut caps = Caps::new();
    for mi in 0..msgs {
        let res = guarded(|| {
        let (b, p) = match mi % 3 {
            0 => { let (bb, ps) = bps.last().unwrap(); (*bb, *ps.last().unwrap()) } // P = W-ish
            1 => { let (bb, ps) = &bps[0]; (*bb, ps[0]) }                          // small P
            _ => pick_bp(rng, bps),
        };
        let total = pow2(p);
        // uniform-like tables with 2^k symbols, or skewed ones
        let cdf: Vec<u128> = match rng.next() % 4 {
            0 | 1 => {
                let k = (1 + rng.next() % 8).min(p as u64) as u32;
                (0..=(1u128 << k)).map(|i| i << (p - k)).collect()
            }
            2 => {
                // geometric: 1/2, 1/4, ... down to one quantum
                let mut v = vec![0u128];
                let mut acc = 0u128;
                let mut width = total / 2;
                while width >= 1 && acc + width < total && v.len() < 40 {
                    acc += width;
                    v.push(acc);
                    width /= 2;
                }
                v.push(total);
                v
            }
            _ => gen_cdf(rng, p),
        };
        if cdf.len() < 3 {
            return; // a one-symbol table is not a model
        }
        let n = 200 + (rng.next() % 1801) as usize;
        let head = format!("range {:x} {:x} | new", w, s);
        let mut coder: Enc<C> = RangeEncoder::new();
        let mut bound = SizeBound::new();
        let mut reference = RefCoder::new(s);
        let mut syms: Vec<usize> = Vec::with_capacity(n);
        let mut max_held = 0usize;
        let mut renorms_while_inverted = 0usize;
        let mut failed = false;
        note("C12", &format!("{} | ({:x} symbols of table {} at B={:x} P={:x}, each containing the next word boundary)", head, n, show_list(cdf.clone()), b, p));
        let replay = |syms: &Vec<usize>, cdf: &Vec<u128>| -> String {
            let mut t = head.clone();
            for &sy in syms {
                t.push_str(&format!(" | enc {:x} {:x} {:x} {:x}", b, p, cdf[sy], cdf[sy + 1] - cdf[sy]));
            }
            t
        };
        for step in 0..n {
            let st = coder.state();
            let (lower, range) = (to_u128(st.lower()), to_u128(st.range().get()));
            let scale = range >> p;
            let wraps = lower.checked_add(range).map_or(true, |x| s < 128 && x > m);
            let dist = if wraps { lower.wrapping_neg() & m } else { u - (lower & (u - 1)) };
            let q = if scale == 0 { 0 } else { (dist / scale).min(total - 1) };
            let tm = TableModel::<u8, 1>::new(cdf.clone());
            let mut sym = tm.find(q).min(cdf.len() - 2);
            if rng.chance(1, 50) {
                sym = rng.below(cdf.len() as u128 - 1) as usize; // occasionally leave the regime
            }
            let held_before = coder.pos().0 - coder.bulk().len();
            let words_before = coder.pos().0;
            syms.push(sym);
            if step % 16 == 0 {
                // (re-announced every 16 symbols: building the line is linear in its length)
                note("C12", &format!("{} | nb | nw | export", replay(&syms, &cdf)));
            }
            let o = guarded(|| C::enc_sym(&mut coder, b, p, &cdf, sym).unwrap());
            rep.eval("C02");
            if o != Ok("ok".to_string()) {
                caps.fail(rep, "C02", &tag, format!("{} => encoding an in-support symbol returned {:?}", replay(&syms, &cdf), o));
                failed = true;
                break;
            }
            let held = coder.pos().0 - coder.bulk().len();
            if held_before > 0 && held > held_before && coder.pos().0 > words_before {
                renorms_while_inverted += 1;
            }
            max_held = max_held.max(held);
            bound.push(w, s, p, cdf[sym + 1] - cdf[sym]);
            reference.step(w, s, p, cdf[sym], cdf[sym + 1] - cdf[sym]);
            rep.eval("C12");
            let (nw, nb) = (coder.num_words(), coder.num_bits());
            if !bound.holds(w, s, nb) || nw > step + 1 + 2 {
                caps.fail(rep, "C12", &tag, format!("{} | nb | nw => {:x} bits / {:x} words after {:x} symbols exceed the bound (adversarial message, {:x} words held back)", replay(&syms, &cdf), nb, nw, step + 1, held));
                failed = true;
                break;
            }
            if (step + 1) % 256 == 0 || step + 1 == n {
                rep.eval("C06");
                let got = export::<C>(&coder);
                let want = reference.words(w, s);
                if got != want {
                    caps.fail(rep, "C06", &tag, format!("{} | export => differs from the arbitrary-precision reference coder after {:x} symbols (first difference at word {:x})", replay(&syms, &cdf), step + 1, got.iter().zip(want.iter()).position(|(a, b)| a != b).unwrap_or(got.len().min(want.len()))));
                    failed = true;
                    break;
                }
            }
        }
        let bucket = |x: usize| -> &'static str { match x { 0 => "0", 1 => "1", 2 => "2", 3..=4 => "3-4", 5..=8 => "5-8", 9..=16 => "9-16", _ => "17+" } };
        rep.count(&format!("C12.adversarial.{}.messages", tag));
        rep.count(&format!("C12.adversarial.{}.max_consecutive_inverted_renorms.{}", tag, bucket(max_held)));
        if max_held >= 2 {
            rep.count(&format!("C12.adversarial.{}.stayed_inverted_across_renorms", tag));
        }
        for _ in 0..renorms_while_inverted.min(1) {
            rep.count(&format!("C12.adversarial.{}.messages_with_inverted_renorm", tag));
        }
        if failed {
            return;
        }
        // round trip
        note("C02", &format!("{} | export | intodec | {:x} × dec {:x} {:x} {}", replay(&syms, &cdf), syms.len(), b, p, show_list(cdf.clone())));
        let sealed = coder.into_compressed().unwrap();
        let mut d: Dec<C> = RangeDecoder::from_compressed(sealed).unwrap();
        rep.eval("C02");
        for (i, &sy) in syms.iter().enumerate() {
            let o = guarded(|| C::dec(&mut d, b, p, &cdf).unwrap());
            if o != Ok(hex(sy as u128)) {
                caps.fail(rep, "C02", &tag, format!("{} | intodec | {:x} × dec {:x} {:x} {} => symbol {:x} decoded as {:?} expected {:x}", replay(&syms, &cdf), i + 1, b, p, show_list(cdf.clone()), i, o, sy));
                failed = true;
                break;
            }
        }
        if !failed && !d.maybe_exhausted() {
            caps.fail(rep, "C02", &tag, format!("{} | intodec | … | exhausted => false after the last symbol", replay(&syms, &cdf)));
        }
        rep.sample("C12", || format!("adversarial: {} symbols at B={:x} P={:x} table {} on {}: up to {} words held back", n, b, p, show_list(cdf.clone()), tag, max_held));
        });
        if let Err(class) = res {
            panic_fail(rep, &mut caps, &tag, class);
        }
    }
}

/// C12: long messages of one repeated symbol.  For every probability `q` of a search range
/// (at `P == W` where the types allow it, and at a smaller precision) the symbol of probability
/// `q / 2^P` is encoded `n` times; the bit bound is screened in floating point after every 50
/// symbols and every suspicious prefix is confirmed with exact integer arithmetic before it is
/// reported.  Losing a fraction of a bit per symbol (e.g. a scale computed from the top words of
/// `range` only, which hurts when the top word of `range` is periodically small, `q^2 ≈ 2^k`)
/// shows up here and nowhere in short random messages.
fn repeated_symbol_combo<C: RangeCombo>(rng: &mut Rng, w: u32, s: u32, bps: &[(u32, Vec<u32>)], nq: usize, n: usize, rep: &mut Report) {
    let tag = format!("{}x{}", w, s);
    let mut caps = Caps::new();
    // (B, P): the largest precision and a small one
    let (bl, pl) = { let (bb, ps) = bps.last().unwrap(); (*bb, *ps.last().unwrap()) };
    let small: Vec<(u32, u32)> = bps.iter().flat_map(|(b, ps)| ps.iter().filter(|&&p| p >= 3 && p < pl).map(move |&p| (*b, p))).collect();
    let mut configs = vec![(bl, pl)];
    if !small.is_empty() {
        configs.push(*rng.pick(&small));
    }
    let mut worst = f64::NEG_INFINITY;
    for (b, p) in configs {
        let total = pow2(p);
        let qmax = (total - 1).min(2048);
        // the search range 2..=qmax: all of it if it fits the budget, else a random sample that
        // always contains the values next to powers of two and their square roots
        let mut qs: Vec<u128> = if (qmax as usize) <= nq { (2..=qmax).collect() } else {
            let mut v: Vec<u128> = Vec::new();
            for k in 1..=11u32 {
                for d in [0i64, -1, 1, -2, 2, -3, 3] {
                    for base in [1u128 << k, ((1u128 << (2 * k + 1)) as f64).sqrt() as u128, ((1u128 << (2 * k)) as f64 * 1.5).sqrt() as u128] {
                        let q = base as i64 + d;
                        if q >= 2 && (q as u128) <= qmax { v.push(q as u128); }
                    }
                }
            }
            while v.len() < nq { v.push(rng.range(2, qmax)); }
            v
        };
        qs.sort();
        qs.dedup();
        let k = (s - w - p) as f64;
        let per_symbol_allow = |q: u128| (p as f64) - (q as f64).log2() + (1.0 + (-k).exp2()).log2();
        for &q in &qs {
            let res = guarded(|| {
            if q >= total { return; }
            // the symbol [cum, cum + q): first, last or in the middle of the table
            let cum = match rng.next() % 3 { 0 => 0, 1 => total - q, _ => rng.below(total - q + 1) };
            let (cdf, sym) = cdf_around(p, cum, cum + q);
            let prob = cdf[sym + 1] - cdf[sym];
            let mut coder: Enc<C> = RangeEncoder::new();
            note("C12", &format!("range {:x} {:x} | new | {:x} × (enc {:x} {:x} {:x} {:x}) | nb", w, s, n, b, p, cdf[sym], prob));
            let allow = per_symbol_allow(prob);
            rep.eval("C12");
            let mut suspicious: Option<usize> = None;
            for i in 1..=n {
                if guarded(|| C::enc_sym(&mut coder, b, p, &cdf, sym).unwrap()) != Ok("ok".to_string()) {
                    caps.fail(rep, "C02", &tag, format!("range {:x} {:x} | new | {:x} × enc {:x} {:x} {:x} {:x} => not ok", w, s, i, b, p, cdf[sym], prob));
                    break;
                }
                if i % 50 == 0 || i == n {
                    let excess = coder.num_bits() as f64 - (i as f64) * allow - (s + 2 * w) as f64;
                    if excess > worst { worst = excess; }
                    if excess > -0.5 {
                        suspicious = Some(i);
                        break;
                    }
                }
            }
            if let Some(i) = suspicious {
                // exact confirmation on a fresh encoder
                let mut c2: Enc<C> = RangeEncoder::new();
                let mut bound = SizeBound::new();
                let mut line = format!("range {:x} {:x} | new", w, s);
                for j in 1..=i {
                    C::enc_sym(&mut c2, b, p, &cdf, sym).unwrap();
                    bound.push(w, s, p, prob);
                    line.push_str(&format!(" | enc {:x} {:x} {:x} {:x}", b, p, cdf[sym], prob));
                    if !bound.holds(w, s, c2.num_bits()) {
                        caps.fail(rep, "C12", &tag, format!("{} | nb => {:x} bits after {:x} × the symbol of probability {:x}/2^{:x} exceed the bound (repeated-symbol message)", line, c2.num_bits(), j, prob, p));
                        break;
                    }
                }
            }
            rep.count(&format!("C12.repeated.{}.messages", tag));
            });
            if let Err(class) = res {
                panic_fail(rep, &mut caps, &tag, class);
            }
        }
    }
    // how close the worst message came to the bound (bits of slack left, bucketed)
    let slack = -worst;
    let bucket = if slack < 0.0 { "exceeded" } else if slack < 8.0 { "<8" } else if slack < 32.0 { "<32" } else if slack < 128.0 { "<128" } else { ">=128" };
    rep.count(&format!("C12.repeated.{}.min_slack_bits.{}", tag, bucket));
}

/// decode phase of the batch oracle on any backend: `plan` = list of (b, p, cdf, form, n, err_at);
/// the batch decoder must return what the per-symbol loop on the twin returns and leave the same
/// decoder state (also after an `Err` item or `InvalidData` part-way)
fn batch_decode_phase<C: RangeCombo, Bk>(
    mut d: RangeDecoder<C::W, C::S, Bk>,
    mut twin: Dec<C>,
    plan: &[(u32, u32, Vec<u128>, u32, usize, Option<usize>)],
    desc: &str,
    backend: &str,
    tag: &str,
    caps: &mut Caps,
    rep: &mut Report,
) where
    Bk: ReadWords<C::W, Queue> + Clone + Pos + Seek + constriction::PosSeek<Position = usize>,
{
    let mut line = desc.to_string();
    for (b, p, cdf, form, n, err_at) in plan {
        line.push_str(&format!(" | decs {:x} {:x} {:x} {} {:x} {}", b, p, form, show_list(cdf.clone()), n, err_at.map(|j| hex(j as u128)).unwrap_or("-".into())));
        note("C02", &line);
        let got = guarded(|| C::dec_batch(&mut d, *b, *p, *form, cdf, *n, *err_at).unwrap());
        // the caller's loop
        let mut out: Vec<u128> = Vec::new();
        let mut expected: Option<String> = None;
        for i in 0..*n {
            if *form == 1 && Some(i) == *err_at {
                expected = Some(format!("{} modelerr", show_list(out.clone())));
                break;
            }
            match guarded(|| C::dec(&mut twin, *b, *p, cdf).unwrap()) {
                Ok(o) => match parse_hex(&o) {
                    Some(sy) if o != "invalid_data" => out.push(sy),
                    _ => {
                        expected = Some(format!("{} {}", show_list(out.clone()), o));
                        break;
                    }
                },
                Err(class) => {
                    expected = Some(class.to_string());
                    break;
                }
            }
        }
        let partway = expected.is_some();
        let expected = expected.unwrap_or_else(|| show_list(out.clone()));
        rep.eval("C02");
        rep.count(&format!("batch.dec.form{}.{}.{}", form, backend, if !partway { "complete" } else if expected.ends_with("modelerr") { "err_item_partway" } else { "invalid_data_partway" }));
        let same_state = show_dec_any::<C, Bk>(&d) == show_dec::<C>(&twin);
        if got != Ok(expected.clone()) || !same_state {
            caps.fail(rep, "C02", tag, format!("{} => batch form returned {:?} / decoder {}, the per-symbol loop {} / decoder {}", line, got, show_dec_any::<C, Bk>(&d), expected, show_dec::<C>(&twin)));
            return;
        }
        if partway && !expected.ends_with("modelerr") {
            return; // invalid data: nothing more to compare on this stream
        }
    }
    rep.eval("C18");
    let (a, b2, c2) = (d.maybe_exhausted(), Code::decoder_maybe_exhausted::<8>(&d), Decode::<8>::maybe_exhausted(&d));
    if a != twin.maybe_exhausted() || a != b2 || a != c2 {
        caps.fail(rep, "C18", tag, format!("{} | exhausted | exhausted2 => inherent {} / Code::decoder_maybe_exhausted {} / Decode::maybe_exhausted {} / per-symbol twin {}", line, a, b2, c2, twin.maybe_exhausted()));
    }
}

/// C02 / C09 (default trait methods of src/stream/mod.rs instantiated for the range coder):
/// `encode_symbols`, `try_encode_symbols`, `encode_iid_symbols`, `decode_symbols`,
/// `try_decode_symbols`, `decode_iid_symbols` against the caller's per-symbol loop on a twin,
/// including the state left behind by a batch that fails part-way; `IntoDecoder::into_decoder`,
/// `RangeDecoder::for_compressed`, `Code::{encoder_maybe_full, decoder_maybe_exhausted}`.
fn batch_combo<C: RangeCombo>(rng: &mut Rng, w: u32, s: u32, bps: &[(u32, Vec<u32>)], iters: usize, rep: &mut Report) {
    let tag = format!("{}x{}", w, s);
    let mut caps = Caps::new();
    for _ in 0..iters {
        let res = guarded(|| {
        let mut coder: Enc<C> = RangeEncoder::new();
        let mut twin: Enc<C> = RangeEncoder::new();
        let mut desc = format!("range {:x} {:x} | new", w, s);
        let mut runs: Vec<(u32, u32, Vec<u128>, usize)> = Vec::new(); // (b, p, cdf, symbols encoded)
        let mut ok = true;
        for _ in 0..(1 + rng.next() % 5) {
            let (b, p) = pick_bp(rng, bps);
            let cdf = if rng.chance(1, 2) { gen_cdf(rng, p) } else { steer::<C>(rng, &coder, w, s, p, &[], b).0 };
            let k = (rng.next() % 8) as usize;
            let mut syms: Vec<usize> = (0..k).map(|_| rng.below(cdf.len() as u128 - 1) as usize).collect();
            let form = *rng.pick(&[0u32, 2, 4]);
            let mut err_at: Option<usize> = None;
            if k > 0 && rng.chance(1, 3) {
                let j = rng.below(k as u128) as usize;
                if form == 2 && rng.chance(1, 2) {
                    err_at = Some(j);
                } else {
                    syms[j] = match rng.next() % 3 { 0 => cdf.len() - 1, 1 => cdf.len() + 0x1_0000_0000usize, _ => usize::MAX };
                }
            }
            desc.push_str(&format!(" | encs {:x} {:x} {:x} {} {} {}", b, p, form, show_list(cdf.clone()), show_list(syms.iter().map(|&x| x as u128).collect::<Vec<_>>()), err_at.map(|j| hex(j as u128)).unwrap_or("-".into())));
            note("C02", &format!("{} | raw", desc));
            let got = guarded(|| C::enc_batch(&mut coder, b, p, form, &cdf, &syms, err_at).unwrap());
            // the caller's loop on the twin
            let mut expected = "ok".to_string();
            let mut done = 0usize;
            for (i, &sy) in syms.iter().enumerate() {
                if form == 2 && Some(i) == err_at {
                    expected = "modelerr".into();
                    break;
                }
                match guarded(|| C::enc_sym(&mut twin, b, p, &cdf, sy).unwrap()) {
                    Ok(o) if o == "ok" => done += 1,
                    Ok(o) => {
                        expected = o;
                        break;
                    }
                    Err(class) => {
                        expected = class.to_string();
                        break;
                    }
                }
            }
            rep.eval("C02");
            let partway = expected != "ok";
            if partway {
                rep.eval("C09");
            }
            rep.count(&format!("batch.enc.form{}.{}", form, if !partway { "complete" } else if expected == "modelerr" { "err_item_partway" } else { "impossible_partway" }));
            if got != Ok(expected.clone()) || show_enc::<C>(&coder) != show_enc::<C>(&twin) {
                let text = format!("{} | raw => batch form returned {:?} and left {}, the per-symbol loop {} and {}", desc, got, show_enc::<C>(&coder), expected, show_enc::<C>(&twin));
                caps.fail(rep, "C02", &tag, text.clone());
                if partway {
                    caps.fail(rep, "C09", &tag, text);
                }
                ok = false;
                break;
            }
            if done > 0 {
                runs.push((b, p, cdf, done));
            }
        }
        if !ok {
            return;
        }
        // trait forms of the fullness query
        rep.eval("C18");
        if coder.maybe_full() || Encode::<8>::maybe_full(&coder) || Code::encoder_maybe_full::<8>(&coder) {
            caps.fail(rep, "C18", &tag, format!("{} | full => a Vec-backed encoder reports maybe_full", desc));
        }
        // decode plan: the runs, split into batches; a quarter of the streams are decoded with
        // the wrong tables (arbitrary data for those models)
        let wrong = rng.chance(1, 4);
        let mut plan: Vec<(u32, u32, Vec<u128>, u32, usize, Option<usize>)> = Vec::new();
        for (b, p, cdf, cnt) in &runs {
            let mut left = *cnt;
            while left > 0 {
                let form = (rng.next() % 3) as u32;
                let n = 1 + rng.below(left as u128) as usize;
                let err_at = if form == 1 && rng.chance(1, 2) { Some(rng.below(n as u128) as usize) } else { None };
                let table = if wrong { gen_cdf(rng, *p) } else { cdf.clone() };
                plan.push((*b, *p, table, form, n, err_at));
                left -= err_at.unwrap_or(n).max(if err_at == Some(0) { 0 } else { 1 }).min(left);
                if err_at == Some(0) && rng.chance(1, 2) {
                    break;
                }
            }
        }
        note("C02", &format!("{} | export | intodec", desc));
        let sealed_twin = export::<C>(&twin);
        // the decoder comes from `IntoDecoder::into_decoder` (trait form), the inherent
        // `into_decoder`, or `for_compressed` on a borrowed buffer
        match rng.next() % 3 {
            0 => {
                let d: Dec<C> = IntoDecoder::<8>::into_decoder(coder);
                let t: Dec<C> = RangeDecoder::from_compressed(words::<C::W>(&sealed_twin)).unwrap();
                desc.push_str(" | intodec2");
                batch_decode_phase::<C, _>(d, t, &plan, &desc, "into_decoder_trait", &tag, &mut caps, rep);
            }
            1 => {
                let d: Dec<C> = coder.into_decoder().unwrap();
                let t: Dec<C> = RangeDecoder::from_compressed(words::<C::W>(&sealed_twin)).unwrap();
                desc.push_str(" | intodec");
                batch_decode_phase::<C, _>(d, t, &plan, &desc, "into_decoder", &tag, &mut caps, rep);
            }
            _ => {
                let buf: Vec<C::W> = coder.into_compressed().unwrap();
                let d = RangeDecoder::<C::W, C::S, Cursor<C::W, &[C::W]>>::for_compressed(&buf).unwrap();
                let t: Dec<C> = RangeDecoder::from_compressed(words::<C::W>(&sealed_twin)).unwrap();
                let dd = format!("rangedec {:x} {:x} | borrowed {}", w, s, show_list(unwords(&buf)));
                batch_decode_phase::<C, _>(d, t, &plan, &dd, "for_compressed", &tag, &mut caps, rep);
            }
        }
        rep.sample("C09", || desc.clone());
        });
        if let Err(class) = res {
            panic_fail(rep, &mut caps, &tag, class);
        }
    }
}

/// C02 / C06 (+ C08 / C18): clear and reuse.  An encoder is driven to an arbitrary point —
/// preferably one at which words are held back — cleared, and used for a new message: its words
/// must be those of a fresh encoder (and of the reference coder) and must round-trip; right after
/// `clear()` it must be empty, report 0 words and show no words.
fn clear_combo<C: RangeCombo>(rng: &mut Rng, w: u32, s: u32, bps: &[(u32, Vec<u32>)], iters: usize, rep: &mut Report) {
    let tag = format!("{}x{}", w, s);
    let mut caps = Caps::new();
    for _ in 0..iters {
        let res = guarded(|| {
        let mut coder: Enc<C> = RangeEncoder::new();
        let mut ops = Vec::new();
        if rng.chance(3, 4) {
            steer_inverted::<C>(rng, &mut coder, w, s, bps, 12, &mut ops);
        } else {
            for _ in 0..(rng.next() % 10) {
                let (b, p) = pick_bp(rng, bps);
                let (cdf, sym) = steer::<C>(rng, &coder, w, s, p, &[], b);
                if C::enc_sym(&mut coder, b, p, &cdf, sym).unwrap() == "ok" {
                    ops.push((b, p, cdf, sym));
                }
            }
        }
        let mut desc = format!("range {:x} {:x} | new{}", w, s, msg_ops(&ops));
        note("C02", &format!("{} | clear | empty | nw | nb | getc", desc));
        let inv = enc_view::<C>(&coder).2;
        rep.count(&format!("C02.clear.{}.{}", if inv { "while_inverted" } else { "while_normal" }, tag));
        coder.clear();
        desc.push_str(" | clear");
        // right after clear: empty, no words, nothing to show (C18, C08)
        rep.eval("C18");
        rep.eval("C08");
        let view = guarded(|| unwords(&coder.get_compressed()));
        if !coder.is_empty() || coder.num_words() != 0 || coder.num_bits() != 0 || view != Ok(vec![]) {
            let text = format!("{} | empty | nw | nb | getc => is_empty {} num_words {:x} num_bits {:x} view {:?} right after clear()", desc, coder.is_empty(), coder.num_words(), coder.num_bits(), view.map(show_list));
            caps.fail(rep, "C18", &tag, text.clone());
            caps.fail(rep, "C08", &tag, text);
        }
        // a new message on the reused encoder and on a fresh one
        let mut fresh: Enc<C> = RangeEncoder::new();
        let mut reference = RefCoder::new(s);
        let mut msg: Vec<(u32, u32, Vec<u128>, usize)> = Vec::new();
        let n = rng.next() % 12;
        let mut ok = true;
        for _ in 0..n {
            let (b, p) = pick_bp(rng, bps);
            let (cdf, sym) = steer::<C>(rng, &fresh, w, s, p, &[], b);
            desc.push_str(&format!(" | enc {:x} {:x} {:x} {:x}", b, p, cdf[sym], cdf[sym + 1] - cdf[sym]));
            note("C02", &format!("{} | raw | export | spec", desc));
            let o1 = guarded(|| C::enc_sym(&mut coder, b, p, &cdf, sym).unwrap());
            let o2 = C::enc_sym(&mut fresh, b, p, &cdf, sym).unwrap();
            reference.step(w, s, p, cdf[sym], cdf[sym + 1] - cdf[sym]);
            rep.eval("C02");
            if o1 != Ok(o2.clone()) {
                caps.fail(rep, "C02", &tag, format!("{} => {:?} on the cleared encoder, {} on a fresh one", desc, o1, o2));
                ok = false;
                break;
            }
            msg.push((b, p, cdf, sym));
        }
        if !ok {
            return;
        }
        rep.eval("C02");
        rep.eval("C06");
        let got = guarded(|| export::<C>(&coder));
        let want = export::<C>(&fresh);
        let refw = reference.words(w, s);
        if got != Ok(want.clone()) || show_enc::<C>(&coder) != show_enc::<C>(&fresh) {
            let text = format!("{} | raw | export => cleared-and-reused encoder {} / {:?}, fresh encoder {} / {}", desc, show_enc::<C>(&coder), got.clone().map(show_list), show_enc::<C>(&fresh), show_list(want.clone()));
            caps.fail(rep, "C02", &tag, text);
        }
        if got != Ok(refw.clone()) {
            caps.fail(rep, "C06", &tag, format!("{} | export | spec => {:?} but the arbitrary-precision reference coder gives {} for the message after the clear", desc, got.clone().map(show_list), show_list(refw)));
        }
        // round trip of what the reused encoder outputs
        if let Ok(ws) = got {
            let mut d: Dec<C> = RangeDecoder::from_compressed(words::<C::W>(&ws)).unwrap();
            rep.eval("C02");
            match decode_expect::<C, _>(&mut d, &msg) {
                Ok(()) => {
                    if !d.maybe_exhausted() {
                        caps.fail(rep, "C02", &tag, format!("{} | intodec{} | exhausted => false after the last symbol", desc, msg_decs(&msg)));
                    }
                }
                Err(t) => caps.fail(rep, "C02", &tag, format!("{} | intodec{} => {}", desc, msg_decs(&msg), t)),
            }
        }
        });
        if let Err(class) = res {
            panic_fail(rep, &mut caps, &tag, class);
        }
    }
}

/// outcome of replaying a message into an encoder over some sink: the words the sink holds
/// after sealing, or the step at which the sink refused a word (with the words it took so far)
enum SinkRun {
    Sealed(Vec<u128>),
    Refused { at: String, words: Vec<u128> },
    Panicked(&'static str),
}

/// C11 / C02 / C06 / C09: encoder sinks other than `Vec`.  The same message (its final state
/// steered onto the word-boundary classes, so that the zero padding word is needed often) is
/// encoded into a `Vec`, into `Cursor<Word, Vec<Word>>` with spare room / exactly enough room /
/// one word too little, into `Cursor<Word, &mut [Word]>`, and into the fallible and infallible
/// callback sinks.  The sealed words must be those of the `Vec` sink and of the reference coder,
/// must survive arbitrary suffixes and back-to-back storage in one cursor (where the documented
/// weakness D3 does not apply), and a sink that refuses a word must produce a clean error with
/// the words accepted so far being a prefix of the right ones.
fn sink_combo<C: RangeCombo>(rng: &mut Rng, w: u32, s: u32, bps: &[(u32, Vec<u32>)], iters: usize, rep: &mut Report) {
    use constriction::backends::{FallibleCallbackWriteWords, InfallibleCallbackWriteWords};
    let tag = format!("{}x{}", w, s);
    let mut caps = Caps::new();
    let mw = mask(w);
    for _ in 0..iters {
        let res = guarded(|| {
            // ---- the message, built on a Vec-backed encoder ----
            let mut vref: Enc<C> = RangeEncoder::new();
            let mut reference = RefCoder::new(s);
            let mut msg: Vec<(u32, u32, Vec<u128>, usize)> = Vec::new();
            let n = 2 + (rng.next() % 10) as usize;
            // half of the messages aim at final states that need the zero padding word
            let want = if rng.chance(1, 2) { *rng.pick(&["2words&up=-1", "2words&up=-2", "2words&up=1", "2words&up=2"]) } else { pick_hunt_class(rng, w, s) };
            let head = format!("range {:x} {:x} | new", w, s);
            note("C02", &format!("{} | (steered message)", head));
            for step in 0..n {
                let (bl, pl) = { let (bb, ps) = bps.last().unwrap(); (*bb, *ps.last().unwrap()) };
                let (b, p, cdf, sym) = if step + 2 == n {
                    let (cdf, sym) = hunt_prep::<C>(rng, &vref, w, s, bl, pl, &[], want);
                    (bl, pl, cdf, sym)
                } else if step + 1 == n {
                    match hunt_final::<C>(rng, &vref, w, s, bl, pl, 32, want) {
                        Some((cdf, sym, _)) => (bl, pl, cdf, sym),
                        None => { let (cdf, sym) = steer::<C>(rng, &vref, w, s, pl, &[], bl); (bl, pl, cdf, sym) }
                    }
                } else {
                    let (b, p) = pick_bp(rng, bps);
                    let (cdf, sym) = steer::<C>(rng, &vref, w, s, p, &[], b);
                    (b, p, cdf, sym)
                };
                if C::enc_sym(&mut vref, b, p, &cdf, sym).unwrap() != "ok" {
                    return;
                }
                reference.step(w, s, p, cdf[sym], cdf[sym + 1] - cdf[sym]);
                msg.push((b, p, cdf, sym));
            }
            let plain = format!("{}{}", head, msg_ops(&msg));
            note("C02", &format!("{} | export", plain));
            // final state: padding word needed? documented weakness applicable?
            let (lo, r, _) = enc_view::<C>(&vref);
            let m = mask(s);
            let u = pow2(s - w);
            let up = lo.wrapping_add(r) & m;
            let pw = (lo.wrapping_add(u - 1) & m) >> (s - w);
            let padding = pw == up >> (s - w);
            let d3 = s > 2 * w && padding && (up & (u - 1)) < pow2(s - 2 * w);
            let want_words = export::<C>(&vref);
            let pad_tag = if padding { "padding_yes" } else { "padding_no" };
            let len = want_words.len();
            let check_sealed = |kind: &str, got: &SinkRun, rep: &mut Report, caps: &mut Caps| -> bool {
                rep.eval("C02");
                rep.eval("C06");
                rep.eval("C11");
                rep.count(&format!("sink.{}.{}.{}", kind, tag, pad_tag));
                match got {
                    SinkRun::Sealed(ws) if *ws == want_words => true,
                    SinkRun::Sealed(ws) => {
                        let text = format!("{} | export => sink `{}` holds {} after sealing, a Vec sink (and the reference coder) {}", plain, kind, show_list(ws.clone()), show_list(want_words.clone()));
                        caps.fail(rep, "C02", &tag, text.clone());
                        caps.fail(rep, "C06", &tag, text.clone());
                        caps.fail(rep, "C11", &tag, format!("{} ; suffix: none yet (the sealed words themselves differ, padding word {}) d3-condition={}", text, if padding { "needed" } else { "not needed" }, if d3 { "yes" } else { "no" }));
                        false
                    }
                    SinkRun::Refused { at, words } => {
                        caps.fail(rep, "C09", &tag, format!("{} | export => sink `{}` with enough room refused a word: {} (holds {})", plain, kind, at, show_list(words.clone())));
                        false
                    }
                    SinkRun::Panicked(class) => {
                        caps.fail(rep, "C02", &tag, format!("{} | export => sink `{}`: {}", plain, kind, class));
                        false
                    }
                }
            };
            if want_words != reference.words(w, s) {
                caps.fail(rep, "C06", &tag, format!("{} | export => {} but the reference coder gives {}", plain, show_list(want_words.clone()), show_list(reference.words(w, s))));
            }
            // ---- helper: seal through raw parts so that a refusing sink can still be inspected ----
            // (`into_compressed` drops the sink on error)
            macro_rules! run_cursor_vec {
                ($cap:expr) => {{
                    let cap: usize = $cap;
                    let r = guarded(|| {
                        let mut e = RangeEncoder::<C::W, C::S, Cursor<C::W, Vec<C::W>>>::with_backend(Cursor::new_at_write_beginning(vec![from_u128::<C::W>(0x5a & mw); cap]));
                        for (i, (b, p, cdf, sym)) in msg.iter().enumerate() {
                            let o = C::enc_sym_any(&mut e, *b, *p, cdf, *sym).unwrap();
                            if o != "ok" {
                                let (bk, _, _) = e.into_raw_parts();
                                let (buf, pos) = bk.into_buf_and_pos();
                                return SinkRun::Refused { at: format!("encode of symbol {:x} returned {}", i, o), words: unwords(&buf[..pos]) };
                            }
                        }
                        match e.into_compressed() {
                            Ok(bk) => {
                                let (buf, pos) = bk.into_buf_and_pos();
                                SinkRun::Sealed(unwords(&buf[..pos]))
                            }
                            Err(_) => SinkRun::Refused { at: "sealing returned OutOfSpace".into(), words: vec![] },
                        }
                    });
                    r.unwrap_or_else(SinkRun::Panicked)
                }};
            }
            // Cursor<Vec> with spare room and with exactly enough room
            let spare = run_cursor_vec!(len + 1 + (rng.next() % 8) as usize);
            let ok_spare = check_sealed("cursor_vec_spare", &spare, rep, &mut caps);
            let exact = run_cursor_vec!(len);
            check_sealed("cursor_vec_exact", &exact, rep, &mut caps);
            // one word too little: a clean refusal, words so far a prefix of the right ones
            if len > 0 {
                rep.eval("C09");
                rep.count(&format!("sink.cursor_vec_short.{}.{}", tag, pad_tag));
                match run_cursor_vec!(len - 1) {
                    SinkRun::Refused { at, words } => {
                        if !words.is_empty() && words[..] != want_words[..words.len().min(want_words.len())] {
                            caps.fail(rep, "C09", &tag, format!("{} | export => a cursor sink of {:x} words refused cleanly ({}) but holds {} which is not a prefix of {}", plain, len - 1, at, show_list(words), show_list(want_words.clone())));
                        }
                    }
                    SinkRun::Sealed(ws) => {
                        let text = format!("{} | export => a cursor sink with room for only {:x} words accepted the message as {} (a Vec sink gives {})", plain, len - 1, show_list(ws), show_list(want_words.clone()));
                        caps.fail(rep, "C09", &tag, text.clone());
                        caps.fail(rep, "C11", &tag, format!("{} ; suffix: n/a d3-condition={}", text, if d3 { "yes" } else { "no" }));
                    }
                    SinkRun::Panicked(class) => caps.fail(rep, "C09", &tag, format!("{} | export => a cursor sink of {:x} words: {} instead of an error", plain, len - 1, class)),
                }
            }
            // Cursor<&mut [Word]>
            {
                let mut buf: Vec<C::W> = vec![from_u128::<C::W>(0xa5 & mw); len + 3];
                let r = guarded(|| {
                    let mut e = RangeEncoder::<C::W, C::S, Cursor<C::W, &mut [C::W]>>::with_backend(Cursor::new_at_write_beginning(&mut buf[..]));
                    for (i, (b, p, cdf, sym)) in msg.iter().enumerate() {
                        let o = C::enc_sym_any(&mut e, *b, *p, cdf, *sym).unwrap();
                        if o != "ok" {
                            return Err(format!("encode of symbol {:x} returned {}", i, o));
                        }
                    }
                    match e.into_compressed() {
                        Ok(bk) => Ok(bk.into_buf_and_pos().1),
                        Err(_) => Err("sealing returned OutOfSpace".into()),
                    }
                });
                let got = match r {
                    Ok(Ok(pos)) => SinkRun::Sealed(unwords(&buf[..pos])),
                    Ok(Err(at)) => SinkRun::Refused { at, words: vec![] },
                    Err(class) => SinkRun::Panicked(class),
                };
                check_sealed("cursor_mut_slice", &got, rep, &mut caps);
            }
            // callback sinks collecting into a Vec
            {
                let mut collected: Vec<C::W> = Vec::new();
                let r = guarded(|| {
                    let mut e = RangeEncoder::<C::W, C::S, _>::with_backend(FallibleCallbackWriteWords::new(|x: C::W| -> Result<(), ()> { collected.push(x); Ok(()) }));
                    for (b, p, cdf, sym) in msg.iter() {
                        if C::enc_sym_any(&mut e, *b, *p, cdf, *sym).unwrap() != "ok" {
                            return Err("encode refused".to_string());
                        }
                    }
                    e.into_compressed().map(|_| ()).map_err(|_| "sealing refused".to_string())
                });
                let got = match r {
                    Ok(Ok(())) => SinkRun::Sealed(unwords(&collected)),
                    Ok(Err(at)) => SinkRun::Refused { at, words: unwords(&collected) },
                    Err(class) => SinkRun::Panicked(class),
                };
                check_sealed("fallible_callback", &got, rep, &mut caps);
            }
            {
                let mut collected: Vec<C::W> = Vec::new();
                let r = guarded(|| {
                    let mut e = RangeEncoder::<C::W, C::S, _>::with_backend(InfallibleCallbackWriteWords::new(|x: C::W| collected.push(x)));
                    for (b, p, cdf, sym) in msg.iter() {
                        if C::enc_sym_any(&mut e, *b, *p, cdf, *sym).unwrap() != "ok" {
                            return Err("encode refused".to_string());
                        }
                    }
                    e.into_compressed().map(|_| ()).map_err(|_| "sealing refused".to_string())
                });
                let got = match r {
                    Ok(Ok(())) => SinkRun::Sealed(unwords(&collected)),
                    Ok(Err(at)) => SinkRun::Refused { at, words: unwords(&collected) },
                    Err(class) => SinkRun::Panicked(class),
                };
                check_sealed("infallible_callback", &got, rep, &mut caps);
            }
            // a fallible callback that refuses the k-th word: clean error, prefix property (C09)
            if len > 0 {
                let k = rng.below(len as u128) as usize;
                let mut collected: Vec<C::W> = Vec::new();
                rep.eval("C09");
                rep.count(&format!("sink.fallible_callback_refusing.{}.{}", tag, pad_tag));
                let r = guarded(|| {
                    let mut e = RangeEncoder::<C::W, C::S, _>::with_backend(FallibleCallbackWriteWords::new(|x: C::W| -> Result<(), ()> { if collected.len() == k { Err(()) } else { collected.push(x); Ok(()) } }));
                    for (b, p, cdf, sym) in msg.iter() {
                        if C::enc_sym_any(&mut e, *b, *p, cdf, *sym).unwrap() != "ok" {
                            return true;
                        }
                    }
                    e.into_compressed().is_err()
                });
                match r {
                    Ok(true) => {
                        if unwords(&collected)[..] != want_words[..k] {
                            caps.fail(rep, "C09", &tag, format!("{} | export => a callback sink refusing word {:x} had been given {} before, not a prefix of {}", plain, k, show_list(unwords(&collected)), show_list(want_words.clone())));
                        }
                    }
                    Ok(false) => caps.fail(rep, "C09", &tag, format!("{} | export => a callback sink refusing word {:x} was not reported as an error", plain, k)),
                    Err(class) => caps.fail(rep, "C09", &tag, format!("{} | export => a callback sink refusing word {:x}: {} instead of an error", plain, k, class)),
                }
            }
            // ---- C11 on the words a non-Vec sink holds: suffixes and back-to-back storage ----
            let _ = ok_spare;
            if let SinkRun::Sealed(ws) = &spare {
                let k = 1 + (rng.next() % (s / w + 2) as u64) as usize;
                let mut zero_ones = vec![mw; k + 1];
                zero_ones[0] = 0;
                let suffixes: Vec<Vec<u128>> = vec![vec![mw; k], vec![0; k], zero_ones, gen_words(rng, w, k)];
                for suffix in suffixes {
                    rep.eval("C11");
                    let mut data = ws.clone();
                    data.extend(suffix.iter().copied());
                    note("C11", &format!("{} | export ; suffix {}", plain, show_list(suffix.clone())));
                    let mut d: Dec<C> = RangeDecoder::from_compressed(words::<C::W>(&data)).unwrap();
                    if let Err(t) = decode_expect::<C, _>(&mut d, &msg) {
                        rep.count(&format!("C11.sink_failures.{}.d3-condition={}", tag, if d3 { "yes" } else { "no" }));
                        if !d3 {
                            caps.fail(rep, "C11", &tag, format!("{} | export => {} in a cursor sink ; suffix {} ; decoding sealed++suffix with{} => {} d3-condition=no", plain, show_list(ws.clone()), show_list(suffix.clone()), msg_decs(&msg), t));
                        }
                        break;
                    }
                }
                // two messages back to back in one cursor
                if !d3 {
                    rep.eval("C11");
                    let r = guarded(|| {
                        let cap = 2 * len + 8;
                        let mut e = RangeEncoder::<C::W, C::S, Cursor<C::W, Vec<C::W>>>::with_backend(Cursor::new_at_write_beginning(vec![from_u128::<C::W>(0); cap]));
                        for (b, p, cdf, sym) in msg.iter() {
                            C::enc_sym_any(&mut e, *b, *p, cdf, *sym).unwrap();
                        }
                        let cur = e.into_compressed().map_err(|_| ()).unwrap();
                        let pos1 = cur.pos();
                        // the second message (the same symbols again) right behind the first
                        let mut e2 = RangeEncoder::<C::W, C::S, Cursor<C::W, Vec<C::W>>>::with_backend(cur);
                        for (b, p, cdf, sym) in msg.iter() {
                            C::enc_sym_any(&mut e2, *b, *p, cdf, *sym).unwrap();
                        }
                        let (buf, pos2) = e2.into_compressed().map_err(|_| ()).unwrap().into_buf_and_pos();
                        (unwords(&buf[..pos2]), pos1)
                    });
                    note("C11", &format!("{} | export ; suffix = the same message sealed again right behind it in one cursor", plain));
                    match r {
                        Ok((all, pos1)) => {
                            let mut d1: Dec<C> = RangeDecoder::from_compressed(words::<C::W>(&all)).unwrap();
                            let r1 = decode_expect::<C, _>(&mut d1, &msg);
                            let mut d2: Dec<C> = RangeDecoder::from_compressed(words::<C::W>(&all[pos1..])).unwrap();
                            let r2 = decode_expect::<C, _>(&mut d2, &msg);
                            if let Err(t) = r1.and(r2) {
                                caps.fail(rep, "C11", &tag, format!("{} | export ; suffix = the same message sealed again right behind it in one cursor: buffer {} (second message starts at word {:x}) => {} d3-condition=no", plain, show_list(all), pos1, t));
                            }
                        }
                        Err(class) => caps.fail(rep, "C11", &tag, format!("{} | export ; two messages back to back in one cursor => {} d3-condition=no", plain, class)),
                    }
                }
            }
        });
        if let Err(class) = res {
            panic_fail(rep, &mut caps, &tag, class);
        }
    }
}

fn desc_with_snaps(head: &str, msg: &[(u32, u32, Vec<u128>, usize)]) -> String {
    let mut s = format!("{} | snap", head);
    for (b, p, cdf, sym) in msg {
        s.push_str(&format!(" | enc {:x} {:x} {:x} {:x} | snap", b, p, cdf[*sym], cdf[*sym + 1] - cdf[*sym]));
    }
    s
}

fn all_classes<C: RangeCombo>(rng: &mut Rng, tier: &str, w: u32, s: u32, bps: &[(u32, Vec<u32>)], rep: &mut Report) {
    let iters = if tier == "thorough" { 20000 } else { 1200 };
    let adv = if tier == "thorough" { 60 } else { 6 };
    let (nq, nrep) = if tier == "thorough" { (2048, 2000) } else { (400, 2000) };
    // short random / steered histories first (their replays are the shortest), then the long
    // adversarial messages, then the repeated-symbol search
    oracle_combo::<C>(rng, w, s, bps, iters, rep);
    batch_combo::<C>(rng, w, s, bps, iters / 3, rep);
    clear_combo::<C>(rng, w, s, bps, iters / 3, rep);
    sink_combo::<C>(rng, w, s, bps, iters / 4, rep);
    adversarial_combo::<C>(rng, w, s, bps, adv, rep);
    repeated_symbol_combo::<C>(rng, w, s, bps, nq, nrep, rep);
}

pub fn oracle(rng: &mut Rng, tier: &str, rep: &mut Report) {
    for (w, s, bps) in combos() {
        match (w, s) {
            (8, 16) => all_classes::<C8x16>(rng, tier, w, s, &bps, rep),
            (8, 32) => all_classes::<C8x32>(rng, tier, w, s, &bps, rep),
            (8, 64) => all_classes::<C8x64>(rng, tier, w, s, &bps, rep),
            (16, 32) => all_classes::<C16x32>(rng, tier, w, s, &bps, rep),
            (16, 64) => all_classes::<C16x64>(rng, tier, w, s, &bps, rep),
            (32, 64) => all_classes::<C32x64>(rng, tier, w, s, &bps, rep),
            (32, 128) => all_classes::<C32x128>(rng, tier, w, s, &bps, rep),
            (64, 128) => all_classes::<C64x128>(rng, tier, w, s, &bps, rep),
            _ => {}
        }
    }
}
