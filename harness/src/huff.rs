//! Component `huff`: protocol runner (real code), case generator, implementation-level oracles
//! for the Huffman codebooks (`constriction::symbol::huffman`).
//!
//! Protocol (see `lean/CV/Driver/Huff.lean`): `huff <ty> [k] | <weights> | op | op …`.
//! The trees' `nodes` fields are private; they are observed through the derived `Debug` impl.
#![allow(unused)]
use crate::util::*;
use constriction::symbol::huffman::{DecoderHuffmanTree, EncoderHuffmanTree};
use constriction::symbol::{DecoderCodebook, EncoderCodebook, SymbolCodeError};
use constriction::CoderError;
use std::collections::BinaryHeap;
use std::cmp::Reverse;
use std::convert::Infallible;

// ---------------------------------------------------------------------------------------------
// construction

/// `Ok(tree)`, or the canonical status string
type Built = (Result<EncoderHuffmanTree, String>, Result<DecoderHuffmanTree, String>);

fn flatten_guard<T, E>(r: Result<Result<T, E>, &'static str>) -> Result<T, String> {
    match r {
        Ok(Ok(t)) => Ok(t),
        Ok(Err(_)) => Err("rejected".to_string()),
        Err(class) => Err(class.to_string()),
    }
}

fn build_int<P>(ws: &[Option<u128>]) -> Built
where
    P: num_traits::PrimInt + Ord + Clone + core::ops::Add<Output = P>,
{
    let conv: Vec<Option<P>> = ws.iter().map(|w| w.map(|v| from_u128::<P>(v))).collect();
    if conv.iter().all(|w| w.is_some()) {
        // plain constructor (borrowed items)
        let v: Vec<P> = conv.iter().map(|w| w.unwrap()).collect();
        let e = guarded(|| Ok::<_, ()>(EncoderHuffmanTree::from_probabilities::<P, _>(&v)));
        let d = guarded(|| Ok::<_, ()>(DecoderHuffmanTree::from_probabilities::<P, _>(&v)));
        (flatten_guard(e), flatten_guard(d))
    } else {
        let e = guarded(|| {
            EncoderHuffmanTree::try_from_probabilities::<P, (), _>(conv.iter().map(|w| w.ok_or(())))
        });
        let d = guarded(|| {
            DecoderHuffmanTree::try_from_probabilities::<P, (), _>(conv.iter().map(|w| w.ok_or(())))
        });
        (flatten_guard(e), flatten_guard(d))
    }
}

fn build_f32(ws: &[Option<u128>]) -> Built {
    let v: Vec<f32> = ws.iter().map(|w| w.map(|v| f32::from_bits(v as u32)).unwrap_or(f32::NAN)).collect();
    let e = guarded(|| EncoderHuffmanTree::from_float_probabilities::<f32, _>(&v));
    let d = guarded(|| DecoderHuffmanTree::from_float_probabilities::<f32, _>(&v));
    (flatten_guard(e), flatten_guard(d))
}

fn build_f64(ws: &[Option<u128>]) -> Built {
    let v: Vec<f64> = ws.iter().map(|w| w.map(|v| f64::from_bits(v as u64)).unwrap_or(f64::NAN)).collect();
    let e = guarded(|| EncoderHuffmanTree::from_float_probabilities::<f64, _>(&v));
    let d = guarded(|| DecoderHuffmanTree::from_float_probabilities::<f64, _>(&v));
    (flatten_guard(e), flatten_guard(d))
}

/// `ws`: values for integer types, IEEE bit patterns for float types; `None` = NaN / `Err` item.
/// A weight that does not fit the type is malformed (`None` result).
fn build(ty: &str, ws: &[Option<u128>]) -> Option<Built> {
    let bits = match ty {
        "u8" => 8,
        "u16" => 16,
        "u32" | "f32" => 32,
        "u64" | "usize" | "f64" => 64,
        _ => return None,
    };
    if ws.iter().any(|w| matches!(w, Some(v) if *v >= pow2(bits))) {
        return None;
    }
    Some(match ty {
        "u8" => build_int::<u8>(ws),
        "u16" => build_int::<u16>(ws),
        "u32" => build_int::<u32>(ws),
        "u64" => build_int::<u64>(ws),
        "usize" => build_int::<usize>(ws),
        "f32" => build_f32(ws),
        "f64" => build_f64(ws),
        _ => return None,
    })
}

/// protocol weights for integer *values* `v · 2^-k` (floats: the bit pattern of that value)
fn to_proto(ty: &str, vals: &[Option<u128>], k: u32) -> Vec<Option<u128>> {
    vals.iter()
        .map(|w| {
            w.map(|v| match ty {
                "f32" => (v as f32 * (2.0f32).powi(-(k as i32))).to_bits() as u128,
                "f64" => (v as f64 * (2.0f64).powi(-(k as i32))).to_bits() as u128,
                _ => v,
            })
        })
        .collect()
}

fn proto_str(ws: &[Option<u128>]) -> String {
    if ws.is_empty() {
        return "-".into();
    }
    ws.iter().map(|w| match w { Some(v) => hex(*v), None => "nan".to_string() }).collect::<Vec<_>>().join(",")
}

fn type_bits(ty: &str) -> Option<u32> {
    match ty {
        "u8" => Some(8),
        "u16" => Some(16),
        "u32" => Some(32),
        "u64" | "usize" => Some(64),
        _ => None,
    }
}

fn parse_weights(s: &str) -> Option<Vec<Option<u128>>> {
    if s == "-" {
        return Some(vec![]);
    }
    s.split(',')
        .map(|t| if t == "nan" { Some(None) } else { parse_hex(t).map(Some) })
        .collect()
}

/// all unsigned decimal numbers occurring in a `Debug` rendering
fn numbers_in(s: &str) -> Vec<u128> {
    let mut out = Vec::new();
    let mut cur: Option<u128> = None;
    for c in s.chars() {
        if let Some(d) = c.to_digit(10) {
            cur = Some(cur.unwrap_or(0) * 10 + d as u128);
        } else if let Some(v) = cur.take() {
            out.push(v);
        }
    }
    if let Some(v) = cur {
        out.push(v);
    }
    out
}

fn enc_nodes(t: &EncoderHuffmanTree) -> Vec<u128> {
    numbers_in(&format!("{:?}", t))
}
fn dec_nodes(t: &DecoderHuffmanTree) -> Vec<u128> {
    numbers_in(&format!("{:?}", t))
}

// ---------------------------------------------------------------------------------------------
// encode / decode observers

fn show_bits(bits: &[bool]) -> String {
    if bits.is_empty() {
        "-".into()
    } else {
        bits.iter().map(|&b| if b { '1' } else { '0' }).collect()
    }
}

/// `Ok(bits)` / `Err("impossible")`; `full` = the emit callback returned an error
fn encode_with(
    t: &EncoderHuffmanTree,
    prefix: bool,
    s: usize,
    cap: Option<usize>,
) -> (Vec<bool>, &'static str) {
    let mut bits = Vec::new();
    let emit = |b: bool| -> Result<(), ()> {
        if let Some(c) = cap {
            if bits.len() >= c {
                return Err(());
            }
        }
        bits.push(b);
        Ok(())
    };
    let r = if prefix { t.encode_symbol_prefix(s, emit) } else { t.encode_symbol_suffix(s, emit) };
    let status = match r {
        Ok(()) => "ok",
        Err(CoderError::Frontend(_)) => "impossible",
        Err(CoderError::Backend(())) => "full",
    };
    (bits, status)
}

fn encode_str(t: &EncoderHuffmanTree, prefix: bool, s: u128, cap: Option<usize>) -> String {
    if s > usize::MAX as u128 {
        return "bad-op".into();
    }
    let (bits, status) = encode_with(t, prefix, s as usize, cap);
    if status == "impossible" {
        "impossible".into()
    } else {
        format!("{} {}", show_bits(&bits), status)
    }
}

fn parse_src(s: &str) -> Option<Vec<Option<bool>>> {
    if s == "-" {
        return Some(vec![]);
    }
    s.chars()
        .map(|c| match c {
            '0' => Some(Some(false)),
            '1' => Some(Some(true)),
            'x' => Some(None),
            _ => None,
        })
        .collect()
}

fn show_src(src: &[Option<bool>]) -> String {
    if src.is_empty() {
        "-".into()
    } else {
        src.iter()
            .map(|b| match b {
                Some(true) => '1',
                Some(false) => '0',
                None => 'x',
            })
            .collect()
    }
}

fn decode_str(t: &DecoderHuffmanTree, src: &[Option<bool>]) -> String {
    let mut it = src.iter().map(|b| b.ok_or(()));
    match t.decode_symbol(&mut it) {
        Ok(s) => {
            let rest: Vec<Option<bool>> = it.map(|r| r.ok()).collect();
            format!("{} {}", hex(s as u128), show_src(&rest))
        }
        Err(CoderError::Frontend(SymbolCodeError::OutOfCompressedData)) => "out_of_data".into(),
        Err(CoderError::Frontend(SymbolCodeError::InvalidCodeword(_))) => "invalid".into(),
        Err(CoderError::Backend(())) => "readerr".into(),
    }
}

// ---------------------------------------------------------------------------------------------
// run

fn parse_cap(toks: &[&str]) -> Option<Option<usize>> {
    match toks {
        [] => Some(None),
        [c] => parse_hex(c).map(|v| Some(v.min(usize::MAX as u128) as usize)),
        _ => None,
    }
}

fn do_op(e: &EncoderHuffmanTree, d: &DecoderHuffmanTree, seg: &[&str]) -> Option<String> {
    match seg {
        ["enc"] => Some(show_list(enc_nodes(e))),
        ["dec"] => Some(show_list(dec_nodes(d))),
        ["ns"] => Some(format!("{} {}", hex(e.num_symbols() as u128), hex(d.num_symbols() as u128))),
        ["book"] => {
            let mut words = Vec::new();
            for s in 0..e.num_symbols() {
                let (bits, status) = encode_with(e, true, s, None);
                if status != "ok" {
                    return Some(status.into());
                }
                words.push(show_bits(&bits));
            }
            Some(words.join(","))
        }
        ["prefix", s, cap @ ..] => {
            let s = parse_hex(s)?;
            let cap = parse_cap(cap)?;
            Some(encode_str(e, true, s, cap))
        }
        ["suffix", s, cap @ ..] => {
            let s = parse_hex(s)?;
            let cap = parse_cap(cap)?;
            Some(encode_str(e, false, s, cap))
        }
        ["decode", bits] => {
            let src = parse_src(bits)?;
            Some(decode_str(d, &src))
        }
        _ => None,
    }
}

pub fn run(segs: &[Vec<&str>]) -> String {
    if segs.len() < 2 || segs[1].len() != 1 {
        return "bad-op".into();
    }
    let ty = match segs[0].as_slice() {
        ["huff", ty] => *ty,
        _ => return "bad-op".into(),
    };
    let ws = match parse_weights(segs[1][0]) {
        Some(ws) => ws,
        None => return "bad-op".into(),
    };
    let (e, d) = match build(ty, &ws) {
        Some(b) => b,
        None => return "bad-op".into(),
    };
    let head = format!(
        "{} {}",
        match &e {
            Ok(_) => "ok".to_string(),
            Err(s) => s.clone(),
        },
        match &d {
            Ok(_) => "ok".to_string(),
            Err(s) => s.clone(),
        }
    );
    let (e, d) = match (e, d) {
        (Ok(e), Ok(d)) => (e, d),
        _ => return head,
    };
    let mut outs = vec![head];
    for seg in &segs[2..] {
        match guarded(|| do_op(&e, &d, seg)) {
            Ok(Some(o)) => outs.push(o),
            Ok(None) => {
                outs.push("bad-op".into());
                break;
            }
            Err(class) => {
                outs.push(class.into());
                break;
            }
        }
    }
    outs.join(" | ")
}

// ---------------------------------------------------------------------------------------------
// reference implementations used by the generator (to aim ops) and by the oracles

/// textbook Huffman cost with a priority queue of weights only: the sum of all merged weights
fn textbook_cost(ws: &[u128]) -> u128 {
    let mut heap: BinaryHeap<Reverse<u128>> = ws.iter().map(|&w| Reverse(w)).collect();
    let mut cost = 0u128;
    while heap.len() >= 2 {
        let a = heap.pop().unwrap().0;
        let b = heap.pop().unwrap().0;
        cost += a + b;
        heap.push(Reverse(a + b));
    }
    cost
}

/// minimum of `Σ w_s · depth_s` over all full binary trees with the given leaves, by dynamic
/// programming over subsets: `opt(S) = W(S) + min_{A ⊂ S} opt(A) + opt(S \ A)`
fn brute_force_cost(ws: &[u128]) -> u128 {
    let n = ws.len();
    assert!(n >= 1 && n <= 10);
    let full = (1usize << n) - 1;
    let mut weight = vec![0u128; full + 1];
    for s in 1..=full {
        let low = s.trailing_zeros() as usize;
        weight[s] = weight[s & (s - 1)] + ws[low];
    }
    let mut opt = vec![0u128; full + 1];
    for s in 1..=full {
        if s & (s - 1) == 0 {
            continue;
        }
        let mut best = u128::MAX;
        // proper non-empty subsets containing the lowest element (each split once)
        let low = s & s.wrapping_neg();
        let rest = s ^ low;
        let mut a = rest;
        loop {
            // a ranges over subsets of rest; left part = low | (rest \ a) must be proper
            let left = low | (rest ^ a);
            let right = a;
            if right != 0 {
                best = best.min(opt[left] + opt[right]);
            }
            if a == 0 {
                break;
            }
            a = (a - 1) & rest;
        }
        opt[s] = weight[s] + best;
    }
    opt[full]
}

fn weights_str(ws: &[u128]) -> String {
    show_list(ws.iter().copied())
}

fn bits_str_random(rng: &mut Rng, len: usize) -> String {
    if len == 0 {
        return "-".into();
    }
    (0..len).map(|_| if rng.chance(1, 2) { '1' } else { '0' }).collect()
}

/// a standard set of ops for a weight vector (protocol form): all node arrays, every symbol in
/// both forms for small `n`, out-of-alphabet symbols, decodes of codewords + suffixes, decodes
/// of arbitrary and truncated bit strings, failing emit / failing source.  The real encoder tree
/// (if the construction succeeds) is used only to aim the decode ops.
fn ops_for(rng: &mut Rng, ty: &str, ws: &[Option<u128>], rich: bool) -> String {
    let n = ws.len();
    let mut ops: Vec<String> = vec!["enc".into(), "dec".into(), "ns".into()];
    if n <= 40 || rich {
        ops.push("book".into());
    }
    let tree = match build(ty, ws) {
        Some((Ok(e), Ok(_))) => Some(e),
        _ => None,
    };
    if n == 0 {
        return ops.join(" | ");
    }
    let syms: Vec<usize> = if n <= 8 {
        (0..n).collect()
    } else {
        (0..6).map(|_| rng.below(n as u128) as usize).chain([0, n - 1]).collect()
    };
    for &s in &syms {
        match rng.next() % 4 {
            0 => ops.push(format!("prefix {:x}", s)),
            1 => ops.push(format!("suffix {:x}", s)),
            2 => {
                ops.push(format!("prefix {:x}", s));
                ops.push(format!("suffix {:x}", s));
            }
            _ => {
                let cap = rng.below(4);
                let which = if rng.chance(1, 2) { "prefix" } else { "suffix" };
                ops.push(format!("{} {:x} {:x}", which, s, cap));
            }
        }
        if let Some(t) = &tree {
            let (bits, _) = encode_with(t, true, s, None);
            let mut word = show_bits(&bits);
            if word == "-" {
                word.clear();
            }
            match rng.next() % 5 {
                0 => {}
                1 | 2 => {
                    let l = rng.below(5) as usize;
                    let tail = bits_str_random(rng, l);
                    if tail != "-" {
                        word.push_str(&tail);
                    }
                }
                3 => {
                    let keep = if word.is_empty() { 0 } else { rng.below(word.len() as u128) as usize };
                    word.truncate(keep);
                }
                _ => {
                    let at = rng.below(word.len() as u128 + 2) as usize;
                    let at = at.min(word.len());
                    word.insert(at, 'x');
                }
            }
            ops.push(format!("decode {}", if word.is_empty() { "-".to_string() } else { word }));
        }
    }
    // out-of-alphabet symbols (C09): n, n+1, 2n-1 (= nodes.len()), 2n, powers of two, usize::MAX
    let mut outside: Vec<u128> = vec![n as u128, n as u128 + 1, 2 * n as u128, 1 << 16, 1 << 32, (1 << 32) + 1, u64::MAX as u128];
    outside.push(2 * n as u128 - 1);
    outside.push(2 * n as u128 - 2);
    outside.push((1u128 << 32) + (n as u128 - 1));
    outside.push((1u128 << 63) + (n as u128 - 1));
    let k = if rich { outside.len() } else { 3 };
    for _ in 0..k {
        let s = *rng.pick(&outside);
        if s >= n as u128 {
            let which = if rng.chance(1, 2) { "prefix" } else { "suffix" };
            ops.push(format!("{} {:x}", which, s));
        }
    }
    for _ in 0..(if rich { 4 } else { 2 }) {
        let l = rng.below(12) as usize;
        ops.push(format!("decode {}", bits_str_random(rng, l)));
    }
    ops.push("decode -".into());
    ops.join(" | ")
}

/// one protocol line for integer *values* (floats: `v · 2^-k`, exact)
fn line_vals(rng: &mut Rng, ty: &str, k: u32, vals: &[u128], rich: bool) -> String {
    let opts: Vec<Option<u128>> = vals.iter().map(|&v| Some(v)).collect();
    let ws = to_proto(ty, &opts, k);
    let ops = ops_for(rng, ty, &ws, rich);
    format!("huff {} | {} | {}", ty, proto_str(&ws), ops)
}

/// one protocol line for protocol weights (floats: arbitrary bit patterns)
fn line_proto(rng: &mut Rng, ty: &str, ws: &[Option<u128>], rich: bool) -> String {
    let ops = ops_for(rng, ty, ws, rich);
    format!("huff {} | {} | {}", ty, proto_str(ws), ops)
}

const INT_TYPES: [&str; 5] = ["u8", "u16", "u32", "u64", "usize"];
const ALL_TYPES: [&str; 7] = ["u8", "u16", "u32", "u64", "usize", "f32", "f64"];

/// every weight vector over `0..=max_w` of length `len`, via a callback
fn for_all_vectors(len: usize, max_w: u128, f: &mut dyn FnMut(&[u128])) {
    let mut v = vec![0u128; len];
    loop {
        f(&v);
        let mut i = 0;
        loop {
            if i == len {
                return;
            }
            if v[i] < max_w {
                v[i] += 1;
                break;
            }
            v[i] = 0;
            i += 1;
        }
    }
}

fn fbits(ty: &str, x: f64) -> u128 {
    if ty == "f32" { (x as f32).to_bits() as u128 } else { x.to_bits() as u128 }
}

/// float weight vectors whose sums **round** (protocol form: bit patterns)
fn rounding_vector(rng: &mut Rng, ty: &str) -> Vec<Option<u128>> {
    let mant: i32 = if ty == "f32" { 24 } else { 53 };
    let p = |e: i32| (2.0f64).powi(e);
    let n = rng.range(2, 9) as usize;
    let style = rng.next() % 9;
    let v: Vec<f64> = match style {
        // small + large: the small one is (partly) absorbed
        0 => (0..n).map(|_| if rng.chance(1, 2) { rng.range(1, 9) as f64 } else { p(mant) + (2 * rng.below(6)) as f64 }).collect(),
        // around the 2^mant boundary: sums tie after rounding (ties to even)
        1 => {
            let base = p(mant - 1);
            (0..n).map(|_| base + rng.below(8) as f64 - if rng.chance(1, 3) { base / 2.0 } else { 0.0 }).collect()
        }
        // wide magnitude spread
        2 => (0..n).map(|_| p(rng.below(2 * mant as u128 + 8) as i32 - 4) * (1.0 + rng.below(8) as f64 / 8.0)).collect(),
        // decimal fractions (the crate's own float test uses 0.19, 0.2, 0.41, 0.1, 0.1)
        3 => (0..n).map(|_| rng.below(100) as f64 / 100.0).collect(),
        // denormals and the smallest normals
        4 => {
            let tiny = if ty == "f32" { f32::from_bits(1) as f64 } else { f64::from_bits(1) };
            (0..n).map(|_| match rng.next() % 3 { 0 => tiny * rng.below(5) as f64, 1 => tiny * p(mant - 1) * (1.0 + rng.below(4) as f64 / 4.0), _ => tiny * p(mant) }).collect()
        }
        // huge values: sums overflow to +inf
        5 => {
            let big = if ty == "f32" { f32::MAX as f64 } else { f64::MAX };
            (0..n).map(|_| match rng.next() % 3 { 0 => big, 1 => big / 2.0, _ => big / 3.0 }).collect()
        }
        // negative weights, ±0, ±inf (admitted by the constructor; `-inf + inf` is a NaN sum)
        6 => (0..n).map(|_| match rng.next() % 8 { 0 => -0.0, 1 => 0.0, 2 => f64::INFINITY, 3 => f64::NEG_INFINITY, 4 => -(rng.below(5) as f64), _ => rng.below(5) as f64 }).collect(),
        // repeated values whose pair sums round to another repeated value
        7 => {
            let a = p(mant) + 2.0;
            let vals = [1.0, a, a + 2.0, a * 2.0, 3.0];
            (0..n).map(|_| *rng.pick(&vals)).collect()
        }
        // arbitrary finite bit patterns of either sign
        _ => {
            return (0..n)
                .map(|_| {
                    Some(if ty == "f32" {
                        let b = (rng.next() as u32) & 0xff7f_ffff;
                        (if b & 0x7f80_0000 == 0x7f80_0000 { b & 0xbfff_ffff } else { b }) as u128
                    } else {
                        let b = rng.next() & 0xffef_ffff_ffff_ffff;
                        (if b & 0x7ff0_0000_0000_0000 == 0x7ff0_0000_0000_0000 { b & 0xbfff_ffff_ffff_ffff } else { b }) as u128
                    })
                })
                .collect();
        }
    };
    v.iter().map(|&x| Some(fbits(ty, x))).collect()
}

/// does some merge produce a NaN sum (`-inf + inf`) while other entries remain in the heap?
/// `BinaryHeap` orders with `PartialOrd` (`<=`), which is `false` for a NaN key, so the pop order
/// then depends on the heap's layout: outside the model (and outside the property, which speaks
/// of non-negative weights).  Such inputs are not generated.
fn nan_sum_midway(ty: &str, ws: &[Option<u128>]) -> bool {
    let mut heap: Vec<(f64, usize)> = Vec::new();
    for (i, w) in ws.iter().enumerate() {
        let x = match w {
            Some(b) => if ty == "f32" { f32::from_bits(*b as u32) as f64 } else { f64::from_bits(*b as u64) },
            None => return false,
        };
        if x.is_nan() {
            return false;
        }
        heap.push((x, i));
    }
    let mut next = heap.len();
    while heap.len() >= 2 {
        heap.sort_by(|a, b| a.0.partial_cmp(&b.0).unwrap().then(a.1.cmp(&b.1)));
        let a = heap.remove(0);
        let b = heap.remove(0);
        let sum = if ty == "f32" { (a.0 as f32 + b.0 as f32) as f64 } else { a.0 + b.0 };
        if sum.is_nan() {
            return !heap.is_empty();
        }
        heap.push((sum, next));
        next += 1;
    }
    false
}

pub fn gen(rng: &mut Rng, tier: &str, out: &mut Vec<String>) {
    let thorough = tier == "thorough";
    // 1. all weight vectors over {0..5}: quick: length ≤ 4 complete (1554 vectors) plus a
    //    random sample of lengths 5..7; thorough: length ≤ 6 complete, 1/6 of length 7.
    let complete_upto = if thorough { 6 } else { 4 };
    let mut idx = 0usize;
    for len in 1..=7usize {
        let sample_den: u64 = if len <= complete_upto {
            1
        } else if thorough {
            6
        } else {
            match len {
                5 => 12,
                6 => 80,
                _ => 500,
            }
        };
        let mut r = rng.fork();
        let mut lines = Vec::new();
        for_all_vectors(len, 5, &mut |v| {
            if sample_den == 1 || r.next() % sample_den == 0 {
                let ty = ALL_TYPES[idx % ALL_TYPES.len()];
                idx += 1;
                let k = if ty.starts_with('f') { (r.next() % 4) as u32 * 5 } else { 0 };
                lines.push(line_vals(&mut r, ty, k, v, false));
            }
        });
        out.extend(lines);
    }
    let mult = if thorough { 20 } else { 1 };
    // 2. empty list, single symbol
    for ty in ALL_TYPES {
        out.push(format!("huff {} | - | enc", ty));
        for w in [0u128, 1, 5, 0xff] {
            out.push(line_vals(rng, ty, 0, &[w], true));
        }
    }
    // 3. repeated weights (tie-breaking by index), incl. all-equal, all-zero, two-valued
    for _ in 0..150 * mult {
        let n = rng.range(2, 24) as usize;
        let ty = *rng.pick(&ALL_TYPES);
        let vals: Vec<u128> = match rng.next() % 4 {
            0 => vec![rng.below(4)],
            1 => vec![0, 1],
            2 => vec![1, 2],
            _ => vec![rng.below(3), 1 + rng.below(3), 2 + rng.below(4)],
        };
        let ws: Vec<u128> = (0..n).map(|_| *rng.pick(&vals)).collect();
        let total: u128 = ws.iter().sum();
        if ty == "u8" && total > 255 {
            continue;
        }
        out.push(line_vals(rng, ty, 0, &ws, false));
    }
    // 4. sums that tie with leaves / other sums (powers of two, Fibonacci = deepest trees)
    for n in 2..=(if thorough { 80 } else { 40 }) {
        let ty = if n < 12 { *rng.pick(&ALL_TYPES) } else if n < 70 { *rng.pick(&["u64", "usize", "f64"]) } else { *rng.pick(&["u64", "usize"]) };
        let mut fib = vec![1u128, 1];
        while fib.len() < n {
            let l = fib.len();
            fib.push(fib[l - 1] + fib[l - 2]);
        }
        fib.truncate(n);
        if ty == "u8" && fib.iter().sum::<u128>() > 255 {
            continue;
        }
        if rng.chance(1, 2) {
            fib.reverse();
        }
        out.push(line_vals(rng, ty, 0, &fib, n <= 12));
        if n <= 50 {
            let pows: Vec<u128> = (0..n).map(|i| 1u128 << (i.min(n - 2))).collect();
            let ty2 = if n <= 8 { ty } else if n <= 23 { "u32" } else { "u64" };
            if !(ty2 == "u8" && pows.iter().sum::<u128>() > 255) {
                out.push(line_vals(rng, ty2, 0, &pows, false));
            }
        }
    }
    // 5. random vectors, every type; integer sums within the type, float sums exact or rounding
    for _ in 0..400 * mult {
        let ty = *rng.pick(&ALL_TYPES);
        let n = match rng.next() % 6 {
            0 => rng.range(1, 4),
            1 | 2 => rng.range(2, 12),
            3 | 4 => rng.range(8, 64),
            _ => rng.range(64, 300),
        } as usize;
        let budget: u128 = match ty {
            "u8" => 255,
            "u16" => 65535,
            "u32" => u32::MAX as u128,
            "u64" | "usize" => u64::MAX as u128,
            "f32" => (1 << 26) - 1,
            _ => (1u128 << 55) - 1,
        };
        let per = (budget / n as u128).max(1);
        let style = rng.next() % 4;
        let ws: Vec<u128> = (0..n)
            .map(|_| match style {
                0 => rng.below(per.min(8) + 1),
                1 => rng.below(per + 1),
                2 => rng.bits_biased(16).min(per),
                _ => {
                    let k = rng.below(128 - per.leading_zeros() as u128 + 1) as u32;
                    rng.below(pow2(k).max(1)).min(per)
                }
            })
            .collect();
        let total: u128 = ws.iter().sum();
        if total > budget {
            continue;
        }
        let k = if ty.starts_with('f') && rng.chance(1, 2) { rng.below(40) as u32 } else { 0 };
        out.push(line_vals(rng, ty, k, &ws, false));
    }
    // 6. long vectors
    for _ in 0..(if thorough { 40 } else { 6 }) {
        let n = rng.range(500, if thorough { 3000 } else { 1500 }) as usize;
        let ty = *rng.pick(&["u32", "u64", "usize", "f64", "f32"]);
        let maxw = *rng.pick(&[1u128, 3, 100, 100000]);
        let ws: Vec<u128> = (0..n).map(|_| rng.below(maxw + 1)).collect();
        out.push(line_vals(rng, ty, 0, &ws, false));
    }
    // 7. integer overflow of `prob0 + prob1` at the boundary of the weight type:
    //    total ∈ {max-1, max, max+1, …}
    for _ in 0..60 * mult {
        let ty = *rng.pick(&INT_TYPES);
        let bits = type_bits(ty).unwrap();
        let max = pow2(bits) - 1;
        let n = rng.range(2, 6) as usize;
        let target = match rng.next() % 5 {
            0 => max - 1,
            1 => max,
            2 => max + 1,
            3 => max + 2,
            _ => max + rng.below(max / 2),
        };
        let mut ws = vec![0u128; n];
        let mut left = target;
        for i in 0..n {
            let hi = left.min(max);
            let lo = if left > max * (n - 1 - i) as u128 { left - max * (n - 1 - i) as u128 } else { 0 };
            let v = if i == n - 1 { left } else { rng.range(lo.min(hi), hi) };
            ws[i] = v.min(max);
            left -= ws[i];
        }
        if left != 0 {
            continue;
        }
        let opts: Vec<Option<u128>> = ws.iter().map(|&v| Some(v)).collect();
        out.push(format!("huff {} | {} | enc | dec | book", ty, proto_str(&opts)));
    }
    // 8. NaN / Err items anywhere (also in a list that would otherwise panic)
    for _ in 0..40 * mult {
        let ty = *rng.pick(&ALL_TYPES);
        let n = rng.range(1, 6) as usize;
        let vals: Vec<Option<u128>> = (0..n).map(|_| Some(rng.below(200))).collect();
        let mut ws = to_proto(ty, &vals, 0);
        let nans = rng.range(1, 2) as usize;
        for _ in 0..nans {
            let at = rng.below(ws.len() as u128) as usize;
            ws[at] = if ty == "f32" && rng.chance(1, 2) {
                Some(*rng.pick(&[0x7fc00000u128, 0x7f800001, 0xffc00000, 0x7fffffff]))
            } else if ty == "f64" && rng.chance(1, 2) {
                Some(*rng.pick(&[0x7ff8000000000000u128, 0x7ff0000000000001, 0xfff8000000000000]))
            } else {
                None
            };
        }
        out.push(format!("huff {} | {} | enc | dec", ty, proto_str(&ws)));
    }
    // 9. float weights whose sums round (the model adds with native IEEE arithmetic)
    for _ in 0..500 * mult {
        let ty = if rng.chance(1, 2) { "f32" } else { "f64" };
        let ws = rounding_vector(rng, ty);
        if nan_sum_midway(ty, &ws) {
            continue;
        }
        out.push(line_proto(rng, ty, &ws, false));
    }
    // directed: -inf + inf = NaN as the very last sum (pushed onto an empty heap, never compared)
    for ty in ["f32", "f64"] {
        let inf = fbits(ty, f64::INFINITY);
        let ninf = fbits(ty, f64::NEG_INFINITY);
        let one = fbits(ty, 1.0);
        for v in [vec![ninf, inf], vec![ninf, ninf, inf], vec![inf, ninf, one], vec![inf, inf, inf], vec![ninf, one, one]] {
            let ws: Vec<Option<u128>> = v.into_iter().map(Some).collect();
            out.push(line_proto(rng, ty, &ws, false));
        }
    }
    // the audit's reproducer (3 + 2^24 rounds to 2^24 + 4) and its f64 analogue
    out.push("huff f32 | 40400000,4b800000,4b800002 | enc | dec | book".into());
    out.push("huff f64 | 4008000000000000,4340000000000000,4340000000000002 | enc | dec | book".into());
    // 10. malformed lines
    out.push("huff u8 | 1,2 | frobnicate".into());
    out.push("huff u7 | 1,2 | enc".into());
    out.push("huff u8 3 | 1,2 | enc".into());
    out.push("huff u8 | 100,2 | enc".into());
    out.push("huff f32 | 100000000,2 | enc".into());
}

// ---------------------------------------------------------------------------------------------
// oracles (implementation only; C15, C09)

struct Code {
    enc: EncoderHuffmanTree,
    dec: DecoderHuffmanTree,
    words: Vec<Vec<bool>>,
}

fn oracle_one(ws: &[u128], ty: &str, rng: &mut Rng, rep: &mut Report, brute: bool) {
    let mut fails: Vec<(&'static str, String)> = Vec::new();
    oracle_inner(ws, None, ty, rng, rep, brute, &mut fails);
    for (prop, text) in fails {
        rep.fail(prop, format!("huff {} | {} : {}", ty, weights_str(ws), text));
    }
}

/// integer weights whose total does not fit the weight type (open finding D34): with overflow
/// checks the constructor panics in `prob0 + prob1`; without them the sums wrap and the code can
/// be non-optimal.  Every failure of this class is tagged `weight-total-overflows=yes`.
fn oracle_weight_overflow(rng: &mut Rng, reps: usize, rep: &mut Report) {
    for i in 0..reps {
        let ty = if i % 2 == 0 { "u8" } else { "u16" };
        let max = pow2(type_bits(ty).unwrap()) - 1;
        let ws: Vec<u128> = if i == 0 {
            vec![200, 100, 60, 250, 120]
        } else {
            let n = rng.range(3, 7) as usize;
            let mut v: Vec<u128> = (0..n).map(|_| rng.range(max / 4, max)).collect();
            if v.iter().sum::<u128>() <= max {
                v[0] = max;
            }
            v
        };
        rep.count("C15.weight_total_overflows");
        let mut fails: Vec<(&'static str, String)> = Vec::new();
        oracle_inner(&ws, None, ty, rng, rep, true, &mut fails);
        for (prop, text) in fails {
            rep.fail(prop, format!("huff {} | {} : {} weight-total-overflows=yes (the total {} exceeds {}::MAX: overflow panic in a checked build, wrapped sums and possibly a non-optimal code in a release build)", ty, weights_str(&ws), text, ws.iter().sum::<u128>(), ty));
        }
    }
}

/// arbitrary (inexact) float weights: everything except exact optimality
fn oracle_float(fw: &[f64], ty: &str, rng: &mut Rng, rep: &mut Report) {
    let mut fails: Vec<(&'static str, String)> = Vec::new();
    let dummy = vec![0u128; fw.len()];
    oracle_inner(&dummy, Some(fw), ty, rng, rep, true, &mut fails);
    for (prop, text) in fails {
        let bits: Vec<String> = fw
            .iter()
            .map(|&x| if ty == "f32" { format!("{:x}", (x as f32).to_bits()) } else { format!("{:x}", x.to_bits()) })
            .collect();
        rep.fail(prop, format!("huff-float {} bits {} : {}", ty, bits.join(","), text));
    }
}

fn build_float(ty: &str, fw: &[f64]) -> Option<Built> {
    Some(if ty == "f32" {
        let v: Vec<f32> = fw.iter().map(|&x| x as f32).collect();
        let e = guarded(|| EncoderHuffmanTree::from_float_probabilities::<f32, _>(&v));
        let d = guarded(|| DecoderHuffmanTree::from_float_probabilities::<f32, _>(&v));
        (flatten_guard(e), flatten_guard(d))
    } else {
        let v: Vec<f64> = fw.to_vec();
        let e = guarded(|| EncoderHuffmanTree::from_float_probabilities::<f64, _>(&v));
        let d = guarded(|| DecoderHuffmanTree::from_float_probabilities::<f64, _>(&v));
        (flatten_guard(e), flatten_guard(d))
    })
}

/// minimum of `Σ w_s · depth_s` over all full binary trees, in f64 (subset DP as above)
fn brute_force_cost_f64(ws: &[f64]) -> f64 {
    let n = ws.len();
    let full = (1usize << n) - 1;
    let mut weight = vec![0f64; full + 1];
    for s in 1..=full {
        let low = s.trailing_zeros() as usize;
        weight[s] = weight[s & (s - 1)] + ws[low];
    }
    let mut opt = vec![0f64; full + 1];
    for s in 1..=full {
        if s & (s - 1) == 0 {
            continue;
        }
        let mut best = f64::INFINITY;
        let low = s & s.wrapping_neg();
        let rest = s ^ low;
        let mut a = rest;
        loop {
            let left = low | (rest ^ a);
            if a != 0 {
                best = best.min(opt[left] + opt[a]);
            }
            if a == 0 {
                break;
            }
            a = (a - 1) & rest;
        }
        opt[s] = weight[s] + best;
    }
    opt[full]
}

fn oracle_inner(ws: &[u128], fl: Option<&[f64]>, ty: &str, rng: &mut Rng, rep: &mut Report, brute: bool, fails: &mut Vec<(&'static str, String)>) {
    let replay = || format!("huff {} | {}", ty, weights_str(ws));
    crate::util::set_case(&replay());
    let n = ws.len();
    let opts: Vec<Option<u128>> = ws.iter().map(|&w| Some(w)).collect();
    let rebuild = |t: &str| match fl {
        Some(fw) => build_float(t, fw),
        None => build(t, &to_proto(t, &opts, 0)),
    };
    let (e, d) = match rebuild(ty) {
        Some((Ok(e), Ok(d))) => (e, d),
        _ => {
            fails.push(("C15", "construction failed".into()));
            return;
        }
    };
    rep.eval("C15");
    rep.count(&format!("huff.type.{}{}", ty, if fl.is_some() { ".inexact" } else { "" }));
    rep.count(&format!("huff.n.{}", if n <= 8 { n.to_string() } else if n <= 64 { "9-64".into() } else { "65+".into() }));
    let mut fail = |what: &str| fails.push(("C15", what.to_string()));
    if e.num_symbols() != n || d.num_symbols() != n {
        fail("num_symbols");
        return;
    }
    // codewords in both forms
    let mut words: Vec<Vec<bool>> = Vec::with_capacity(n);
    for s in 0..n {
        let (p, st) = encode_with(&e, true, s, None);
        let (mut q, st2) = encode_with(&e, false, s, None);
        if st != "ok" || st2 != "ok" {
            fail(&format!("symbol {} not encodable", s));
            return;
        }
        q.reverse();
        if p != q {
            fail(&format!("prefix != reverse suffix for symbol {}", s));
        }
        words.push(p);
    }
    // single symbol: empty word; Kraft equality for n >= 2 (exact, as a fraction over 2^D)
    if n == 1 {
        if !words[0].is_empty() {
            fail("single symbol has a non-empty codeword");
        }
    } else {
        let dmax = words.iter().map(|w| w.len()).max().unwrap();
        if dmax <= 120 {
            let sum: u128 = words.iter().map(|w| 1u128 << (dmax - w.len())).sum();
            if sum != 1u128 << dmax {
                fail("Kraft sum != 1");
            }
        } else {
            // big-number free check: repeatedly merge equal-length pairs (sorted lengths)
            let mut lens: Vec<usize> = words.iter().map(|w| w.len()).collect();
            lens.sort_unstable_by(|a, b| b.cmp(a));
            // a stack-based check that Σ 2^-len = 1: process from longest
            let mut stack: Vec<usize> = Vec::new();
            for l in lens {
                let mut cur = l;
                // insert `cur`, merging while the top equals it
                loop {
                    if let Some(&top) = stack.last() {
                        if top == cur {
                            stack.pop();
                            cur -= 1;
                            continue;
                        }
                    }
                    break;
                }
                stack.push(cur);
            }
            if stack != vec![0] {
                fail("Kraft sum != 1 (long code)");
            }
        }
    }
    // prefix-free: sort and compare neighbours (a prefix sorts directly before an extension)
    {
        let mut sorted: Vec<&Vec<bool>> = words.iter().collect();
        sorted.sort();
        for w in sorted.windows(2) {
            if w[1].len() >= w[0].len() && w[1][..w[0].len()] == w[0][..] {
                fail("code is not prefix-free");
                break;
            }
        }
    }
    // encoder and decoder describe the same code: decode(prefix s ++ rest) = (s, rest)
    for s in 0..n {
        if n > 64 && !rng.chance(1, 8) {
            continue;
        }
        let l = rng.below(6) as usize;
        let rest: Vec<bool> = (0..l).map(|_| rng.chance(1, 2)).collect();
        let src: Vec<Option<bool>> = words[s].iter().chain(rest.iter()).map(|&b| Some(b)).collect();
        let mut it = src.iter().map(|b| b.ok_or(()));
        match d.decode_symbol(&mut it) {
            Ok(t) if t == s => {
                let left: Vec<bool> = it.map(|r| r.unwrap()).collect();
                if left != rest {
                    fail(&format!("decode consumed the wrong number of bits for symbol {}", s));
                }
            }
            _ => fail(&format!("decode(prefix {}) failed", s)),
        }
        // every proper prefix of a codeword runs out of data
        if !words[s].is_empty() {
            let cut = rng.below(words[s].len() as u128) as usize;
            let src: Vec<Option<bool>> = words[s][..cut].iter().map(|&b| Some(b)).collect();
            let mut it = src.iter().map(|b| b.ok_or(()));
            if !matches!(d.decode_symbol(&mut it), Err(CoderError::Frontend(SymbolCodeError::OutOfCompressedData))) {
                fail(&format!("truncated codeword of {} did not give OutOfCompressedData", s));
            }
        }
    }
    // decoding arbitrary bits yields a symbol of the alphabet whose codeword is what was consumed
    for _ in 0..4 {
        let l = rng.below(40) as usize;
        let src: Vec<bool> = (0..l).map(|_| rng.chance(1, 2)).collect();
        let mut it = src.iter().map(|&b| Ok::<bool, ()>(b));
        if let Ok(s) = d.decode_symbol(&mut it) {
            let left = it.count();
            if s >= n || words[s][..] != src[..l - left] {
                fail("decode of arbitrary bits is not the inverse of encode");
            }
        }
    }
    // optimality: cost equals the textbook priority-queue cost; and brute force for tiny n
    let cost: u128 = (0..n).map(|s| ws[s] * words[s].len() as u128).sum();
    match fl {
        None => {
            if cost != textbook_cost(ws) {
                fail(&format!("cost {} != textbook Huffman cost {}", cost, textbook_cost(ws)));
            }
            if brute && n <= 9 {
                rep.count("huff.bruteforce");
                if cost != brute_force_cost(ws) {
                    fail(&format!("cost {} != brute-force optimum {}", cost, brute_force_cost(ws)));
                }
            }
        }
        Some(fw) => {
            // sums round: optimal only up to rounding (not claimed exactly); finite weights only
            if n <= 9 && fw.iter().all(|x| x.is_finite()) {
                rep.count("huff.bruteforce.inexact");
                let used: Vec<f64> = if ty == "f32" { fw.iter().map(|&x| x as f32 as f64).collect() } else { fw.to_vec() };
                let c: f64 = (0..n).map(|s| used[s] * words[s].len() as f64).sum();
                let best = brute_force_cost_f64(&used);
                let tol = if ty == "f32" { 1e-5 } else { 1e-12 };
                if c > best * (1.0 + tol) + f64::MIN_POSITIVE {
                    fail(&format!("cost {} exceeds brute-force optimum {} beyond rounding", c, best));
                }
            }
        }
    }
    // deterministic tie-breaking by index: among equal weights, codeword lengths are
    // non-increasing in the index (earlier index is merged earlier, i.e. sits at least as deep),
    // and rebuilding gives the identical arrays
    for i in 0..n {
        for j in (i + 1)..n.min(i + 40) {
            let tie = match fl {
                None => ws[i] == ws[j],
                Some(fw) => if ty == "f32" { fw[i] as f32 == fw[j] as f32 } else { fw[i] == fw[j] },
            };
            if tie && words[i].len() < words[j].len() {
                fail(&format!("tie {} {} not broken by index", i, j));
            }
        }
    }
    if let Some((Ok(e2), Ok(d2))) = rebuild(ty) {
        if enc_nodes(&e2) != enc_nodes(&e) || dec_nodes(&d2) != dec_nodes(&d) {
            fail("construction is not deterministic");
        }
    }
    // independent of the weight type (exact sums only)
    if fl.is_none() && ty != "u64" && rng.chance(1, 4) {
        if let Some((Ok(e2), Ok(d2))) = build("u64", &opts) {
            if enc_nodes(&e2) != enc_nodes(&e) || dec_nodes(&d2) != dec_nodes(&d) {
                fail("trees depend on the weight type");
            }
        }
    }
    // the two arrays describe the same tree: decoder child table entry i = [x, y] <=> encoder
    // parents of x, y are (n + i) with bits 0, 1; root entry 0
    {
        let en = enc_nodes(&e);
        let dn = dec_nodes(&d);
        let mut ok = en.len() == 2 * n - 1 && dn.len() == 2 * (n - 1) && en[2 * n - 2] == 0;
        if ok {
            for i in 0..n - 1 {
                let (x, y) = (dn[2 * i] as usize, dn[2 * i + 1] as usize);
                ok &= x < 2 * n - 1 && y < 2 * n - 1 && x < n + i && y < n + i;
                if ok {
                    ok &= en[x] == ((n + i) as u128) << 1 && en[y] == (((n + i) as u128) << 1) | 1;
                }
            }
            ok &= en.iter().filter(|&&v| v == 0).count() == 1;
        }
        if !ok {
            fail("encoder array and decoder table describe different trees");
        }
    }
    // C09: symbols outside the alphabet are rejected in both forms, nothing is emitted
    let mut c09: Vec<String> = Vec::new();
    for s in [n as u128, n as u128 + 1, 2 * n as u128 - 2, 2 * n as u128 - 1, 2 * n as u128, (1 << 32) + n as u128 - 1, (1u128 << 63) + n as u128 - 1, u64::MAX as u128, n as u128 + rng.below(1 << 40)] {
        if s < n as u128 {
            continue;
        }
        rep.eval("C09");
        rep.eval("C15"); // "… and reject symbols outside the alphabet" is a clause of C15 as well
        for prefix in [true, false] {
            crate::util::set_case(&format!("{} : encode {} {:x} (a symbol outside the alphabet)", replay(), if prefix { "prefix" } else { "suffix" }, s));
            let (bits, st) = encode_with(&e, prefix, s as usize, None);
            if st != "impossible" || !bits.is_empty() {
                c09.push(format!("{} {:x} : out-of-alphabet symbol not rejected", if prefix { "prefix" } else { "suffix" }, s));
            }
        }
    }
    rep.sample("C15", || format!("{} cost {}", replay(), cost));
    drop(fail);
    for t in c09 {
        fails.push(("C09", t.clone()));
        fails.push(("C15", t));
    }
}

pub fn oracle(rng: &mut Rng, tier: &str, rep: &mut Report) {
    let thorough = tier == "thorough";
    oracle_weight_overflow(&mut rng.fork(), if thorough { 200 } else { 20 }, rep);
    // all vectors over {0..5} up to length 5 (quick) / 7 (thorough), brute force optimum
    let upto = if thorough { 7 } else { 5 };
    let mut idx = 0usize;
    for len in 1..=upto {
        let mut r = rng.fork();
        let mut todo: Vec<Vec<u128>> = Vec::new();
        for_all_vectors(len, 5, &mut |v| todo.push(v.to_vec()));
        for v in todo {
            let ty = ALL_TYPES[idx % ALL_TYPES.len()];
            idx += 1;
            oracle_one(&v, ty, &mut r, rep, true);
        }
    }
    let iters = if thorough { 40000 } else { 3000 };
    for i in 0..iters {
        let ty = *rng.pick(&ALL_TYPES);
        let n = match rng.next() % 8 {
            0 | 1 | 2 => rng.range(2, 9),
            3 | 4 => rng.range(2, 30),
            5 | 6 => rng.range(10, 120),
            _ => rng.range(100, 600),
        } as usize;
        let budget: u128 = match ty {
            "u8" => 255,
            "u16" => 65535,
            "u32" => u32::MAX as u128,
            "u64" | "usize" => u64::MAX as u128,
            "f32" => (1 << 24) - 1,
            _ => (1u128 << 53) - 1,
        };
        let per = (budget / n as u128).max(1);
        let style = rng.next() % 5;
        let ws: Vec<u128> = (0..n)
            .map(|_| match style {
                0 => rng.below(per.min(3) + 1),
                1 => rng.below(per.min(20) + 1),
                2 => rng.below(per + 1),
                3 => rng.bits_biased(20).min(per),
                _ => pow2(rng.below(20) as u32).min(per),
            })
            .collect();
        if ws.iter().sum::<u128>() > budget {
            continue;
        }
        oracle_one(&ws, ty, rng, rep, true);
    }
    // Fibonacci weights: deepest possible trees, codewords longer than one `usize` word
    for n in [2usize, 3, 10, 40, 64, 65, 66, 80, 90] {
        let mut fib = vec![1u128, 1];
        while fib.len() < n {
            let l = fib.len();
            fib.push(fib[l - 1] + fib[l - 2]);
        }
        fib.truncate(n);
        oracle_one(&fib, "u64", rng, rep, false);
        fib.reverse();
        oracle_one(&fib, "usize", rng, rep, false);
    }
    // arbitrary float weights (sums round): all structural clauses, optimality up to rounding
    for _ in 0..(if thorough { 20000 } else { 1500 }) {
        let ty = if rng.chance(1, 2) { "f32" } else { "f64" };
        let n = match rng.next() % 4 {
            0 | 1 => rng.range(1, 9),
            2 => rng.range(2, 40),
            _ => rng.range(30, 300),
        } as usize;
        let style = rng.next() % 5;
        let fw: Vec<f64> = (0..n)
            .map(|_| {
                let u = (rng.next() >> 11) as f64 / (1u64 << 53) as f64;
                match style {
                    0 => u,
                    1 => u * u * u * 1e-3,
                    2 => (u * 20.0 - 10.0).exp2(),
                    3 => {
                        if rng.chance(1, 6) { 0.0 } else if rng.chance(1, 10) { f64::INFINITY } else if rng.chance(1, 10) { 1e-320 } else { (u * 10.0).floor() / 10.0 }
                    }
                    _ => f64::from_bits(rng.next() & 0x7fef_ffff_ffff_ffff).min(1e300),
                }
            })
            .collect();
        oracle_float(&fw, ty, rng, rep);
    }
    // NaN is rejected by both float constructors wherever it occurs (C15 "floats"; C19-like)
    for _ in 0..(if thorough { 2000 } else { 200 }) {
        let n = rng.range(1, 8) as usize;
        let mut v: Vec<Option<u128>> = (0..n).map(|_| Some(rng.below(100))).collect();
        let at = rng.below(n as u128) as usize;
        v[at] = None;
        for ty in ["f32", "f64"] {
            rep.eval("C15");
            rep.count("huff.nan");
            match build(ty, &to_proto(ty, &v, 0)) {
                Some((Err(a), Err(b))) if a == "rejected" && b == "rejected" => {}
                _ => rep.fail("C15", format!("huff {} | NaN at {} of {} : not rejected", ty, at, n)),
            }
        }
    }
}
